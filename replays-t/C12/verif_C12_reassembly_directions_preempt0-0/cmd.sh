#!/bin/sh
export PATH=/opt/veriftools/go1.26.8/bin:$PATH GOTOOLCHAIN=local GOFLAGS=-mod=mod GOPROXY=off GOSUMDB=off
cd /repo && VERIF_REPLAY_PARAMS='preempt=0' VERIF_REPLAY_UNIT=verif_C12_reassembly_directions VERIF_REPLAY_INPUTS=/verif/replays-t/C12/verif_C12_reassembly_directions_preempt0-0/inputs.json go test -vet=off -count=1 -timeout 30s -overlay /verif/replays-t/C12/verif_C12_reassembly_directions_preempt0-0/overlay.json -run '^TestVerifReplay$' -v ./reassembly
