"""Per-property configuration: packages, harness files/generators, bounds."""
MOD = "github.com/gopacket/gopacket"

COMMON_ASSUMPTIONS = [
    "go/ssa lowering of the source (x/tools v0.50.0) and symgo's semantics of the SSA subset are trusted for passing verdicts; violations are only reported after native replay",
    "fmt/log/strconv/hex formatting stubbed: operands evaluated, result an opaque string or fresh error (fmt.Errorf %w keeps the wrapped operand)",
    "append growth modelled as max(2*cap, needed); map iteration in insertion order unless stated",
    "package init of gopacket packages and a whitelist of stdlib packages executed concretely by the interpreter on every run; reads of globals of other packages make a unit 'not encoded'",
    "solver answers: z3 4.8.12 primary, z3 5.1.0 and cvc5 --solve-bv-as-int as fallbacks on unknown; any (error line makes the answer inconclusive",
]


def decl_layers_units(enum, tier, prefix, n, body):
    out = ["package layers", "", 'import "github.com/gopacket/gopacket"', "", "var _ = gopacket.NilDecodeFeedback", ""]
    for x in enum:
        if not x["Decode"]:
            continue
        out.append(body(x, n))
    return "\n".join(out)


def gen_c19(tier, enum):
    n = 24 if tier == "quick" else 32
    e = enum(MOD + "/layers")["types"]

    def body(x, n):
        T = x["Name"]
        nn = C19_SIZES.get(T, {}).get(tier, n)
        call = "l.DecodeFromBytes(in[:n], gopacket.NilDecodeFeedback)" if "DecodeFeedback" in x["DecodeSig"] else "l.DecodeFromBytes(in[:n])"
        return f'''func verif_C19_dfb_{T}() {{
	in := verifBytes("in", {nn})
	n := verifInt("n", 0, {nn})
	var l {T}
	_ = {call}
	verifReached("done")
}}
'''
    return [("layers", "c19gen.go", decl_layers_units(e, tier, "C19", n, body))]


def gen_c01(tier, enum):
    e = enum(MOD + "/layers")
    n = 12 if tier == "quick" else 20
    out = ["package layers", "", 'import "github.com/gopacket/gopacket"', ""]
    out.append("""
func c01Packet(first gopacket.LayerType, n int) {
	in := verifBytes("in", n)
	ln := verifInt("n", 0, n)
	var opts gopacket.DecodeOptions
	switch verifChoose(4) {
	case 1:
		opts = gopacket.DecodeOptions{Lazy: true}
	case 2:
		opts = gopacket.DecodeOptions{NoCopy: true, DecodeStreamsAsDatagrams: true}
	case 3:
		opts = gopacket.DecodeOptions{Lazy: true, Pool: true, DecodeStreamsAsDatagrams: true}
	}
	p := gopacket.NewPacket(in[:ln], first, opts)
	ls := p.Layers()
	el := p.ErrorLayer()
	nfail := 0
	for _, l := range ls {
		if _, ok := l.(*gopacket.DecodeFailure); ok {
			nfail++
		}
		_ = l.LayerType()
		_ = l.LayerContents()
		_ = l.LayerPayload()
	}
	if el != nil {
		verifAssert(len(ls) > 0 && ls[len(ls)-1] == gopacket.Layer(el), "error layer is the last layer")
		verifAssert(nfail <= 1, "no other layer is a decode failure")
	} else {
		verifAssert(nfail == 0, "no decode failure layer without an error layer")
	}
	if l := p.LinkLayer(); l != nil {
		_ = l.LinkFlow()
	}
	if l := p.NetworkLayer(); l != nil {
		_ = l.NetworkFlow()
	}
	if l := p.TransportLayer(); l != nil {
		_ = l.TransportFlow()
	}
	if l := p.ApplicationLayer(); l != nil {
		_ = l.Payload()
	}
	_, _ = p.VerifyChecksums()
	_ = p.Layer(first)
	_ = p.LayerClass(LayerClassIPNetwork)
	_ = p.Metadata().Truncated
	verifReached("pkt")
}
""")
    for lt in e["layertypes"]:
        nn = C01_SIZES.get(lt, {}).get(tier, n)
        out.append(f"func verif_C01_pkt_{lt[len('LayerType'):]}() {{ c01Packet({lt}, {nn}) }}")
    return [("layers", "c01gen.go", "\n".join(out) + "\n")]


C01_SIZES = {}

# per-type input bound overrides (units whose path count explodes)
C19_SIZES = {}

def no_alloc(name, v):
    return v["kind"] != "alloc"


PROPS = {
    "C01": {
        "pkgs": [MOD, MOD + "/layers"],
        "static": [("", "c01core.go")],
        "generate": gen_c01,
        "bounds": "builder protocol: chains of <= 2 (quick) / 3 (thorough) nondeterministic decoder stubs (layer kind, type, symbolic contents/payload split, truncation flag, ending in return nil / return err / panic / NextDecoder(next) / NextDecoder(nil)), input 1..3 symbolic bytes, options NoCopy x Pool x DecodeStreamsAsDatagrams x {eager, lazy}, accessor sequences of <= 2 calls before Layers()",
        "outside": "inputs up to 64 KiB; fmt/reflect internals of String/Dump/LayerGoString",
        "quick": {"timeout": 900, "units": "verif_C01_(core2|pkt_.*)", "params": "verif_C01_core.*:b0=0..14,opt=0..4", "unsupported_ok": True, "maxpaths": 600, "partial_ok_all": True, "timeout": 1200},
        "thorough": {"timeout": 3000, "params": "verif_C01_core.*:b0=0..14,opt=0..4", "unsupported_ok": True, "maxpaths": 20000, "partial_ok_all": True},
    },
    "C03": {
        "pkgs": [MOD],
        "static": [("", "c01core.go"), ("", "c03.go")],
        "bounds": "lazy vs eager on chains of <= 2 (quick) / 3 (thorough) nondeterministic decoder stubs (layer kind, symbolic type, symbolic contents/payload split, truncation, five endings), input 1..3 symbolic bytes, 5 option sets, accessor sequences of 1 (quick) / 2 (thorough) calls from {Layer(t), LayerClass(c), Link/Network/Transport/Application/ErrorLayer} followed by Layers(); compared: returned layer (type, contents, payload), layer list, truncation flag, data",
        "outside": "String()/Dump() text (fmt/reflect not interpreted; they read only data, metadata and layers, which are compared); real decoders are compared in the layers harness of C05/C01; assumption checked by C01: decoders call NextDecoder in tail position after adding a layer",
        "quick": {"timeout": 1200, "units": "verif_C03_core2", "params": "verif_C03_core.*:b0=0..14,opt=0..4"},
        "thorough": {"timeout": 3000, "params": "verif_C03_core.*:b0=0..14,opt=0..4"},
    },
    "C08": {
        "pkgs": [MOD],
        "static": [("", "c08.go")],
        "units": "verif_C08.*",
        "must_reach_all": [],
        "bounds": "FoldChecksum: all 2^32 accumulator values; ComputeChecksum: all byte strings of length 0..24 and all 2^32 initial sums",
        "outside": "data longer than the bound",
        "quick": {"qtimeout": 5000, "fbtimeout": 120000},
        "thorough": {"qtimeout": 5000, "fbtimeout": 300000},
    },
    "C14": {
        "pkgs": [MOD + "/pcapgo"],
        "static": [("pcapgo", "c14.go")],
        "violation_filter": no_alloc,
        "bounds": "pcap (micro and nano): 1..2 packets, data 0..3 symbolic bytes, Length = caplen + symbolic 16-bit excess, seconds any 32-bit value, nanoseconds 0..999999999, symbolic snap length >= 3 and link type; read back copying or zero-copy; crash points: every truncation offset of the produced file (enumerated)",
        "outside": "libpcap (cgo) reading the same file is not encodable and not claimed; gzip",
        "quick": {"timeout": 600},
        "thorough": {"timeout": 3000},
    },
    "C15": {
        "pkgs": [MOD + "/pcapgo"],
        "static": [("pcapgo", "c15.go")],
        "bounds": "every stream length 0..L enumerated (one instance per length), contents fully symbolic; pcap L=56 quick/72 thorough, snoop L=48/64, pcapng L=48/96; up to 3 (pcap) / 2 (snoop, pcapng) read calls, copying or zero-copy chosen per call; chunking: first two Read calls return 1, 3, 7 or all bytes (all 16 combinations); fault: I/O error injected at a symbolic byte position; declared pcap snap length assumed <= 65535; allocations whose symbolic size can exceed 65536 elements are reported",
        "outside": "gzip-wrapped input (assumed away right after the magic test); longer streams",
        "quick": {"timeout": 600, "params": "verif_C15_pcap:len=0..48;verif_C15_pcap_(chunks|fault):len=0..48/4;verif_C15_snoop.*:len=0..44/4;verif_C15_ng:len=0..30/2;verif_C15_ng_idb:len=0..28/4;verif_C15_ng_epb:len=28..44/4", "units": "verif_C15_(pcap|pcap_chunks|pcap_fault|snoop|snoop_fault|ng|ng_idb|ng_epb)"},
        "thorough": {"timeout": 3000, "params": "verif_C15_pcap.*:len=0..72;verif_C15_snoop.*:len=0..64;verif_C15_ng:len=0..40;verif_C15_ng_(chunks|fault|mixed):len=0..36;verif_C15_ng_idb:len=0..44;verif_C15_ng_epb:len=28..64"},
    },
    "C17": {
        "pkgs": [MOD],
        "static": [("", "c17.go")],
        "units": "verif_C17.*",
        "bounds": "address lengths 0..16 symbolic (17..20 for rejection), 64-bit symbolic endpoint types, three symbolic endpoints for the order axioms; hash symmetry additionally with lengths <= 2 decided by bit-blasting",
        "outside": "layer-to-flow correspondence is in the layers harness (C17 units in package layers)",
        "quick": {"timeout": 300},
        "thorough": {"timeout": 900},
    },
    "C10": {
        "pkgs": [MOD + "/tcpassembly"],
        "static": [("tcpassembly", "c10.go")],
        "bounds": "Sequence lemma over all 2^64 pairs (distance < 2^30); histories: SYN + k <= 2 (quick) / 3 (thorough) segments with symbolic offset 0..7 and length 0..3 into an 11-byte symbolic stream, fully symbolic 32-bit ISN, optional FIN, optional FlushOlderThan after each segment and final FlushAll, optional per-connection page limit 1",
        "outside": "longer histories, multi-page segments, both directions interleaved",
        "quick": {"timeout": 900, "units": "verif_C10_(seq_lemma|hist2|hist2_flush)"},
        "thorough": {"timeout": 3000},
    },
    "C13": {
        "pkgs": [MOD + "/ip4defrag", MOD + "/ip6defrag"],
        "static": [("ip4defrag", "c13.go"), ("ip6defrag", "c13v6.go")],
        "bounds": "IPv4: datagrams of 3 fragments cut at 8-byte units (fragment sizes 8/16 bytes, last fragment 1..8 bytes symbolic), all 6 arrival orders, IHL 5 and 6, one duplicate and one foreign fragment at any position, payload bytes symbolic; hostile: 2-3 fragments with independent symbolic offset (0..3 units), length (0..24), MF flag and contents",
        "outside": "payloads up to 65515 bytes, the 8192-fragment cap, more than 3 fragments",
        "quick": {"timeout": 900, "unwind": 400, "units": "verif_C13_(benign|benign_extras|passthrough|hostile2|discard|v6)"},
        "thorough": {"timeout": 3000, "unwind": 400},
    },
    "C18": {
        "pkgs": [MOD],
        "static": [("", "c18.go")],
        "bounds": "all sequences of <= 3 (quick) / 4 (thorough) operations from {PrependBytes(n), AppendBytes(n), Clear}, n symbolic in 0..3, written bytes symbolic, both constructors with hints 0..2 symbolic; window harness: one op on a buffer holding 0..3 symbolic bytes, symbolic write position; SerializeLayers with 3 harness layers prepending 0..2 bytes each and a failure at any position",
        "outside": "longer histories and larger sizes (no sampling is done beyond the bound); the inductive single-step harness over arbitrary buffer states needs symbolic-size objects, which the engine does not have",
        "quick": {"units": "verif_C18_(seq2|seq3|window|stack)", "timeout": 600},
        "thorough": {"units": "verif_C18_(seq2|seq3|seq4|window|stack)", "timeout": 3000},
    },
    "C20": {
        "pkgs": [MOD + "/tcpassembly/tcpreader"],
        "static": [("tcpassembly/tcpreader", "c20.go")],
        "bounds": "assembler goroutine delivering 1..2 (quick) / 1..3 (thorough) batches of 1..2 reassemblies (0..2 symbolic bytes each, with or without skip) then completing; consumer goroutine doing up to 3 (5) steps each Read(1 or 2 bytes) or Close, then reading to EOF; LossErrors on/off; all interleavings at channel-operation granularity (bounded-exhaustive scheduler choices)",
        "outside": "the Go scheduler and memory model below channel-operation granularity; longer histories",
        "quick": {"timeout": 600, "units": "verif_C20_(read|close)", "params": "verif_C20.*:preempt=0..1"},
        "thorough": {"timeout": 3000, "params": "verif_C20.*:preempt=0..2"},
    },
    "C19": {
        "pkgs": [MOD + "/layers"],
        "generate": gen_c19,
        "units": "verif_C19.*",
        "bounds": "every type with DecodeFromBytes; input = n symbolic bytes, n symbolic in 0..24 (quick) / 0..32 (thorough) unless listed in per-unit overrides; unwinding bound 80 symbolic iterations per branch site per frame",
        "outside": "inputs longer than the bound; units listed in units_not_encoded",
        "quick": {"timeout": 120, "unsupported_ok": True},
        "thorough": {"timeout": 1200, "unsupported_ok": True},
    },
}
