"""Per-property configuration: packages, harness files/generators, bounds."""
MOD = "github.com/gopacket/gopacket"

COMMON_ASSUMPTIONS = [
    "go/ssa lowering of the source (x/tools v0.50.0) and symgo's semantics of the SSA subset are trusted for passing verdicts; violations are only reported after native replay",
    "fmt/log/strconv/hex formatting stubbed: operands evaluated, result an opaque string or fresh error (fmt.Errorf %w keeps the wrapped operand)",
    "append growth modelled as max(2*cap, needed); map iteration in insertion order unless stated",
    "package init of gopacket packages and a whitelist of stdlib packages executed concretely by the interpreter on every run; reads of globals of other packages make a unit 'not encoded'",
    "solver answers: z3 4.8.12 primary, z3 5.1.0 and cvc5 --solve-bv-as-int as fallbacks on unknown; any (error line makes the answer inconclusive",
]


def decl_layers_units(enum, tier, prefix, n, body):
    out = ["package layers", "", 'import "github.com/gopacket/gopacket"', "", "var _ = gopacket.NilDecodeFeedback", ""]
    for x in enum:
        if not x["Decode"]:
            continue
        out.append(body(x, n))
    return "\n".join(out)


def gen_c19(tier, enum):
    n = 24 if tier == "quick" else 32
    e = enum(MOD + "/layers")

    def body(x, n):
        T = x["Name"]
        nn = C19_SIZES.get(T, {}).get(tier, n)
        call = "l.DecodeFromBytes(in[:n], gopacket.NilDecodeFeedback)" if "DecodeFeedback" in x["DecodeSig"] else "l.DecodeFromBytes(in[:n])"
        return f'''func verif_C19_dfb_{T}() {{
	in := verifBytes("in", {nn})
	n := verifInt("n", 0, {nn})
	var l {T}
	_ = {call}
	verifReached("done")
}}
'''
    return [("layers", "c19gen.go", decl_layers_units(e, tier, "C19", n, body))]


# per-type input bound overrides (units whose path count explodes)
C19_SIZES = {}

PROPS = {
    "C08": {
        "pkgs": [MOD],
        "static": [("", "c08.go")],
        "units": "verif_C08.*",
        "must_reach_all": [],
        "bounds": "FoldChecksum: all 2^32 accumulator values; ComputeChecksum: all byte strings of length 0..24 and all 2^32 initial sums",
        "outside": "data longer than the bound",
        "quick": {"qtimeout": 5000, "fbtimeout": 120000},
        "thorough": {"qtimeout": 5000, "fbtimeout": 300000},
    },
    "C17": {
        "pkgs": [MOD],
        "static": [("", "c17.go")],
        "units": "verif_C17.*",
        "bounds": "address lengths 0..16 symbolic (17..20 for rejection), 64-bit symbolic endpoint types, three symbolic endpoints for the order axioms; hash symmetry additionally with lengths <= 2 decided by bit-blasting",
        "outside": "layer-to-flow correspondence is in the layers harness (C17 units in package layers)",
        "quick": {"timeout": 300},
        "thorough": {"timeout": 900},
    },
    "C19": {
        "pkgs": [MOD + "/layers"],
        "generate": gen_c19,
        "units": "verif_C19.*",
        "bounds": "every type with DecodeFromBytes; input = n symbolic bytes, n symbolic in 0..24 (quick) / 0..32 (thorough) unless listed in per-unit overrides; unwinding bound 80 symbolic iterations per branch site per frame",
        "outside": "inputs longer than the bound; units listed in units_not_encoded",
        "quick": {"timeout": 120, "unsupported_ok": True},
        "thorough": {"timeout": 1200, "unsupported_ok": True},
    },
}
