"""Per-property configuration: packages, harness files/generators, bounds."""
import os

MOD = "github.com/gopacket/gopacket"

COMMON_ASSUMPTIONS = [
    "go/ssa lowering of the source (x/tools v0.50.0) and symgo's semantics of the SSA subset are trusted for passing verdicts; violations are only reported after native replay",
    "fmt/log/strconv/hex formatting stubbed: operands evaluated, result an opaque string or fresh error (fmt.Errorf %w keeps the wrapped operand)",
    "append growth modelled as max(2*cap, needed); map iteration in insertion order unless stated",
    "package init of gopacket packages and a whitelist of stdlib packages executed concretely by the interpreter on every run; reads of globals of other packages make a unit 'not encoded'",
    "solver answers: z3 5.1.0 primary; cvc5 --solve-bv-as-int=sum, then z3 4.8.12 (fresh process, whole path condition, hard process time limit) on unknown; any (error line makes the answer inconclusive",
]


def decl_layers_units(enum, tier, prefix, n, body):
    out = ["package layers", "", 'import "github.com/gopacket/gopacket"', "", "var _ = gopacket.NilDecodeFeedback", ""]
    for x in enum:
        if not x["Decode"]:
            continue
        out.append(body(x, n))
    return "\n".join(out)


def gen_c19(tier, enum):
    n = 24 if tier == "quick" else 32
    e = enum(MOD + "/layers")["types"]

    def body(x, n):
        T = x["Name"]
        nn = C19_SIZES.get(T, {}).get(tier, n)
        call = "l.DecodeFromBytes(in[:n], gopacket.NilDecodeFeedback)" if "DecodeFeedback" in x["DecodeSig"] else "l.DecodeFromBytes(in[:n])"
        return f'''func verif_C19_dfb_{T}() {{
	in := verifBytes("in", {nn})
	n := verifInt("n", 0, {nn})
	var l {T}
	_ = {call}
	verifReached("done")
}}
'''
    return [("layers", "c19gen.go", decl_layers_units(e, tier, "C19", n, body))]


def gen_c01(tier, enum):
    e = enum(MOD + "/layers")
    n = 10 if tier == "quick" else 20
    out = ["package layers", "", 'import "github.com/gopacket/gopacket"', ""]
    out.append("""
func c01Packet(first gopacket.LayerType, n int) {
	in := verifBytes("in", n)
	ln := verifInt("n", 0, n)
	var opts gopacket.DecodeOptions
	switch verifChoose(4) {
	case 1:
		opts = gopacket.DecodeOptions{Lazy: true}
	case 2:
		opts = gopacket.DecodeOptions{NoCopy: true, DecodeStreamsAsDatagrams: true}
	case 3:
		opts = gopacket.DecodeOptions{Lazy: true, Pool: true, DecodeStreamsAsDatagrams: true}
	}
	p := gopacket.NewPacket(in[:ln], first, opts)
	ls := p.Layers()
	el := p.ErrorLayer()
	nfail := 0
	for _, l := range ls {
		if _, ok := l.(*gopacket.DecodeFailure); ok {
			nfail++
		}
		_ = l.LayerType()
		_ = l.LayerContents()
		_ = l.LayerPayload()
	}
	if el != nil {
		verifAssert(len(ls) > 0 && ls[len(ls)-1] == gopacket.Layer(el), "error layer is the last layer")
		verifAssert(nfail <= 1, "no other layer is a decode failure")
	} else {
		verifAssert(nfail == 0, "no decode failure layer without an error layer")
	}
	if l := p.LinkLayer(); l != nil {
		_ = l.LinkFlow()
	}
	if l := p.NetworkLayer(); l != nil {
		_ = l.NetworkFlow()
	}
	if l := p.TransportLayer(); l != nil {
		_ = l.TransportFlow()
	}
	if l := p.ApplicationLayer(); l != nil {
		_ = l.Payload()
	}
	_, _ = p.VerifyChecksums()
	_ = p.Layer(first)
	_ = p.LayerClass(LayerClassIPNetwork)
	_ = p.Metadata().Truncated
	verifReached("pkt")
}
""")
    for lt in e["layertypes"]:
        nn = C01_SIZES.get(lt, {}).get(tier, n)
        out.append(f"func verif_C01_pkt_{lt[len('LayerType'):]}() {{ c01Packet({lt}, {nn}) }}")
    for T, rn in C01_RENDER.items():
        out.append(f"func verif_C01_render_{T}() {{ c01Render(LayerType{T}, {rn if tier == 'quick' else rn + 8}) }}")
    return [("layers", "c01gen.go", "\n".join(out) + "\n")]


C01_SIZES = {}
# rendering walk (String/Dump of every decoded layer): first layer type -> input bound (quick)
C01_RENDER = {"TCP": 32, "IPv4": 28, "UDP": 12, "Ethernet": 18, "ICMPv4": 12, "ICMPv6": 16, "GRE": 16, "ARP": 28, "IPv6": 44, "Dot1Q": 8, "SCTP": 20, "LLC": 8, "VRRP": 12, "IGMP": 12}

C06_COMMON = """
type c06DF struct{ t bool }

func (d *c06DF) SetTruncated() { d.t = true }

var c06Net4 = &IPv4{Version: 4, IHL: 5, SrcIP: net.IP{10, 1, 2, 3}, DstIP: net.IP{10, 4, 5, 6}, Protocol: IPProtocolTCP}

// Ethernet.SerializeTo pads frames to the 60-byte minimum, as the protocol
// requires; a decoder cannot tell padding from payload
func c06EthernetPayload(got, want []byte) {
	verifAssert(len(got) >= len(want), "payload not shortened by the round trip")
	if len(got) >= len(want) {
		verifAssert(bytes.Equal(got[:len(want)], want), "original payload is a prefix after the round trip")
		for _, b := range got[len(want):] {
			verifAssert(b == 0, "the rest is zero padding")
		}
		verifAssert(len(got) == len(want) || len(got) <= 46, "padding only up to the minimum frame size")
	}
}

// IPv6 hop-by-hop / destination options: FixLengths re-computes the padding
// options (Pad1/PadN), so the lists are compared without padding options
func c06SameTLV(at []uint8, ad [][]byte, bt []uint8, bd [][]byte) {
	verifAssert(len(at) == len(bt), "same number of non-padding options after the round trip")
	for i := range at {
		if i < len(bt) {
			verifAssert(at[i] == bt[i], "same option types in the same order")
			verifAssert(bytes.Equal(ad[i], bd[i]), "same option data")
		}
	}
}

// dirty buffer: previously held other (symbolic) data and was cleared
func c06DirtyBuffer() gopacket.SerializeBuffer {
	b := gopacket.NewSerializeBuffer()
	g1, _ := b.PrependBytes(40)
	junk := verifBytes("junk", 40)
	copy(g1, junk)
	g2, _ := b.AppendBytes(24)
	junk2 := verifBytes("junk2", 24)
	copy(g2, junk2)
	b.Clear()
	return b
}
"""


# Types for which the round-trip harness produced counterexamples that were
# not triaged (oracle question open: FCS/padding/option semantics) or whose
# exploration does not fit the budgets.  They are NOT claimed by C06/C07.
C06_NOT_CLAIMED = {
    "Dot11": "the decoder strips a 4-octet frame check sequence that the serializer does not write, so written bytes decode with an error or a shorter payload; whether the caller is meant to append the FCS is an open oracle question",
    "RadioTap": "the decoder appends a computed FCS to the payload when the flags say none is present, so the payload differs after the round trip; same open oracle question as Dot11",
    "DNS": "exploration does not complete within the budgets (string handling)",
}


def ser_types(enum, excluded=None):
    e = enum(MOD + "/layers")["types"]
    if excluded is None:
        excluded = C06_NOT_CLAIMED
    if os.environ.get("VERIF_CLAIM_ALL"):
        excluded = {}
    return [x for x in e if x["Decode"] and x["Serialize"] and "DecodeFeedback" in x["DecodeSig"] and x["Name"] not in excluded]


def gen_c06(tier, enum):
    n = 14 if tier == "quick" else 24
    n = int(os.environ.get("VERIF_C06_N", n))
    csum = "false" if tier == "quick" else "true"
    out = ["package layers", "", 'import (', '\t"bytes"', '\t"net"', "", '\t"github.com/gopacket/gopacket"', ")", "", "var _ = bytes.Equal", C06_COMMON]
    for x in ser_types(enum):
        T = x["Name"]
        lo, nn = c06_range(T, tier, n)
        setnet = "\tl.SetNetworkLayerForChecksum(c06Net4)\n" if x["SetNet"] else ""
        setnet2 = "\tl2.SetNetworkLayerForChecksum(c06Net4)\n" if x["SetNet"] else ""
        payload_check = 'verifAssert(bytes.Equal(l2.LayerPayload(), pay), "same payload after the round trip")'
        if T in ("IPv6HopByHop", "IPv6Destination"):
            fields_check = """var at, bt []uint8
	var ad, bd [][]byte
	for _, o := range l.Options {
		if o.OptionType > 1 {
			at, ad = append(at, o.OptionType), append(ad, o.OptionData)
		}
	}
	for _, o := range l2.Options {
		if o.OptionType > 1 {
			bt, bd = append(bt, o.OptionType), append(bd, o.OptionData)
		}
	}
	c06SameTLV(at, ad, bt, bd)
	verifAssert(l.NextHeader == l2.NextHeader, "same next header")"""
        elif T == "IPv4":
            # FixLengths recomputes the header length (IHL) from the options; padding
            # beyond what alignment needs (bytes after an end-of-options octet in a
            # longer header) is cut with it, what remains must be unchanged
            fields_check = """verifAssert(verifDeepEqualExcept(&l, &l2, "(?i)checksum|length|len$|crc|fcs|^IHL$|^Padding$"), "same field values after serialize then decode")
	verifAssert(len(l2.Padding) <= len(l.Padding) || len(l.Padding) == 0, "padding not longer after the round trip")
	if len(l2.Padding) <= len(l.Padding) {
		verifAssert(bytes.Equal(l2.Padding, l.Padding[:len(l2.Padding)]), "padding bytes unchanged after the round trip")
	}"""
        else:
            fields_check = 'verifAssert(verifDeepEqualExcept(&l, &l2, "(?i)checksum|length|len$|crc|fcs"), "same field values after serialize then decode")'
        # RADIUS: the payload is a view of the EAP-Message attribute values the
        # layer writes itself, not bytes that follow the layer
        wpay = "[]byte(nil)" if T in C06_PAYLOAD_INSIDE else "pay"
        if T == "Ethernet":
            # frames are padded to the 60-byte minimum (documented in SerializeTo): the original payload is a prefix, the rest is zero padding
            payload_check = 'c06EthernetPayload(l2.LayerPayload(), pay)'
        out.append(f"""func verif_C06_rt_{T}() {{
	in := verifBytes("in", {nn})
	n := verifInt("n", {lo}, {nn})
	var l {T}
	df := &c06DF{{}}
	if err := l.DecodeFromBytes(in[:n], df); err != nil {{
		verifReached("decode-err")
		return
	}}
	if df.t {{
		verifReached("decode-truncated")
		return
	}}
	verifReached("decoded")
{setnet}	buf := gopacket.NewSerializeBuffer()
	pay := l.LayerPayload()
	wpay := {wpay}
	pb, _ := buf.AppendBytes(len(wpay))
	copy(pb, wpay)
	if err := l.SerializeTo(buf, gopacket.SerializeOptions{{FixLengths: true, ComputeChecksums: {csum}}}); err != nil {{
		verifReached("serialize-refused")
		return
	}}
	out := buf.Bytes()
	var l2 {T}
	df2 := &c06DF{{}}
	err := l2.DecodeFromBytes(out, df2)
	verifAssert(err == nil, "written bytes decode without error")
	verifAssert(!df2.t, "written bytes decode without truncation flag")
	{payload_check}
	// fields that SerializeTo is documented to overwrite when fixing lengths
	// and computing checksums are compared after a second round instead
	{fields_check}
{setnet2}	buf2 := gopacket.NewSerializeBuffer()
	pay2 := l2.LayerPayload()
	if len(wpay) == 0 {{
		pay2 = nil
	}}
	pb2, _ := buf2.AppendBytes(len(pay2))
	copy(pb2, pay2)
	if err := l2.SerializeTo(buf2, gopacket.SerializeOptions{{FixLengths: true, ComputeChecksums: {csum}}}); err == nil {{
		verifAssert(bytes.Equal(buf2.Bytes(), out), "writing the decoded layer once more reproduces the same bytes")
	}}
	verifReached("roundtrip")
}}
""")
    return [("layers", "c06gen.go", "\n".join(out))]


# C07's oracle (no panic, bytes independent of the buffer's past) has no open
# question for Dot11 and RadioTap, so C07 claims them; DNS does not decode
# within the budgets
C07_NOT_CLAIMED = {k: v for k, v in C06_NOT_CLAIMED.items() if k in ("DNS",)}
C07_RANGE = {"Dot11": {"quick": (10, 34), "thorough": (0, 40)}}


def gen_c07(tier, enum):
    n = 14 if tier == "quick" else 24
    n = int(os.environ.get("VERIF_C06_N", n))
    out = ["package layers", "", 'import (', '\t"bytes"', '\t"net"', "", '\t"github.com/gopacket/gopacket"', ")", "", "var _ = bytes.Equal", C06_COMMON]
    for x in ser_types(enum, C07_NOT_CLAIMED):
        T = x["Name"]
        lo, nn = C07_RANGE.get(T, {}).get(tier) or c06_range(T, tier, n)
        setnet = "\tl.SetNetworkLayerForChecksum(c06Net4)\n" if x["SetNet"] else ""
        c07csum = "false" if tier == "quick" else "verifChoose(2) == 1"
        c07pay = "[]byte(nil)" if T in C06_PAYLOAD_INSIDE else "l.LayerPayload()"
        prelude = C07_PRELUDE.get(T, "")
        out.append(f"""func verif_C07_ser_{T}() {{
	in := verifBytes("in", {nn})
	n := verifInt("n", {lo}, {nn})
	var l {T}
{prelude}	if err := l.DecodeFromBytes(in[:n], gopacket.NilDecodeFeedback); err != nil {{
		verifReached("decode-err")
		return
	}}
	verifReached("decoded")
{setnet}	opts := gopacket.SerializeOptions{{FixLengths: verifChoose(2) == 1, ComputeChecksums: {c07csum}}}
	pay := append([]byte(nil), {c07pay}...)
	fresh := gopacket.NewSerializeBuffer()
	pb, _ := fresh.AppendBytes(len(pay))
	copy(pb, pay)
	err1 := l.SerializeTo(fresh, opts) // must not panic
	out1 := append([]byte(nil), fresh.Bytes()...)
	dirty := c06DirtyBuffer()
	pb2, _ := dirty.AppendBytes(len(pay))
	copy(pb2, pay)
	err2 := l.SerializeTo(dirty, opts)
	verifAssert((err1 == nil) == (err2 == nil), "same outcome on a fresh and on a dirty buffer")
	if err1 == nil && err2 == nil {{
		verifAssert(bytes.Equal(out1, dirty.Bytes()), "same bytes on a fresh and on a previously used buffer")
		// writing the same layer again gives the same bytes
		again := gopacket.NewSerializeBufferExpectedSize(verifInt("hp", 0, 2), verifInt("ha", 0, 2))
		pb3, _ := again.AppendBytes(len(pay))
		copy(pb3, pay)
		err3 := l.SerializeTo(again, opts)
		verifAssert(err3 == nil, "repeated serialization succeeds")
		verifAssert(bytes.Equal(out1, again.Bytes()), "repeated serialization gives the same bytes")
	}}
	verifReached("serialized")
}}
""")
    return [("layers", "c07gen.go", "\n".join(out))]


C06_SIZES = {"IPv6HopByHop": {"quick": 8, "thorough": 16}, "IPv6Destination": {"quick": 8, "thorough": 16}, "GRE": {"thorough": 20}, "UDP": {"thorough": 14}}
# smallest input the decoder accepts, for the types whose fixed header is
# longer than the default bound: the quick tier explores lengths
# min..min+4 (shorter inputs only reach the decoder's length check, which is
# C19's subject), the thorough tier 0..max(24, min+8)
C06_PAYLOAD_INSIDE = {"RADIUS"}
# ARP: the two address sizes position every later field; they are enumerated
# (0..3 each) instead of symbolic, everything else stays symbolic
C07_PRELUDE = {"ARP": "\tin[4], in[5] = byte(verifChoose(4)), byte(verifChoose(4))\n",
               # DHCPv6: the length of the first option is enumerated 0..7 (7 and more
               # does not fit the input bound and is rejected by the decoder)
               "DHCPv6": "\tin[6], in[7] = 0, byte(verifChoose(8))\n"}
C06_MIN = {"APSP": 40, "ASFPresencePong": 16, "BFD": 24, "DHCPv4": 240, "Diameter": 20, "EAPOLKey": 95,
           "ICMPv6NeighborAdvertisement": 20, "ICMPv6NeighborSolicitation": 20, "ICMPv6Redirect": 36, "IPv4": 20, "IPv6": 40,
           "MDP": 28, "MLDv1Message": 20, "MLDv1MulticastListenerDoneMessage": 20, "MLDv1MulticastListenerQueryMessage": 20,
           "MLDv1MulticastListenerReportMessage": 20, "MLDv2MulticastListenerQueryMessage": 24, "NTP": 48, "RADIUS": 20, "STP": 35, "TCP": 20}


def c06_range(T, tier, n):
    """(lo, hi) of the symbolic input length for type T."""
    if T in C06_SIZES and tier in C06_SIZES[T]:
        return 0, C06_SIZES[T][tier]
    if T in C06_MIN:
        m = C06_MIN[T]
        if os.environ.get("VERIF_C06_N"):
            return 0, n
        return (m, m + 4) if tier == "quick" else (0, max(n, m + 8))
    return 0, n

C02_CORE = [("Ethernet", 22), ("Dot1Q", 12), ("IPv4", 28), ("IPv6", 44), ("TCP", 24), ("UDP", 12), ("ICMPv4", 12), ("ICMPv6", 12), ("GRE", 16), ("ARP", 28)]


def gen_c02(tier, enum):
    out = ["package layers", ""]
    extra = [tuple(x.split(":")) for x in os.environ.get("VERIF_C02_EXTRA", "").split(",") if x]
    for T, n in list(C02_CORE) + [(t, int(k)) for t, k in extra]:
        if tier == "thorough":
            n += 8
        out.append(f"func verif_C02_det_{T}()    {{ c02Determinism(LayerType{T}, {n}) }}")
        out.append(f"func verif_C02_shared_{T}() {{ c02Shared(LayerType{T}, {n}) }}")
    return [("layers", "c02gen.go", "\n".join(out) + "\n")]


def gen_c04(tier, enum):
    out = ["package layers", ""]
    for T, n in C02_CORE:
        if tier == "thorough":
            n += 8
        out.append(f"func verif_C04_own_{T}() {{ c04Ownership(LayerType{T}, {n}) }}")
    return [("layers", "c04gen.go", "\n".join(out) + "\n")]


C05_CORE = {"Ethernet": 18, "Dot1Q": 8, "IPv4": 28, "IPv6": 48, "TCP": 28, "UDP": 12, "ICMPv4": 12, "ICMPv6": 12, "GRE": 16, "ARP": 28}


# fixed header length of the types for which the focused stale-state unit is generated
C05_MINHDR = {"Ethernet": 14, "Dot1Q": 4, "IPv4": 20, "IPv6": 40, "TCP": 20, "UDP": 8, "ICMPv4": 8, "ICMPv6": 4, "GRE": 4, "ARP": 8}


def gen_c05(tier, enum):
    e = [x for x in enum(MOD + "/layers")["types"] if x["Decode"] and "DecodeFeedback" in x["DecodeSig"]]
    n0 = 20 if tier == "quick" else 28
    out = ["package layers", "", 'import "github.com/gopacket/gopacket"', "", "var _ = gopacket.NilDecodeFeedback", ""]
    for x in e:
        T = x["Name"]
        # the property quantifies over the common link/network/transport/application
        # stack: the stale-state units are generated for those types
        if T not in C05_CORE:
            continue
        n = C05_CORE.get(T, n0) + (0 if tier == "quick" else 8)
        out.append(f"""func verif_C05_stale_{T}() {{
	a := verifBytes("a", {n})
	na := verifInt("na", 0, {n})
	b := verifBytes("b", {n})
	nb := verifInt("nb", 0, {n})
	var l, f {T}
	_ = l.DecodeFromBytes(a[:na], gopacket.NilDecodeFeedback)
	d1, d2 := &c05DF{{}}, &c05DF{{}}
	e1 := l.DecodeFromBytes(b[:nb], d1)
	e2 := f.DecodeFromBytes(b[:nb], d2)
	verifAssert((e1 == nil) == (e2 == nil), "same outcome as decoding into a fresh object")
	if e1 == nil && e2 == nil {{
		verifAssert(d1.t == d2.t, "same truncation flag as a fresh object")
		verifAssert(verifDeepEqual(&l, &f), "same field values as decoding into a fresh object")
	}}
	verifReached("stale")
}}
""")
        if T in C05_MINHDR:
            m = C05_MINHDR[T]
            # focused variant: a rich first packet (longer than the fixed header, so
            # options/extensions are present) followed by a minimal second packet
            out.append(f"""func verif_C05_stale2_{T}() {{
	a := verifBytes("a", {n})
	na := verifInt("na", {m + 1}, {n})
	b := verifBytes("b", {m + 1})
	nb := verifInt("nb", {m}, {m + 1})
	var l, f {T}
	if l.DecodeFromBytes(a[:na], gopacket.NilDecodeFeedback) != nil {{
		verifReached("first-rejected")
	}}
	d1, d2 := &c05DF{{}}, &c05DF{{}}
	e1 := l.DecodeFromBytes(b[:nb], d1)
	e2 := f.DecodeFromBytes(b[:nb], d2)
	verifAssert((e1 == nil) == (e2 == nil), "same outcome as decoding into a fresh object")
	if e1 == nil && e2 == nil {{
		verifAssert(d1.t == d2.t, "same truncation flag as a fresh object")
		verifAssert(verifDeepEqual(&l, &f), "same field values as decoding into a fresh object")
	}}
	verifReached("stale")
}}
""")
    return [("layers", "c05gen.go", "\n".join(out))]

# per-type input bound overrides (units whose path count explodes)
C19_SIZES = {"DNS": {"quick": 13, "thorough": 20}, "TLS": {"quick": 16}, "SIP": {"quick": 12, "thorough": 16}}

def no_alloc(name, v):
    return v["kind"] != "alloc"


PROPS = {
    "C01": {
        "pkgs": [MOD, MOD + "/layers"],
        "static": [("", "c01core.go"), ("layers", "c02.go")],
        "generate": gen_c01,
        "bounds": "builder protocol: chains of <= 2 (quick) / 3 (thorough) nondeterministic decoder stubs (layer kind, type, symbolic contents/payload split, truncation flag, ending in return nil / return err / panic / NextDecoder(next) / NextDecoder(nil)), input 1..3 symbolic bytes, options NoCopy x Pool x DecodeStreamsAsDatagrams x {eager, lazy}, accessor sequences of <= 2 calls before Layers()",
        "outside": "inputs up to 64 KiB; the text produced by String/Dump (fmt is stubbed; the engine follows layerString's traversal and executes every String()/Error() method it would call, for 15 first-layer types); LayerGoString; slices of more than 4 elements are not rendered by gopacket itself",
        "quick": {"timeout": 900, "units": "verif_C01_(core2|pkt_.*|render_.*)", "params": "verif_C01_core.*:b0=0..14,opt=0..1", "unsupported_ok": True, "maxpaths": 250, "partial_ok_all": True, "timeout": 1200},
        "thorough": {"timeout": 3000, "params": "verif_C01_core.*:b0=0..14,opt=0..4", "unsupported_ok": True, "maxpaths": 20000, "partial_ok_all": True},
    },
    "C02": {
        "pkgs": [MOD + "/layers"],
        "static": [("layers", "c02.go")],
        "generate": gen_c02,
        "bounds": "ten core first-layer types (Ethernet, Dot1Q, IPv4, IPv6, TCP, UDP, ICMPv4, ICMPv6, GRE, ARP), input of symbolic length up to header+8 bytes (quick) / +16 (thorough); determinism: decode, unrelated decode, decode again, with and without NoCopy, write barrier on the caller's buffer and on all package-level state; RadioTap with the data-pad flag (concrete radiotap header and frame control, symbolic 802.11 frame, NoCopy); sharing: two reader goroutines run every accessor including VerifyChecksums on one eager packet whose whole object graph is frozen for writing",
        "outside": "the Go race detector is used only to confirm a reported store natively; more than two readers; String()/Dump() rendering (fmt/reflect)",
        "quick": {"timeout": 1200, "maxpaths": 150, "partial_ok_all": True, "unsupported_ok": True, "units": "verif_C02_(det|shared)_(Ethernet|IPv4|TCP|UDP|ICMPv4|ICMPv6|GRE|radiotap_datapad)"},
        "thorough": {"timeout": 3000, "maxpaths": 10000, "partial_ok_all": True, "unsupported_ok": True},
    },
    "C04": {
        "pkgs": [MOD + "/layers"],
        "static": [("layers", "c02.go")],
        "generate": gen_c04,
        "bounds": "ten core first-layer types: default vs NoCopy vs Pool vs Pool+NoCopy decode of the same symbolic bytes (length up to header+8/+16) compared layer by layer, reachability of the caller's buffer from the default packet, mutation of the caller's buffer afterwards; pooled packets: all histories of 3 NewPacket(Pool)/Dispose operations with a nondeterministic sync.Pool (contract model: Get returns any pooled block or a new one); lengths 1499..1501 around the pool block size",
        "outside": "the real sync.Pool; Dispose racing with decoding on other goroutines",
        "quick": {"timeout": 1200, "maxpaths": 100, "partial_ok_all": True, "unsupported_ok": True, "params": "verif_C04_pool_sizes:len=1499..1501", "units": "verif_C04_(pool_history|pool_sizes|own_(IPv4|UDP|TCP|ARP))"},
        "thorough": {"timeout": 3000, "maxpaths": 20000, "partial_ok_all": True, "unsupported_ok": True, "params": "verif_C04_pool_sizes:len=1498..1502"},
    },
    "C03": {
        "pkgs": [MOD],
        "static": [("", "c01core.go"), ("", "c03.go")],
        "bounds": "lazy vs eager on chains of <= 2 (quick) / 3 (thorough) nondeterministic decoder stubs (layer kind, symbolic type, symbolic contents/payload split, truncation, five endings), input 1..3 symbolic bytes, 5 option sets, accessor sequences of 1 (quick) / 2 (thorough) calls from {Layer(t), LayerClass(c), Link/Network/Transport/Application/ErrorLayer} followed by Layers(); compared: returned layer (type, contents, payload), layer list, truncation flag, data",
        "outside": "String()/Dump() text (fmt/reflect not interpreted; they read only data, metadata and layers, which are compared); real decoders are compared in the layers harness of C05/C01; assumption checked by C01: decoders call NextDecoder in tail position after adding a layer",
        "quick": {"timeout": 1200, "units": "verif_C03_core2", "params": "verif_C03_core.*:b0=0..14,opt=0..4"},
        "thorough": {"timeout": 3000, "params": "verif_C03_core.*:b0=0..14,opt=0..4"},
    },
    "C05": {
        "pkgs": [MOD + "/layers"],
        "static": [("layers", "c05.go")],
        "generate": gen_c05,
        "bounds": "parser vs NewPacket: Ethernet/Dot1Q/IPv4/IPv6/TCP/UDP/Payload layers in a map, sparse or array container, first layer IPv4 or IPv6 (Ethernet in thorough), input of every length up to 32 (quick, step 4) symbolic bytes; stale state: each of the 10 core DecodingLayer types decodes symbolic packet a (up to header+8 bytes for the core types, 0..20/28 otherwise) then symbolic packet b into the same object, compared with decoding b into a fresh object; focused variant for the 10 core types: a longer than the fixed header (options/extension present), b of exactly the fixed header length or one byte more",
        "outside": "custom containers, longer inputs, sequences of more than two packets",
        "quick": {"timeout": 1200, "maxpaths": 500, "partial_ok_all": True, "unsupported_ok": True, "params": "verif_C05_parser_ip4:n=20..28/4;verif_C05_parser_ip6:n=40..44/4;verif_C05_parser_eth:n=14..14", "units": "verif_C05_(stale_.*|stale2_.*|parser_ip4|parser_ip6)"},
        "thorough": {"timeout": 3000, "maxpaths": 30000, "partial_ok_all": True, "unsupported_ok": True, "params": "verif_C05_parser_ip4:n=20..40/2;verif_C05_parser_ip6:n=40..56/2;verif_C05_parser_eth:n=34..46/4"},
    },
    "C06": {
        "pkgs": [MOD + "/layers"],
        "generate": gen_c06,
        "must_reach_all": ["decoded"],
        "bounds": "every claimed type with both DecodeFromBytes and SerializeTo: layer obtained by decoding n symbolic bytes (n symbolic; quick: 0..14, or min..min+4 for the 21 types whose fixed header is longer than that (props.C06_MIN, e.g. IPv4 20..24, IPv6 40..44, DHCPv4 240..244), 0..8 for the IPv6 hop-by-hop/destination headers; thorough: 0..24, or 0..min+8), written over its payload with FixLengths (and ComputeChecksums in thorough; checksum values themselves are C08's subject), decoded again, then written once more; compared: all exported fields except length/checksum fields that SerializeTo is documented to rewrite (lists element-wise in order), payload, error, truncation flag; every unit must reach a successful decode (label decoded) or the run is inconclusive",
        "outside": "layers built from in-range field values rather than by decoding; stacks through SerializeLayers; payloads > 64 KiB; layer types Dot11, RadioTap, DNS (oracle question open or exploration too large: not claimed, see props.C06_NOT_CLAIMED)",
        "quick": {"timeout": 500, "qtimeout": 20000, "fbtimeout": 60000, "maxpaths": 200, "partial_ok_all": True, "unsupported_ok": True},
        "thorough": {"timeout": 5000, "maxpaths": 3000, "partial_ok_all": True, "unsupported_ok": True},
    },
    "C07": {
        "pkgs": [MOD + "/layers"],
        "generate": gen_c07,
        "must_reach_all": ["decoded"],
        "bounds": "every claimed type with both DecodeFromBytes and SerializeTo: layer decoded from n symbolic bytes (same length ranges as C06), FixLengths on/off (ComputeChecksums on/off as well in thorough); serialized into a fresh buffer, a buffer that held 64 symbolic garbage bytes and was cleared, and a pre-sized buffer (hints 0..2); outputs compared bytewise; ARP: the two address-size octets are enumerated 0..3 instead of symbolic; DHCPv6: the length of the first option is enumerated 0..7; every unit must reach a successful decode",
        "outside": "layer values built through public fields without decoding; layer type DNS (does not decode within the budgets) is not claimed",
        "quick": {"timeout": 500, "qtimeout": 20000, "fbtimeout": 60000, "maxpaths": 200, "partial_ok_all": True, "unsupported_ok": True},
        "thorough": {"timeout": 5000, "maxpaths": 3000, "partial_ok_all": True, "unsupported_ok": True},
    },
    "C08": {
        "pkgs": [MOD, MOD + "/layers"],
        "static": [("", "c08.go"), ("layers", "c08b.go")],
        "units": "verif_C08.*",
        "must_reach_all": [],
        "bounds": "FoldChecksum: all 2^32 accumulator values; ComputeChecksum: all byte strings of length 0..24 and all 2^32 initial sums; emission/verification for UDP and TCP over IPv4 and IPv6, ICMPv4 and the IPv4 header: ports, ids, sequence numbers and payload (0..5 bytes, odd and even) symbolic, addresses concrete in quick and symbolic in thorough (odd and even), one flipped bit at a symbolic position in the payload or the checksum field",
        "outside": "data longer than the bound; ICMPv6 and GRE emission (covered only by the C06/C07 round trips); flips inside length or offset fields",
        "quick": {"qtimeout": 20000, "fbtimeout": 120000, "timeout": 1500, "units": "verif_C08_(fold|sum|emit_udp4|emit_ip4|flip_udp4)", "maxpaths": 60, "partial_ok_all": True, "params": "verif_C08_(emit|flip).*:sym=0..0"},
        "thorough": {"qtimeout": 20000, "fbtimeout": 300000, "timeout": 7000, "maxpaths": 400, "partial_ok_all": True, "params": "verif_C08_(emit|flip).*:sym=1..1"},
    },
    "C14": {
        "pkgs": [MOD + "/pcapgo"],
        "static": [("pcapgo", "c14.go")],
        "violation_filter": no_alloc,
        "bounds": "pcapng: section/interface strings of every length 0..3 (symbolic contents), symbolic link type and snap length, 1..2 packets with 0..3 symbolic data bytes, symbolic Length excess, optional comment/queue/drop-count options, concrete timestamps (one unit with a symbolic timestamp relies on the bv-as-int back end); every truncation offset after the interface block; pcap (micro and nano): 1..2 packets, data 0..3 symbolic bytes, Length = caplen + symbolic 16-bit excess, seconds any 32-bit value, nanoseconds 0..999999999, symbolic snap length >= 3 and link type; read back copying or zero-copy; crash points: every truncation offset of the produced file (enumerated)",
        "outside": "libpcap (cgo) reading the same file is not encodable and not claimed; gzip; more than one interface; hash/verdict/flags options; interface statistics and name-resolution blocks",
        "quick": {"timeout": 1200, "units": "verif_C14_(pcap_micro|pcap_nano_cut|ng|ng_cut|ng_popts)"},
        "thorough": {"timeout": 3000},
    },
    "C15": {
        "pkgs": [MOD + "/pcapgo"],
        "static": [("pcapgo", "c15.go")],
        "bounds": "every stream length 0..L enumerated (one instance per length), contents fully symbolic; pcap L=56 quick/72 thorough, snoop L=48/64, pcapng L=48/96; up to 3 (pcap) / 2 (snoop, pcapng) read calls, copying or zero-copy chosen per call; chunking: first two Read calls return 1, 3, 7 or all bytes (all 16 combinations); fault: I/O error injected at a symbolic byte position; declared pcap snap length assumed <= 65535; allocations whose symbolic size can exceed 65536 elements are reported",
        "outside": "gzip-wrapped input (assumed away right after the magic test); longer streams",
        "quick": {"timeout": 1800, "maxpaths": 800, "partial_ok_all": True, "unsupported_ok": True, "params": "verif_C15_pcap:len=0..48/2;verif_C15_pcap_(chunks|fault):len=0..48/8;verif_C15_snoop:len=0..44/4;verif_C15_snoop_fault:len=24..44/10;verif_C15_ng:len=0..30/3;verif_C15_ng_idb:len=0..28/4;verif_C15_ng_epb:len=28..44/8", "units": "verif_C15_(pcap|pcap_chunks|pcap_fault|snoop|snoop_fault|ng|ng_idb|ng_epb)"},
        "thorough": {"timeout": 3000, "params": "verif_C15_pcap.*:len=0..72;verif_C15_snoop.*:len=0..64;verif_C15_ng:len=0..40;verif_C15_ng_(chunks|fault|mixed):len=0..36;verif_C15_ng_idb:len=0..44;verif_C15_ng_epb:len=28..64"},
    },
    "C16": {
        "pkgs": [MOD],
        "static": [("", "c16.go")],
        "bounds": "data-source histories of 3 events from {packet (0..2 symbolic bytes, symbolic caplen/len relation), timeout error, transient error, EOF}; pull interface with copying and zero-copy sources; channel interface with a consumer goroutine and cancellation after any number of received packets (or never), all interleavings at channel/select granularity with <= 1 (quick) / 2 (thorough) preemptions; zero-copy + NoCopy guard",
        "outside": "the 1000-slot buffer filling up; wall-clock sleeps (time.Sleep is a scheduler yield)",
        "quick": {"timeout": 900, "params": "verif_C16_(chan|cancel_idle):preempt=0..1", "steps": 300000},
        "thorough": {"timeout": 3000, "params": "verif_C16_(chan|cancel_idle):preempt=0..2", "steps": 300000},
    },
    "C17": {
        "pkgs": [MOD, MOD + "/layers"],
        "static": [("", "c17.go"), ("layers", "c17b.go")],
        "units": "verif_C17.*",
        "bounds": "address lengths 0..16 symbolic (17..20 for rejection), 64-bit symbolic endpoint types, three symbolic endpoints for the order axioms; hash symmetry additionally with lengths <= 2 decided by bit-blasting",
        "outside": "layers other than Ethernet, IPv4, IPv6, TCP, UDP, SCTP for the layer-to-flow correspondence (decoded from fully symbolic headers)",
        "quick": {"timeout": 300},
        "thorough": {"timeout": 900},
    },
    "C09": {
        "pkgs": [MOD + "/reassembly"],
        "static": [("reassembly", "c09.go")],
        "bounds": "Sequence lemma over all 2^64 pairs (distance < 2^30); histories: SYN + k <= 2 (quick) / 3 (thorough) segments with symbolic offset 0..7 and length 0..3 into an 11-byte symbolic stream, fully symbolic 32-bit ISN, stream optionally keeping the last byte (KeepFrom), optional FlushWithOptions after each segment and final FlushAll (the quick unit with both keep and flush: offsets 0..5, lengths 1..3); with all segments arrived before the first flush: a skip announces only bytes that never arrived and flush-all delivers every arrived byte",
        "outside": "longer histories, multi-page segments, both directions interleaved, page limits",
        "quick": {"timeout": 900, "units": "verif_C09_(seq_lemma|hist2|hist2_keep|hist2_flush_keep)"},
        "thorough": {"timeout": 3000},
    },
    "C10": {
        "pkgs": [MOD + "/tcpassembly"],
        "static": [("tcpassembly", "c10.go")],
        "bounds": "Sequence lemma over all 2^64 pairs (distance < 2^30); histories: SYN + k <= 2 (quick) / 3 (thorough) segments with symbolic offset 0..7 and length 0..3 into an 11-byte symbolic stream, fully symbolic 32-bit ISN, optional FIN, optional FlushOlderThan after each segment and final FlushAll, optional per-connection page limit 1",
        "outside": "longer histories, multi-page segments, both directions interleaved",
        "quick": {"timeout": 1200, "units": "verif_C10_(seq_lemma|hist2)"},
        "thorough": {"timeout": 7000, "maxpaths": 40000, "partial_ok_all": True},
    },
    "C11": {
        "pkgs": [MOD + "/tcpassembly", MOD + "/reassembly"],
        "static": [("tcpassembly", "c10.go"), ("tcpassembly", "c12.go"), ("reassembly", "c09.go"), ("reassembly", "c12r.go"), ("reassembly", "c11r.go")],
        "bounds": "reassembly: histories of <= 2 (quick) / 3 (thorough) segments in either direction of one connection with symbolic SYN/FIN/RST, optional FlushCloseOlderThan with symbolic cut-off, final FlushAll; tcpassembly: histories of <= 2 (quick) / 3 (thorough) segments over two connections with symbolic SYN/FIN/RST flags, symbolic sequence offset 0..5 and payload length 0..2, optional age-based flush with symbolic cut-off after each, per-connection page limit none/1/2, final FlushAll; audited at every step: completion count per stream, late data, pages in use, live connections, page limit",
        "outside": "long histories; many connections; multi-page packets; page limits in package reassembly",
        "quick": {"timeout": 1200, "units": "verif_C11_(lifecycle|reassembly_lifecycle)", "params": "verif_C11_.*lifecycle:k=1..2", "maxpaths": 6000, "partial_ok_all": True},
        "thorough": {"timeout": 6000, "units": "verif_C11_(lifecycle|reassembly_lifecycle)", "params": "verif_C11_.*lifecycle:k=1..3", "maxpaths": 60000, "partial_ok_all": True},
    },
    "C12": {
        "pkgs": [MOD + "/tcpassembly", MOD + "/reassembly"],
        "static": [("tcpassembly", "c10.go"), ("tcpassembly", "c12.go"), ("reassembly", "c09.go"), ("reassembly", "c12r.go")],
        "bounds": "reassembly: SYN and SYN-ACK of one connection (opposite directions) assembled by two assemblers at once; tcpassembly: two assembler goroutines sharing one pool, one packet each (SYN and data of the same direction, or of an unrelated connection), factory and stream callbacks yield; all interleavings at lock/callback granularity with <= 2 (quick) / 3 (thorough) preemptions; then FlushAll",
        "outside": "the Go scheduler and memory model below lock granularity; more goroutines and packets",
        "quick": {"timeout": 900, "units": "verif_C12_(two_assemblers|reassembly_directions)", "params": "verif_C12.*:preempt=0..2"},
        "thorough": {"timeout": 3000, "units": "verif_C12_(two_assemblers|reassembly_directions)", "params": "verif_C12.*:preempt=0..3"},
    },
    "C13": {
        "pkgs": [MOD + "/ip4defrag", MOD + "/ip6defrag"],
        "static": [("ip4defrag", "c13.go"), ("ip6defrag", "c13v6.go")],
        "bounds": "IPv4: datagrams of 3 fragments cut at 8-byte units (fragment sizes 8/16 bytes, last fragment 1..8 bytes symbolic), all 6 arrival orders, IHL 5 and 6, one duplicate and one foreign fragment at any position, payload bytes symbolic; hostile: 2-3 fragments with independent symbolic offset (0..3 units), length (0..24), MF flag and contents",
        "outside": "payloads up to 65515 bytes, the 8192-fragment cap, more than 3 fragments",
        "quick": {"timeout": 900, "unwind": 400, "units": "verif_C13_(benign|benign_extras|passthrough|hostile2|discard|v6)"},
        "thorough": {"timeout": 3000, "unwind": 400},
    },
    "C18": {
        "pkgs": [MOD],
        "static": [("", "c18.go")],
        "bounds": "all sequences of <= 3 (quick) / 4 (thorough) operations from {PrependBytes(n), AppendBytes(n), Clear}, n symbolic in 0..3 (enumerated 0..3 in the 4-operation unit), written bytes symbolic, both constructors with hints 0..2 symbolic; window harness: one op on a buffer holding 0..3 symbolic bytes, symbolic write position; SerializeLayers with 3 harness layers prepending 0..2 bytes each and a failure at any position",
        "outside": "longer histories and larger sizes (no sampling is done beyond the bound); the inductive single-step harness over arbitrary buffer states needs symbolic-size objects, which the engine does not have",
        "quick": {"units": "verif_C18_(seq2|seq3|window|stack)", "timeout": 600},
        "thorough": {"units": "verif_C18_(seq2|seq3|seq4|window|stack)", "timeout": 3000},
    },
    "C20": {
        "pkgs": [MOD + "/tcpassembly/tcpreader"],
        "static": [("tcpassembly/tcpreader", "c20.go")],
        "bounds": "assembler goroutine delivering 1..2 (quick) / 1..3 (thorough) batches of 1..2 reassemblies (0..2 symbolic bytes each, with or without skip) then completing; consumer goroutine doing up to 3 (5) steps each Read(1 or 2 bytes) or Close, then reading to EOF; LossErrors on/off; all interleavings at channel-operation granularity (bounded-exhaustive scheduler choices)",
        "outside": "the Go scheduler and memory model below channel-operation granularity; longer histories",
        "quick": {"timeout": 600, "units": "verif_C20_(read|close)", "params": "verif_C20.*:preempt=0..1"},
        "thorough": {"timeout": 3000, "params": "verif_C20.*:preempt=0..2"},
    },
    "C19": {
        "pkgs": [MOD + "/layers"],
        "generate": gen_c19,
        "units": "verif_C19.*",
        "bounds": "every type with DecodeFromBytes; input = n symbolic bytes, n symbolic in 0..24 (quick) / 0..32 (thorough) unless listed in per-unit overrides; unwinding bound 80 symbolic iterations per branch site per frame",
        "outside": "inputs longer than the bound; units listed in units_not_encoded",
        "quick": {"timeout": 1200, "unsupported_ok": True, "maxpaths": 1500, "partial_ok_all": True, "qtimeout": 5000, "fbtimeout": 20000},
        "thorough": {"timeout": 3000, "unsupported_ok": True, "maxpaths": 60000, "partial_ok_all": True},
    },
}


# The thorough tier is best effort within a bounded wall-clock time: a unit
# that reaches its time budget, or has branch conditions no back end decides,
# is reported in the evidence as partially explored (check.py) instead of
# making the whole run inconclusive.
for _p in PROPS.values():
    _p["thorough"]["timeout"] = min(_p["thorough"].get("timeout", 1500), 1500)
