package layers

import (
	"bytes"
	"net"

	"github.com/gopacket/gopacket"
)

var _ = bytes.Equal

type c06DF struct{ t bool }

func (d *c06DF) SetTruncated() { d.t = true }

var c06Net4 = &IPv4{Version: 4, IHL: 5, SrcIP: net.IP{10, 1, 2, 3}, DstIP: net.IP{10, 4, 5, 6}, Protocol: IPProtocolTCP}

// Ethernet.SerializeTo pads frames to the 60-byte minimum, as the protocol
// requires; a decoder cannot tell padding from payload
func c06EthernetPayload(got, want []byte) {
	verifAssert(len(got) >= len(want), "payload not shortened by the round trip")
	if len(got) >= len(want) {
		verifAssert(bytes.Equal(got[:len(want)], want), "original payload is a prefix after the round trip")
		for _, b := range got[len(want):] {
			verifAssert(b == 0, "the rest is zero padding")
		}
		verifAssert(len(got) == len(want) || len(got) <= 46, "padding only up to the minimum frame size")
	}
}

// IPv6 hop-by-hop / destination options: FixLengths re-computes the padding
// options (Pad1/PadN), so the lists are compared without padding options
func c06SameTLV(at []uint8, ad [][]byte, bt []uint8, bd [][]byte) {
	verifAssert(len(at) == len(bt), "same number of non-padding options after the round trip")
	for i := range at {
		if i < len(bt) {
			verifAssert(at[i] == bt[i], "same option types in the same order")
			verifAssert(bytes.Equal(ad[i], bd[i]), "same option data")
		}
	}
}

// dirty buffer: previously held other (symbolic) data and was cleared
func c06DirtyBuffer() gopacket.SerializeBuffer {
	b := gopacket.NewSerializeBuffer()
	g1, _ := b.PrependBytes(40)
	junk := verifBytes("junk", 40)
	copy(g1, junk)
	g2, _ := b.AppendBytes(24)
	junk2 := verifBytes("junk2", 24)
	copy(g2, junk2)
	b.Clear()
	return b
}

func verif_C06_rt_AGUEVar0() {
	in := verifBytes("in", 24)
	n := verifInt("n", 0, 24)
	var l AGUEVar0
	df := &c06DF{}
	if err := l.DecodeFromBytes(in[:n], df); err != nil {
		verifReached("decode-err")
		return
	}
	if df.t {
		verifReached("decode-truncated")
		return
	}
	verifReached("decoded")
	buf := gopacket.NewSerializeBuffer()
	pay := l.LayerPayload()
	wpay := pay
	pb, _ := buf.AppendBytes(len(wpay))
	copy(pb, wpay)
	if err := l.SerializeTo(buf, gopacket.SerializeOptions{FixLengths: true, ComputeChecksums: true}); err != nil {
		verifReached("serialize-refused")
		return
	}
	out := buf.Bytes()
	var l2 AGUEVar0
	df2 := &c06DF{}
	err := l2.DecodeFromBytes(out, df2)
	verifAssert(err == nil, "written bytes decode without error")
	verifAssert(!df2.t, "written bytes decode without truncation flag")
	verifAssert(bytes.Equal(l2.LayerPayload(), pay), "same payload after the round trip")
	// fields that SerializeTo is documented to overwrite when fixing lengths
	// and computing checksums are compared after a second round instead
	verifAssert(verifDeepEqualExcept(&l, &l2, "(?i)checksum|length|len$|crc|fcs"), "same field values after serialize then decode")
	buf2 := gopacket.NewSerializeBuffer()
	pay2 := l2.LayerPayload()
	if len(wpay) == 0 {
		pay2 = nil
	}
	pb2, _ := buf2.AppendBytes(len(pay2))
	copy(pb2, pay2)
	if err := l2.SerializeTo(buf2, gopacket.SerializeOptions{FixLengths: true, ComputeChecksums: true}); err == nil {
		verifAssert(bytes.Equal(buf2.Bytes(), out), "writing the decoded layer once more reproduces the same bytes")
	}
	verifReached("roundtrip")
}

func verif_C06_rt_AGUEVar1() {
	in := verifBytes("in", 24)
	n := verifInt("n", 0, 24)
	var l AGUEVar1
	df := &c06DF{}
	if err := l.DecodeFromBytes(in[:n], df); err != nil {
		verifReached("decode-err")
		return
	}
	if df.t {
		verifReached("decode-truncated")
		return
	}
	verifReached("decoded")
	buf := gopacket.NewSerializeBuffer()
	pay := l.LayerPayload()
	wpay := pay
	pb, _ := buf.AppendBytes(len(wpay))
	copy(pb, wpay)
	if err := l.SerializeTo(buf, gopacket.SerializeOptions{FixLengths: true, ComputeChecksums: true}); err != nil {
		verifReached("serialize-refused")
		return
	}
	out := buf.Bytes()
	var l2 AGUEVar1
	df2 := &c06DF{}
	err := l2.DecodeFromBytes(out, df2)
	verifAssert(err == nil, "written bytes decode without error")
	verifAssert(!df2.t, "written bytes decode without truncation flag")
	verifAssert(bytes.Equal(l2.LayerPayload(), pay), "same payload after the round trip")
	// fields that SerializeTo is documented to overwrite when fixing lengths
	// and computing checksums are compared after a second round instead
	verifAssert(verifDeepEqualExcept(&l, &l2, "(?i)checksum|length|len$|crc|fcs"), "same field values after serialize then decode")
	buf2 := gopacket.NewSerializeBuffer()
	pay2 := l2.LayerPayload()
	if len(wpay) == 0 {
		pay2 = nil
	}
	pb2, _ := buf2.AppendBytes(len(pay2))
	copy(pb2, pay2)
	if err := l2.SerializeTo(buf2, gopacket.SerializeOptions{FixLengths: true, ComputeChecksums: true}); err == nil {
		verifAssert(bytes.Equal(buf2.Bytes(), out), "writing the decoded layer once more reproduces the same bytes")
	}
	verifReached("roundtrip")
}

func verif_C06_rt_APSP() {
	in := verifBytes("in", 48)
	n := verifInt("n", 0, 48)
	var l APSP
	df := &c06DF{}
	if err := l.DecodeFromBytes(in[:n], df); err != nil {
		verifReached("decode-err")
		return
	}
	if df.t {
		verifReached("decode-truncated")
		return
	}
	verifReached("decoded")
	buf := gopacket.NewSerializeBuffer()
	pay := l.LayerPayload()
	wpay := pay
	pb, _ := buf.AppendBytes(len(wpay))
	copy(pb, wpay)
	if err := l.SerializeTo(buf, gopacket.SerializeOptions{FixLengths: true, ComputeChecksums: true}); err != nil {
		verifReached("serialize-refused")
		return
	}
	out := buf.Bytes()
	var l2 APSP
	df2 := &c06DF{}
	err := l2.DecodeFromBytes(out, df2)
	verifAssert(err == nil, "written bytes decode without error")
	verifAssert(!df2.t, "written bytes decode without truncation flag")
	verifAssert(bytes.Equal(l2.LayerPayload(), pay), "same payload after the round trip")
	// fields that SerializeTo is documented to overwrite when fixing lengths
	// and computing checksums are compared after a second round instead
	verifAssert(verifDeepEqualExcept(&l, &l2, "(?i)checksum|length|len$|crc|fcs"), "same field values after serialize then decode")
	buf2 := gopacket.NewSerializeBuffer()
	pay2 := l2.LayerPayload()
	if len(wpay) == 0 {
		pay2 = nil
	}
	pb2, _ := buf2.AppendBytes(len(pay2))
	copy(pb2, pay2)
	if err := l2.SerializeTo(buf2, gopacket.SerializeOptions{FixLengths: true, ComputeChecksums: true}); err == nil {
		verifAssert(bytes.Equal(buf2.Bytes(), out), "writing the decoded layer once more reproduces the same bytes")
	}
	verifReached("roundtrip")
}

func verif_C06_rt_ARP() {
	in := verifBytes("in", 24)
	n := verifInt("n", 0, 24)
	var l ARP
	df := &c06DF{}
	if err := l.DecodeFromBytes(in[:n], df); err != nil {
		verifReached("decode-err")
		return
	}
	if df.t {
		verifReached("decode-truncated")
		return
	}
	verifReached("decoded")
	buf := gopacket.NewSerializeBuffer()
	pay := l.LayerPayload()
	wpay := pay
	pb, _ := buf.AppendBytes(len(wpay))
	copy(pb, wpay)
	if err := l.SerializeTo(buf, gopacket.SerializeOptions{FixLengths: true, ComputeChecksums: true}); err != nil {
		verifReached("serialize-refused")
		return
	}
	out := buf.Bytes()
	var l2 ARP
	df2 := &c06DF{}
	err := l2.DecodeFromBytes(out, df2)
	verifAssert(err == nil, "written bytes decode without error")
	verifAssert(!df2.t, "written bytes decode without truncation flag")
	verifAssert(bytes.Equal(l2.LayerPayload(), pay), "same payload after the round trip")
	// fields that SerializeTo is documented to overwrite when fixing lengths
	// and computing checksums are compared after a second round instead
	verifAssert(verifDeepEqualExcept(&l, &l2, "(?i)checksum|length|len$|crc|fcs"), "same field values after serialize then decode")
	buf2 := gopacket.NewSerializeBuffer()
	pay2 := l2.LayerPayload()
	if len(wpay) == 0 {
		pay2 = nil
	}
	pb2, _ := buf2.AppendBytes(len(pay2))
	copy(pb2, pay2)
	if err := l2.SerializeTo(buf2, gopacket.SerializeOptions{FixLengths: true, ComputeChecksums: true}); err == nil {
		verifAssert(bytes.Equal(buf2.Bytes(), out), "writing the decoded layer once more reproduces the same bytes")
	}
	verifReached("roundtrip")
}

func verif_C06_rt_ASF() {
	in := verifBytes("in", 24)
	n := verifInt("n", 0, 24)
	var l ASF
	df := &c06DF{}
	if err := l.DecodeFromBytes(in[:n], df); err != nil {
		verifReached("decode-err")
		return
	}
	if df.t {
		verifReached("decode-truncated")
		return
	}
	verifReached("decoded")
	buf := gopacket.NewSerializeBuffer()
	pay := l.LayerPayload()
	wpay := pay
	pb, _ := buf.AppendBytes(len(wpay))
	copy(pb, wpay)
	if err := l.SerializeTo(buf, gopacket.SerializeOptions{FixLengths: true, ComputeChecksums: true}); err != nil {
		verifReached("serialize-refused")
		return
	}
	out := buf.Bytes()
	var l2 ASF
	df2 := &c06DF{}
	err := l2.DecodeFromBytes(out, df2)
	verifAssert(err == nil, "written bytes decode without error")
	verifAssert(!df2.t, "written bytes decode without truncation flag")
	verifAssert(bytes.Equal(l2.LayerPayload(), pay), "same payload after the round trip")
	// fields that SerializeTo is documented to overwrite when fixing lengths
	// and computing checksums are compared after a second round instead
	verifAssert(verifDeepEqualExcept(&l, &l2, "(?i)checksum|length|len$|crc|fcs"), "same field values after serialize then decode")
	buf2 := gopacket.NewSerializeBuffer()
	pay2 := l2.LayerPayload()
	if len(wpay) == 0 {
		pay2 = nil
	}
	pb2, _ := buf2.AppendBytes(len(pay2))
	copy(pb2, pay2)
	if err := l2.SerializeTo(buf2, gopacket.SerializeOptions{FixLengths: true, ComputeChecksums: true}); err == nil {
		verifAssert(bytes.Equal(buf2.Bytes(), out), "writing the decoded layer once more reproduces the same bytes")
	}
	verifReached("roundtrip")
}

func verif_C06_rt_ASFPresencePong() {
	in := verifBytes("in", 24)
	n := verifInt("n", 0, 24)
	var l ASFPresencePong
	df := &c06DF{}
	if err := l.DecodeFromBytes(in[:n], df); err != nil {
		verifReached("decode-err")
		return
	}
	if df.t {
		verifReached("decode-truncated")
		return
	}
	verifReached("decoded")
	buf := gopacket.NewSerializeBuffer()
	pay := l.LayerPayload()
	wpay := pay
	pb, _ := buf.AppendBytes(len(wpay))
	copy(pb, wpay)
	if err := l.SerializeTo(buf, gopacket.SerializeOptions{FixLengths: true, ComputeChecksums: true}); err != nil {
		verifReached("serialize-refused")
		return
	}
	out := buf.Bytes()
	var l2 ASFPresencePong
	df2 := &c06DF{}
	err := l2.DecodeFromBytes(out, df2)
	verifAssert(err == nil, "written bytes decode without error")
	verifAssert(!df2.t, "written bytes decode without truncation flag")
	verifAssert(bytes.Equal(l2.LayerPayload(), pay), "same payload after the round trip")
	// fields that SerializeTo is documented to overwrite when fixing lengths
	// and computing checksums are compared after a second round instead
	verifAssert(verifDeepEqualExcept(&l, &l2, "(?i)checksum|length|len$|crc|fcs"), "same field values after serialize then decode")
	buf2 := gopacket.NewSerializeBuffer()
	pay2 := l2.LayerPayload()
	if len(wpay) == 0 {
		pay2 = nil
	}
	pb2, _ := buf2.AppendBytes(len(pay2))
	copy(pb2, pay2)
	if err := l2.SerializeTo(buf2, gopacket.SerializeOptions{FixLengths: true, ComputeChecksums: true}); err == nil {
		verifAssert(bytes.Equal(buf2.Bytes(), out), "writing the decoded layer once more reproduces the same bytes")
	}
	verifReached("roundtrip")
}

func verif_C06_rt_BFD() {
	in := verifBytes("in", 32)
	n := verifInt("n", 0, 32)
	var l BFD
	df := &c06DF{}
	if err := l.DecodeFromBytes(in[:n], df); err != nil {
		verifReached("decode-err")
		return
	}
	if df.t {
		verifReached("decode-truncated")
		return
	}
	verifReached("decoded")
	buf := gopacket.NewSerializeBuffer()
	pay := l.LayerPayload()
	wpay := pay
	pb, _ := buf.AppendBytes(len(wpay))
	copy(pb, wpay)
	if err := l.SerializeTo(buf, gopacket.SerializeOptions{FixLengths: true, ComputeChecksums: true}); err != nil {
		verifReached("serialize-refused")
		return
	}
	out := buf.Bytes()
	var l2 BFD
	df2 := &c06DF{}
	err := l2.DecodeFromBytes(out, df2)
	verifAssert(err == nil, "written bytes decode without error")
	verifAssert(!df2.t, "written bytes decode without truncation flag")
	verifAssert(bytes.Equal(l2.LayerPayload(), pay), "same payload after the round trip")
	// fields that SerializeTo is documented to overwrite when fixing lengths
	// and computing checksums are compared after a second round instead
	verifAssert(verifDeepEqualExcept(&l, &l2, "(?i)checksum|length|len$|crc|fcs"), "same field values after serialize then decode")
	buf2 := gopacket.NewSerializeBuffer()
	pay2 := l2.LayerPayload()
	if len(wpay) == 0 {
		pay2 = nil
	}
	pb2, _ := buf2.AppendBytes(len(pay2))
	copy(pb2, pay2)
	if err := l2.SerializeTo(buf2, gopacket.SerializeOptions{FixLengths: true, ComputeChecksums: true}); err == nil {
		verifAssert(bytes.Equal(buf2.Bytes(), out), "writing the decoded layer once more reproduces the same bytes")
	}
	verifReached("roundtrip")
}

func verif_C06_rt_DHCPv4() {
	in := verifBytes("in", 248)
	n := verifInt("n", 0, 248)
	var l DHCPv4
	df := &c06DF{}
	if err := l.DecodeFromBytes(in[:n], df); err != nil {
		verifReached("decode-err")
		return
	}
	if df.t {
		verifReached("decode-truncated")
		return
	}
	verifReached("decoded")
	buf := gopacket.NewSerializeBuffer()
	pay := l.LayerPayload()
	wpay := pay
	pb, _ := buf.AppendBytes(len(wpay))
	copy(pb, wpay)
	if err := l.SerializeTo(buf, gopacket.SerializeOptions{FixLengths: true, ComputeChecksums: true}); err != nil {
		verifReached("serialize-refused")
		return
	}
	out := buf.Bytes()
	var l2 DHCPv4
	df2 := &c06DF{}
	err := l2.DecodeFromBytes(out, df2)
	verifAssert(err == nil, "written bytes decode without error")
	verifAssert(!df2.t, "written bytes decode without truncation flag")
	verifAssert(bytes.Equal(l2.LayerPayload(), pay), "same payload after the round trip")
	// fields that SerializeTo is documented to overwrite when fixing lengths
	// and computing checksums are compared after a second round instead
	verifAssert(verifDeepEqualExcept(&l, &l2, "(?i)checksum|length|len$|crc|fcs"), "same field values after serialize then decode")
	buf2 := gopacket.NewSerializeBuffer()
	pay2 := l2.LayerPayload()
	if len(wpay) == 0 {
		pay2 = nil
	}
	pb2, _ := buf2.AppendBytes(len(pay2))
	copy(pb2, pay2)
	if err := l2.SerializeTo(buf2, gopacket.SerializeOptions{FixLengths: true, ComputeChecksums: true}); err == nil {
		verifAssert(bytes.Equal(buf2.Bytes(), out), "writing the decoded layer once more reproduces the same bytes")
	}
	verifReached("roundtrip")
}

func verif_C06_rt_DHCPv6() {
	in := verifBytes("in", 24)
	n := verifInt("n", 0, 24)
	var l DHCPv6
	df := &c06DF{}
	if err := l.DecodeFromBytes(in[:n], df); err != nil {
		verifReached("decode-err")
		return
	}
	if df.t {
		verifReached("decode-truncated")
		return
	}
	verifReached("decoded")
	buf := gopacket.NewSerializeBuffer()
	pay := l.LayerPayload()
	wpay := pay
	pb, _ := buf.AppendBytes(len(wpay))
	copy(pb, wpay)
	if err := l.SerializeTo(buf, gopacket.SerializeOptions{FixLengths: true, ComputeChecksums: true}); err != nil {
		verifReached("serialize-refused")
		return
	}
	out := buf.Bytes()
	var l2 DHCPv6
	df2 := &c06DF{}
	err := l2.DecodeFromBytes(out, df2)
	verifAssert(err == nil, "written bytes decode without error")
	verifAssert(!df2.t, "written bytes decode without truncation flag")
	verifAssert(bytes.Equal(l2.LayerPayload(), pay), "same payload after the round trip")
	// fields that SerializeTo is documented to overwrite when fixing lengths
	// and computing checksums are compared after a second round instead
	verifAssert(verifDeepEqualExcept(&l, &l2, "(?i)checksum|length|len$|crc|fcs"), "same field values after serialize then decode")
	buf2 := gopacket.NewSerializeBuffer()
	pay2 := l2.LayerPayload()
	if len(wpay) == 0 {
		pay2 = nil
	}
	pb2, _ := buf2.AppendBytes(len(pay2))
	copy(pb2, pay2)
	if err := l2.SerializeTo(buf2, gopacket.SerializeOptions{FixLengths: true, ComputeChecksums: true}); err == nil {
		verifAssert(bytes.Equal(buf2.Bytes(), out), "writing the decoded layer once more reproduces the same bytes")
	}
	verifReached("roundtrip")
}

func verif_C06_rt_Diameter() {
	in := verifBytes("in", 28)
	n := verifInt("n", 0, 28)
	var l Diameter
	df := &c06DF{}
	if err := l.DecodeFromBytes(in[:n], df); err != nil {
		verifReached("decode-err")
		return
	}
	if df.t {
		verifReached("decode-truncated")
		return
	}
	verifReached("decoded")
	buf := gopacket.NewSerializeBuffer()
	pay := l.LayerPayload()
	wpay := pay
	pb, _ := buf.AppendBytes(len(wpay))
	copy(pb, wpay)
	if err := l.SerializeTo(buf, gopacket.SerializeOptions{FixLengths: true, ComputeChecksums: true}); err != nil {
		verifReached("serialize-refused")
		return
	}
	out := buf.Bytes()
	var l2 Diameter
	df2 := &c06DF{}
	err := l2.DecodeFromBytes(out, df2)
	verifAssert(err == nil, "written bytes decode without error")
	verifAssert(!df2.t, "written bytes decode without truncation flag")
	verifAssert(bytes.Equal(l2.LayerPayload(), pay), "same payload after the round trip")
	// fields that SerializeTo is documented to overwrite when fixing lengths
	// and computing checksums are compared after a second round instead
	verifAssert(verifDeepEqualExcept(&l, &l2, "(?i)checksum|length|len$|crc|fcs"), "same field values after serialize then decode")
	buf2 := gopacket.NewSerializeBuffer()
	pay2 := l2.LayerPayload()
	if len(wpay) == 0 {
		pay2 = nil
	}
	pb2, _ := buf2.AppendBytes(len(pay2))
	copy(pb2, pay2)
	if err := l2.SerializeTo(buf2, gopacket.SerializeOptions{FixLengths: true, ComputeChecksums: true}); err == nil {
		verifAssert(bytes.Equal(buf2.Bytes(), out), "writing the decoded layer once more reproduces the same bytes")
	}
	verifReached("roundtrip")
}

func verif_C06_rt_Dot11InformationElement() {
	in := verifBytes("in", 24)
	n := verifInt("n", 0, 24)
	var l Dot11InformationElement
	df := &c06DF{}
	if err := l.DecodeFromBytes(in[:n], df); err != nil {
		verifReached("decode-err")
		return
	}
	if df.t {
		verifReached("decode-truncated")
		return
	}
	verifReached("decoded")
	buf := gopacket.NewSerializeBuffer()
	pay := l.LayerPayload()
	wpay := pay
	pb, _ := buf.AppendBytes(len(wpay))
	copy(pb, wpay)
	if err := l.SerializeTo(buf, gopacket.SerializeOptions{FixLengths: true, ComputeChecksums: true}); err != nil {
		verifReached("serialize-refused")
		return
	}
	out := buf.Bytes()
	var l2 Dot11InformationElement
	df2 := &c06DF{}
	err := l2.DecodeFromBytes(out, df2)
	verifAssert(err == nil, "written bytes decode without error")
	verifAssert(!df2.t, "written bytes decode without truncation flag")
	verifAssert(bytes.Equal(l2.LayerPayload(), pay), "same payload after the round trip")
	// fields that SerializeTo is documented to overwrite when fixing lengths
	// and computing checksums are compared after a second round instead
	verifAssert(verifDeepEqualExcept(&l, &l2, "(?i)checksum|length|len$|crc|fcs"), "same field values after serialize then decode")
	buf2 := gopacket.NewSerializeBuffer()
	pay2 := l2.LayerPayload()
	if len(wpay) == 0 {
		pay2 = nil
	}
	pb2, _ := buf2.AppendBytes(len(pay2))
	copy(pb2, pay2)
	if err := l2.SerializeTo(buf2, gopacket.SerializeOptions{FixLengths: true, ComputeChecksums: true}); err == nil {
		verifAssert(bytes.Equal(buf2.Bytes(), out), "writing the decoded layer once more reproduces the same bytes")
	}
	verifReached("roundtrip")
}

func verif_C06_rt_Dot11MgmtAssociationReq() {
	in := verifBytes("in", 24)
	n := verifInt("n", 0, 24)
	var l Dot11MgmtAssociationReq
	df := &c06DF{}
	if err := l.DecodeFromBytes(in[:n], df); err != nil {
		verifReached("decode-err")
		return
	}
	if df.t {
		verifReached("decode-truncated")
		return
	}
	verifReached("decoded")
	buf := gopacket.NewSerializeBuffer()
	pay := l.LayerPayload()
	wpay := pay
	pb, _ := buf.AppendBytes(len(wpay))
	copy(pb, wpay)
	if err := l.SerializeTo(buf, gopacket.SerializeOptions{FixLengths: true, ComputeChecksums: true}); err != nil {
		verifReached("serialize-refused")
		return
	}
	out := buf.Bytes()
	var l2 Dot11MgmtAssociationReq
	df2 := &c06DF{}
	err := l2.DecodeFromBytes(out, df2)
	verifAssert(err == nil, "written bytes decode without error")
	verifAssert(!df2.t, "written bytes decode without truncation flag")
	verifAssert(bytes.Equal(l2.LayerPayload(), pay), "same payload after the round trip")
	// fields that SerializeTo is documented to overwrite when fixing lengths
	// and computing checksums are compared after a second round instead
	verifAssert(verifDeepEqualExcept(&l, &l2, "(?i)checksum|length|len$|crc|fcs"), "same field values after serialize then decode")
	buf2 := gopacket.NewSerializeBuffer()
	pay2 := l2.LayerPayload()
	if len(wpay) == 0 {
		pay2 = nil
	}
	pb2, _ := buf2.AppendBytes(len(pay2))
	copy(pb2, pay2)
	if err := l2.SerializeTo(buf2, gopacket.SerializeOptions{FixLengths: true, ComputeChecksums: true}); err == nil {
		verifAssert(bytes.Equal(buf2.Bytes(), out), "writing the decoded layer once more reproduces the same bytes")
	}
	verifReached("roundtrip")
}

func verif_C06_rt_Dot11MgmtAssociationResp() {
	in := verifBytes("in", 24)
	n := verifInt("n", 0, 24)
	var l Dot11MgmtAssociationResp
	df := &c06DF{}
	if err := l.DecodeFromBytes(in[:n], df); err != nil {
		verifReached("decode-err")
		return
	}
	if df.t {
		verifReached("decode-truncated")
		return
	}
	verifReached("decoded")
	buf := gopacket.NewSerializeBuffer()
	pay := l.LayerPayload()
	wpay := pay
	pb, _ := buf.AppendBytes(len(wpay))
	copy(pb, wpay)
	if err := l.SerializeTo(buf, gopacket.SerializeOptions{FixLengths: true, ComputeChecksums: true}); err != nil {
		verifReached("serialize-refused")
		return
	}
	out := buf.Bytes()
	var l2 Dot11MgmtAssociationResp
	df2 := &c06DF{}
	err := l2.DecodeFromBytes(out, df2)
	verifAssert(err == nil, "written bytes decode without error")
	verifAssert(!df2.t, "written bytes decode without truncation flag")
	verifAssert(bytes.Equal(l2.LayerPayload(), pay), "same payload after the round trip")
	// fields that SerializeTo is documented to overwrite when fixing lengths
	// and computing checksums are compared after a second round instead
	verifAssert(verifDeepEqualExcept(&l, &l2, "(?i)checksum|length|len$|crc|fcs"), "same field values after serialize then decode")
	buf2 := gopacket.NewSerializeBuffer()
	pay2 := l2.LayerPayload()
	if len(wpay) == 0 {
		pay2 = nil
	}
	pb2, _ := buf2.AppendBytes(len(pay2))
	copy(pb2, pay2)
	if err := l2.SerializeTo(buf2, gopacket.SerializeOptions{FixLengths: true, ComputeChecksums: true}); err == nil {
		verifAssert(bytes.Equal(buf2.Bytes(), out), "writing the decoded layer once more reproduces the same bytes")
	}
	verifReached("roundtrip")
}

func verif_C06_rt_Dot11MgmtAuthentication() {
	in := verifBytes("in", 24)
	n := verifInt("n", 0, 24)
	var l Dot11MgmtAuthentication
	df := &c06DF{}
	if err := l.DecodeFromBytes(in[:n], df); err != nil {
		verifReached("decode-err")
		return
	}
	if df.t {
		verifReached("decode-truncated")
		return
	}
	verifReached("decoded")
	buf := gopacket.NewSerializeBuffer()
	pay := l.LayerPayload()
	wpay := pay
	pb, _ := buf.AppendBytes(len(wpay))
	copy(pb, wpay)
	if err := l.SerializeTo(buf, gopacket.SerializeOptions{FixLengths: true, ComputeChecksums: true}); err != nil {
		verifReached("serialize-refused")
		return
	}
	out := buf.Bytes()
	var l2 Dot11MgmtAuthentication
	df2 := &c06DF{}
	err := l2.DecodeFromBytes(out, df2)
	verifAssert(err == nil, "written bytes decode without error")
	verifAssert(!df2.t, "written bytes decode without truncation flag")
	verifAssert(bytes.Equal(l2.LayerPayload(), pay), "same payload after the round trip")
	// fields that SerializeTo is documented to overwrite when fixing lengths
	// and computing checksums are compared after a second round instead
	verifAssert(verifDeepEqualExcept(&l, &l2, "(?i)checksum|length|len$|crc|fcs"), "same field values after serialize then decode")
	buf2 := gopacket.NewSerializeBuffer()
	pay2 := l2.LayerPayload()
	if len(wpay) == 0 {
		pay2 = nil
	}
	pb2, _ := buf2.AppendBytes(len(pay2))
	copy(pb2, pay2)
	if err := l2.SerializeTo(buf2, gopacket.SerializeOptions{FixLengths: true, ComputeChecksums: true}); err == nil {
		verifAssert(bytes.Equal(buf2.Bytes(), out), "writing the decoded layer once more reproduces the same bytes")
	}
	verifReached("roundtrip")
}

func verif_C06_rt_Dot11MgmtBeacon() {
	in := verifBytes("in", 24)
	n := verifInt("n", 0, 24)
	var l Dot11MgmtBeacon
	df := &c06DF{}
	if err := l.DecodeFromBytes(in[:n], df); err != nil {
		verifReached("decode-err")
		return
	}
	if df.t {
		verifReached("decode-truncated")
		return
	}
	verifReached("decoded")
	buf := gopacket.NewSerializeBuffer()
	pay := l.LayerPayload()
	wpay := pay
	pb, _ := buf.AppendBytes(len(wpay))
	copy(pb, wpay)
	if err := l.SerializeTo(buf, gopacket.SerializeOptions{FixLengths: true, ComputeChecksums: true}); err != nil {
		verifReached("serialize-refused")
		return
	}
	out := buf.Bytes()
	var l2 Dot11MgmtBeacon
	df2 := &c06DF{}
	err := l2.DecodeFromBytes(out, df2)
	verifAssert(err == nil, "written bytes decode without error")
	verifAssert(!df2.t, "written bytes decode without truncation flag")
	verifAssert(bytes.Equal(l2.LayerPayload(), pay), "same payload after the round trip")
	// fields that SerializeTo is documented to overwrite when fixing lengths
	// and computing checksums are compared after a second round instead
	verifAssert(verifDeepEqualExcept(&l, &l2, "(?i)checksum|length|len$|crc|fcs"), "same field values after serialize then decode")
	buf2 := gopacket.NewSerializeBuffer()
	pay2 := l2.LayerPayload()
	if len(wpay) == 0 {
		pay2 = nil
	}
	pb2, _ := buf2.AppendBytes(len(pay2))
	copy(pb2, pay2)
	if err := l2.SerializeTo(buf2, gopacket.SerializeOptions{FixLengths: true, ComputeChecksums: true}); err == nil {
		verifAssert(bytes.Equal(buf2.Bytes(), out), "writing the decoded layer once more reproduces the same bytes")
	}
	verifReached("roundtrip")
}

func verif_C06_rt_Dot11MgmtDeauthentication() {
	in := verifBytes("in", 24)
	n := verifInt("n", 0, 24)
	var l Dot11MgmtDeauthentication
	df := &c06DF{}
	if err := l.DecodeFromBytes(in[:n], df); err != nil {
		verifReached("decode-err")
		return
	}
	if df.t {
		verifReached("decode-truncated")
		return
	}
	verifReached("decoded")
	buf := gopacket.NewSerializeBuffer()
	pay := l.LayerPayload()
	wpay := pay
	pb, _ := buf.AppendBytes(len(wpay))
	copy(pb, wpay)
	if err := l.SerializeTo(buf, gopacket.SerializeOptions{FixLengths: true, ComputeChecksums: true}); err != nil {
		verifReached("serialize-refused")
		return
	}
	out := buf.Bytes()
	var l2 Dot11MgmtDeauthentication
	df2 := &c06DF{}
	err := l2.DecodeFromBytes(out, df2)
	verifAssert(err == nil, "written bytes decode without error")
	verifAssert(!df2.t, "written bytes decode without truncation flag")
	verifAssert(bytes.Equal(l2.LayerPayload(), pay), "same payload after the round trip")
	// fields that SerializeTo is documented to overwrite when fixing lengths
	// and computing checksums are compared after a second round instead
	verifAssert(verifDeepEqualExcept(&l, &l2, "(?i)checksum|length|len$|crc|fcs"), "same field values after serialize then decode")
	buf2 := gopacket.NewSerializeBuffer()
	pay2 := l2.LayerPayload()
	if len(wpay) == 0 {
		pay2 = nil
	}
	pb2, _ := buf2.AppendBytes(len(pay2))
	copy(pb2, pay2)
	if err := l2.SerializeTo(buf2, gopacket.SerializeOptions{FixLengths: true, ComputeChecksums: true}); err == nil {
		verifAssert(bytes.Equal(buf2.Bytes(), out), "writing the decoded layer once more reproduces the same bytes")
	}
	verifReached("roundtrip")
}

func verif_C06_rt_Dot11MgmtDisassociation() {
	in := verifBytes("in", 24)
	n := verifInt("n", 0, 24)
	var l Dot11MgmtDisassociation
	df := &c06DF{}
	if err := l.DecodeFromBytes(in[:n], df); err != nil {
		verifReached("decode-err")
		return
	}
	if df.t {
		verifReached("decode-truncated")
		return
	}
	verifReached("decoded")
	buf := gopacket.NewSerializeBuffer()
	pay := l.LayerPayload()
	wpay := pay
	pb, _ := buf.AppendBytes(len(wpay))
	copy(pb, wpay)
	if err := l.SerializeTo(buf, gopacket.SerializeOptions{FixLengths: true, ComputeChecksums: true}); err != nil {
		verifReached("serialize-refused")
		return
	}
	out := buf.Bytes()
	var l2 Dot11MgmtDisassociation
	df2 := &c06DF{}
	err := l2.DecodeFromBytes(out, df2)
	verifAssert(err == nil, "written bytes decode without error")
	verifAssert(!df2.t, "written bytes decode without truncation flag")
	verifAssert(bytes.Equal(l2.LayerPayload(), pay), "same payload after the round trip")
	// fields that SerializeTo is documented to overwrite when fixing lengths
	// and computing checksums are compared after a second round instead
	verifAssert(verifDeepEqualExcept(&l, &l2, "(?i)checksum|length|len$|crc|fcs"), "same field values after serialize then decode")
	buf2 := gopacket.NewSerializeBuffer()
	pay2 := l2.LayerPayload()
	if len(wpay) == 0 {
		pay2 = nil
	}
	pb2, _ := buf2.AppendBytes(len(pay2))
	copy(pb2, pay2)
	if err := l2.SerializeTo(buf2, gopacket.SerializeOptions{FixLengths: true, ComputeChecksums: true}); err == nil {
		verifAssert(bytes.Equal(buf2.Bytes(), out), "writing the decoded layer once more reproduces the same bytes")
	}
	verifReached("roundtrip")
}

func verif_C06_rt_Dot11MgmtProbeResp() {
	in := verifBytes("in", 24)
	n := verifInt("n", 0, 24)
	var l Dot11MgmtProbeResp
	df := &c06DF{}
	if err := l.DecodeFromBytes(in[:n], df); err != nil {
		verifReached("decode-err")
		return
	}
	if df.t {
		verifReached("decode-truncated")
		return
	}
	verifReached("decoded")
	buf := gopacket.NewSerializeBuffer()
	pay := l.LayerPayload()
	wpay := pay
	pb, _ := buf.AppendBytes(len(wpay))
	copy(pb, wpay)
	if err := l.SerializeTo(buf, gopacket.SerializeOptions{FixLengths: true, ComputeChecksums: true}); err != nil {
		verifReached("serialize-refused")
		return
	}
	out := buf.Bytes()
	var l2 Dot11MgmtProbeResp
	df2 := &c06DF{}
	err := l2.DecodeFromBytes(out, df2)
	verifAssert(err == nil, "written bytes decode without error")
	verifAssert(!df2.t, "written bytes decode without truncation flag")
	verifAssert(bytes.Equal(l2.LayerPayload(), pay), "same payload after the round trip")
	// fields that SerializeTo is documented to overwrite when fixing lengths
	// and computing checksums are compared after a second round instead
	verifAssert(verifDeepEqualExcept(&l, &l2, "(?i)checksum|length|len$|crc|fcs"), "same field values after serialize then decode")
	buf2 := gopacket.NewSerializeBuffer()
	pay2 := l2.LayerPayload()
	if len(wpay) == 0 {
		pay2 = nil
	}
	pb2, _ := buf2.AppendBytes(len(pay2))
	copy(pb2, pay2)
	if err := l2.SerializeTo(buf2, gopacket.SerializeOptions{FixLengths: true, ComputeChecksums: true}); err == nil {
		verifAssert(bytes.Equal(buf2.Bytes(), out), "writing the decoded layer once more reproduces the same bytes")
	}
	verifReached("roundtrip")
}

func verif_C06_rt_Dot11MgmtReassociationReq() {
	in := verifBytes("in", 24)
	n := verifInt("n", 0, 24)
	var l Dot11MgmtReassociationReq
	df := &c06DF{}
	if err := l.DecodeFromBytes(in[:n], df); err != nil {
		verifReached("decode-err")
		return
	}
	if df.t {
		verifReached("decode-truncated")
		return
	}
	verifReached("decoded")
	buf := gopacket.NewSerializeBuffer()
	pay := l.LayerPayload()
	wpay := pay
	pb, _ := buf.AppendBytes(len(wpay))
	copy(pb, wpay)
	if err := l.SerializeTo(buf, gopacket.SerializeOptions{FixLengths: true, ComputeChecksums: true}); err != nil {
		verifReached("serialize-refused")
		return
	}
	out := buf.Bytes()
	var l2 Dot11MgmtReassociationReq
	df2 := &c06DF{}
	err := l2.DecodeFromBytes(out, df2)
	verifAssert(err == nil, "written bytes decode without error")
	verifAssert(!df2.t, "written bytes decode without truncation flag")
	verifAssert(bytes.Equal(l2.LayerPayload(), pay), "same payload after the round trip")
	// fields that SerializeTo is documented to overwrite when fixing lengths
	// and computing checksums are compared after a second round instead
	verifAssert(verifDeepEqualExcept(&l, &l2, "(?i)checksum|length|len$|crc|fcs"), "same field values after serialize then decode")
	buf2 := gopacket.NewSerializeBuffer()
	pay2 := l2.LayerPayload()
	if len(wpay) == 0 {
		pay2 = nil
	}
	pb2, _ := buf2.AppendBytes(len(pay2))
	copy(pb2, pay2)
	if err := l2.SerializeTo(buf2, gopacket.SerializeOptions{FixLengths: true, ComputeChecksums: true}); err == nil {
		verifAssert(bytes.Equal(buf2.Bytes(), out), "writing the decoded layer once more reproduces the same bytes")
	}
	verifReached("roundtrip")
}

func verif_C06_rt_Dot1Q() {
	in := verifBytes("in", 24)
	n := verifInt("n", 0, 24)
	var l Dot1Q
	df := &c06DF{}
	if err := l.DecodeFromBytes(in[:n], df); err != nil {
		verifReached("decode-err")
		return
	}
	if df.t {
		verifReached("decode-truncated")
		return
	}
	verifReached("decoded")
	buf := gopacket.NewSerializeBuffer()
	pay := l.LayerPayload()
	wpay := pay
	pb, _ := buf.AppendBytes(len(wpay))
	copy(pb, wpay)
	if err := l.SerializeTo(buf, gopacket.SerializeOptions{FixLengths: true, ComputeChecksums: true}); err != nil {
		verifReached("serialize-refused")
		return
	}
	out := buf.Bytes()
	var l2 Dot1Q
	df2 := &c06DF{}
	err := l2.DecodeFromBytes(out, df2)
	verifAssert(err == nil, "written bytes decode without error")
	verifAssert(!df2.t, "written bytes decode without truncation flag")
	verifAssert(bytes.Equal(l2.LayerPayload(), pay), "same payload after the round trip")
	// fields that SerializeTo is documented to overwrite when fixing lengths
	// and computing checksums are compared after a second round instead
	verifAssert(verifDeepEqualExcept(&l, &l2, "(?i)checksum|length|len$|crc|fcs"), "same field values after serialize then decode")
	buf2 := gopacket.NewSerializeBuffer()
	pay2 := l2.LayerPayload()
	if len(wpay) == 0 {
		pay2 = nil
	}
	pb2, _ := buf2.AppendBytes(len(pay2))
	copy(pb2, pay2)
	if err := l2.SerializeTo(buf2, gopacket.SerializeOptions{FixLengths: true, ComputeChecksums: true}); err == nil {
		verifAssert(bytes.Equal(buf2.Bytes(), out), "writing the decoded layer once more reproduces the same bytes")
	}
	verifReached("roundtrip")
}

func verif_C06_rt_EAP() {
	in := verifBytes("in", 24)
	n := verifInt("n", 0, 24)
	var l EAP
	df := &c06DF{}
	if err := l.DecodeFromBytes(in[:n], df); err != nil {
		verifReached("decode-err")
		return
	}
	if df.t {
		verifReached("decode-truncated")
		return
	}
	verifReached("decoded")
	buf := gopacket.NewSerializeBuffer()
	pay := l.LayerPayload()
	wpay := pay
	pb, _ := buf.AppendBytes(len(wpay))
	copy(pb, wpay)
	if err := l.SerializeTo(buf, gopacket.SerializeOptions{FixLengths: true, ComputeChecksums: true}); err != nil {
		verifReached("serialize-refused")
		return
	}
	out := buf.Bytes()
	var l2 EAP
	df2 := &c06DF{}
	err := l2.DecodeFromBytes(out, df2)
	verifAssert(err == nil, "written bytes decode without error")
	verifAssert(!df2.t, "written bytes decode without truncation flag")
	verifAssert(bytes.Equal(l2.LayerPayload(), pay), "same payload after the round trip")
	// fields that SerializeTo is documented to overwrite when fixing lengths
	// and computing checksums are compared after a second round instead
	verifAssert(verifDeepEqualExcept(&l, &l2, "(?i)checksum|length|len$|crc|fcs"), "same field values after serialize then decode")
	buf2 := gopacket.NewSerializeBuffer()
	pay2 := l2.LayerPayload()
	if len(wpay) == 0 {
		pay2 = nil
	}
	pb2, _ := buf2.AppendBytes(len(pay2))
	copy(pb2, pay2)
	if err := l2.SerializeTo(buf2, gopacket.SerializeOptions{FixLengths: true, ComputeChecksums: true}); err == nil {
		verifAssert(bytes.Equal(buf2.Bytes(), out), "writing the decoded layer once more reproduces the same bytes")
	}
	verifReached("roundtrip")
}

func verif_C06_rt_EAPOL() {
	in := verifBytes("in", 24)
	n := verifInt("n", 0, 24)
	var l EAPOL
	df := &c06DF{}
	if err := l.DecodeFromBytes(in[:n], df); err != nil {
		verifReached("decode-err")
		return
	}
	if df.t {
		verifReached("decode-truncated")
		return
	}
	verifReached("decoded")
	buf := gopacket.NewSerializeBuffer()
	pay := l.LayerPayload()
	wpay := pay
	pb, _ := buf.AppendBytes(len(wpay))
	copy(pb, wpay)
	if err := l.SerializeTo(buf, gopacket.SerializeOptions{FixLengths: true, ComputeChecksums: true}); err != nil {
		verifReached("serialize-refused")
		return
	}
	out := buf.Bytes()
	var l2 EAPOL
	df2 := &c06DF{}
	err := l2.DecodeFromBytes(out, df2)
	verifAssert(err == nil, "written bytes decode without error")
	verifAssert(!df2.t, "written bytes decode without truncation flag")
	verifAssert(bytes.Equal(l2.LayerPayload(), pay), "same payload after the round trip")
	// fields that SerializeTo is documented to overwrite when fixing lengths
	// and computing checksums are compared after a second round instead
	verifAssert(verifDeepEqualExcept(&l, &l2, "(?i)checksum|length|len$|crc|fcs"), "same field values after serialize then decode")
	buf2 := gopacket.NewSerializeBuffer()
	pay2 := l2.LayerPayload()
	if len(wpay) == 0 {
		pay2 = nil
	}
	pb2, _ := buf2.AppendBytes(len(pay2))
	copy(pb2, pay2)
	if err := l2.SerializeTo(buf2, gopacket.SerializeOptions{FixLengths: true, ComputeChecksums: true}); err == nil {
		verifAssert(bytes.Equal(buf2.Bytes(), out), "writing the decoded layer once more reproduces the same bytes")
	}
	verifReached("roundtrip")
}

func verif_C06_rt_EAPOLKey() {
	in := verifBytes("in", 103)
	n := verifInt("n", 0, 103)
	var l EAPOLKey
	df := &c06DF{}
	if err := l.DecodeFromBytes(in[:n], df); err != nil {
		verifReached("decode-err")
		return
	}
	if df.t {
		verifReached("decode-truncated")
		return
	}
	verifReached("decoded")
	buf := gopacket.NewSerializeBuffer()
	pay := l.LayerPayload()
	wpay := pay
	pb, _ := buf.AppendBytes(len(wpay))
	copy(pb, wpay)
	if err := l.SerializeTo(buf, gopacket.SerializeOptions{FixLengths: true, ComputeChecksums: true}); err != nil {
		verifReached("serialize-refused")
		return
	}
	out := buf.Bytes()
	var l2 EAPOLKey
	df2 := &c06DF{}
	err := l2.DecodeFromBytes(out, df2)
	verifAssert(err == nil, "written bytes decode without error")
	verifAssert(!df2.t, "written bytes decode without truncation flag")
	verifAssert(bytes.Equal(l2.LayerPayload(), pay), "same payload after the round trip")
	// fields that SerializeTo is documented to overwrite when fixing lengths
	// and computing checksums are compared after a second round instead
	verifAssert(verifDeepEqualExcept(&l, &l2, "(?i)checksum|length|len$|crc|fcs"), "same field values after serialize then decode")
	buf2 := gopacket.NewSerializeBuffer()
	pay2 := l2.LayerPayload()
	if len(wpay) == 0 {
		pay2 = nil
	}
	pb2, _ := buf2.AppendBytes(len(pay2))
	copy(pb2, pay2)
	if err := l2.SerializeTo(buf2, gopacket.SerializeOptions{FixLengths: true, ComputeChecksums: true}); err == nil {
		verifAssert(bytes.Equal(buf2.Bytes(), out), "writing the decoded layer once more reproduces the same bytes")
	}
	verifReached("roundtrip")
}

func verif_C06_rt_ERSPANII() {
	in := verifBytes("in", 24)
	n := verifInt("n", 0, 24)
	var l ERSPANII
	df := &c06DF{}
	if err := l.DecodeFromBytes(in[:n], df); err != nil {
		verifReached("decode-err")
		return
	}
	if df.t {
		verifReached("decode-truncated")
		return
	}
	verifReached("decoded")
	buf := gopacket.NewSerializeBuffer()
	pay := l.LayerPayload()
	wpay := pay
	pb, _ := buf.AppendBytes(len(wpay))
	copy(pb, wpay)
	if err := l.SerializeTo(buf, gopacket.SerializeOptions{FixLengths: true, ComputeChecksums: true}); err != nil {
		verifReached("serialize-refused")
		return
	}
	out := buf.Bytes()
	var l2 ERSPANII
	df2 := &c06DF{}
	err := l2.DecodeFromBytes(out, df2)
	verifAssert(err == nil, "written bytes decode without error")
	verifAssert(!df2.t, "written bytes decode without truncation flag")
	verifAssert(bytes.Equal(l2.LayerPayload(), pay), "same payload after the round trip")
	// fields that SerializeTo is documented to overwrite when fixing lengths
	// and computing checksums are compared after a second round instead
	verifAssert(verifDeepEqualExcept(&l, &l2, "(?i)checksum|length|len$|crc|fcs"), "same field values after serialize then decode")
	buf2 := gopacket.NewSerializeBuffer()
	pay2 := l2.LayerPayload()
	if len(wpay) == 0 {
		pay2 = nil
	}
	pb2, _ := buf2.AppendBytes(len(pay2))
	copy(pb2, pay2)
	if err := l2.SerializeTo(buf2, gopacket.SerializeOptions{FixLengths: true, ComputeChecksums: true}); err == nil {
		verifAssert(bytes.Equal(buf2.Bytes(), out), "writing the decoded layer once more reproduces the same bytes")
	}
	verifReached("roundtrip")
}

func verif_C06_rt_Ethernet() {
	in := verifBytes("in", 24)
	n := verifInt("n", 0, 24)
	var l Ethernet
	df := &c06DF{}
	if err := l.DecodeFromBytes(in[:n], df); err != nil {
		verifReached("decode-err")
		return
	}
	if df.t {
		verifReached("decode-truncated")
		return
	}
	verifReached("decoded")
	buf := gopacket.NewSerializeBuffer()
	pay := l.LayerPayload()
	wpay := pay
	pb, _ := buf.AppendBytes(len(wpay))
	copy(pb, wpay)
	if err := l.SerializeTo(buf, gopacket.SerializeOptions{FixLengths: true, ComputeChecksums: true}); err != nil {
		verifReached("serialize-refused")
		return
	}
	out := buf.Bytes()
	var l2 Ethernet
	df2 := &c06DF{}
	err := l2.DecodeFromBytes(out, df2)
	verifAssert(err == nil, "written bytes decode without error")
	verifAssert(!df2.t, "written bytes decode without truncation flag")
	c06EthernetPayload(l2.LayerPayload(), pay)
	// fields that SerializeTo is documented to overwrite when fixing lengths
	// and computing checksums are compared after a second round instead
	verifAssert(verifDeepEqualExcept(&l, &l2, "(?i)checksum|length|len$|crc|fcs"), "same field values after serialize then decode")
	buf2 := gopacket.NewSerializeBuffer()
	pay2 := l2.LayerPayload()
	if len(wpay) == 0 {
		pay2 = nil
	}
	pb2, _ := buf2.AppendBytes(len(pay2))
	copy(pb2, pay2)
	if err := l2.SerializeTo(buf2, gopacket.SerializeOptions{FixLengths: true, ComputeChecksums: true}); err == nil {
		verifAssert(bytes.Equal(buf2.Bytes(), out), "writing the decoded layer once more reproduces the same bytes")
	}
	verifReached("roundtrip")
}

func verif_C06_rt_GRE() {
	in := verifBytes("in", 20)
	n := verifInt("n", 0, 20)
	var l GRE
	df := &c06DF{}
	if err := l.DecodeFromBytes(in[:n], df); err != nil {
		verifReached("decode-err")
		return
	}
	if df.t {
		verifReached("decode-truncated")
		return
	}
	verifReached("decoded")
	buf := gopacket.NewSerializeBuffer()
	pay := l.LayerPayload()
	wpay := pay
	pb, _ := buf.AppendBytes(len(wpay))
	copy(pb, wpay)
	if err := l.SerializeTo(buf, gopacket.SerializeOptions{FixLengths: true, ComputeChecksums: true}); err != nil {
		verifReached("serialize-refused")
		return
	}
	out := buf.Bytes()
	var l2 GRE
	df2 := &c06DF{}
	err := l2.DecodeFromBytes(out, df2)
	verifAssert(err == nil, "written bytes decode without error")
	verifAssert(!df2.t, "written bytes decode without truncation flag")
	verifAssert(bytes.Equal(l2.LayerPayload(), pay), "same payload after the round trip")
	// fields that SerializeTo is documented to overwrite when fixing lengths
	// and computing checksums are compared after a second round instead
	verifAssert(verifDeepEqualExcept(&l, &l2, "(?i)checksum|length|len$|crc|fcs"), "same field values after serialize then decode")
	buf2 := gopacket.NewSerializeBuffer()
	pay2 := l2.LayerPayload()
	if len(wpay) == 0 {
		pay2 = nil
	}
	pb2, _ := buf2.AppendBytes(len(pay2))
	copy(pb2, pay2)
	if err := l2.SerializeTo(buf2, gopacket.SerializeOptions{FixLengths: true, ComputeChecksums: true}); err == nil {
		verifAssert(bytes.Equal(buf2.Bytes(), out), "writing the decoded layer once more reproduces the same bytes")
	}
	verifReached("roundtrip")
}

func verif_C06_rt_GTPv1U() {
	in := verifBytes("in", 24)
	n := verifInt("n", 0, 24)
	var l GTPv1U
	df := &c06DF{}
	if err := l.DecodeFromBytes(in[:n], df); err != nil {
		verifReached("decode-err")
		return
	}
	if df.t {
		verifReached("decode-truncated")
		return
	}
	verifReached("decoded")
	buf := gopacket.NewSerializeBuffer()
	pay := l.LayerPayload()
	wpay := pay
	pb, _ := buf.AppendBytes(len(wpay))
	copy(pb, wpay)
	if err := l.SerializeTo(buf, gopacket.SerializeOptions{FixLengths: true, ComputeChecksums: true}); err != nil {
		verifReached("serialize-refused")
		return
	}
	out := buf.Bytes()
	var l2 GTPv1U
	df2 := &c06DF{}
	err := l2.DecodeFromBytes(out, df2)
	verifAssert(err == nil, "written bytes decode without error")
	verifAssert(!df2.t, "written bytes decode without truncation flag")
	verifAssert(bytes.Equal(l2.LayerPayload(), pay), "same payload after the round trip")
	// fields that SerializeTo is documented to overwrite when fixing lengths
	// and computing checksums are compared after a second round instead
	verifAssert(verifDeepEqualExcept(&l, &l2, "(?i)checksum|length|len$|crc|fcs"), "same field values after serialize then decode")
	buf2 := gopacket.NewSerializeBuffer()
	pay2 := l2.LayerPayload()
	if len(wpay) == 0 {
		pay2 = nil
	}
	pb2, _ := buf2.AppendBytes(len(pay2))
	copy(pb2, pay2)
	if err := l2.SerializeTo(buf2, gopacket.SerializeOptions{FixLengths: true, ComputeChecksums: true}); err == nil {
		verifAssert(bytes.Equal(buf2.Bytes(), out), "writing the decoded layer once more reproduces the same bytes")
	}
	verifReached("roundtrip")
}

func verif_C06_rt_Geneve() {
	in := verifBytes("in", 24)
	n := verifInt("n", 0, 24)
	var l Geneve
	df := &c06DF{}
	if err := l.DecodeFromBytes(in[:n], df); err != nil {
		verifReached("decode-err")
		return
	}
	if df.t {
		verifReached("decode-truncated")
		return
	}
	verifReached("decoded")
	buf := gopacket.NewSerializeBuffer()
	pay := l.LayerPayload()
	wpay := pay
	pb, _ := buf.AppendBytes(len(wpay))
	copy(pb, wpay)
	if err := l.SerializeTo(buf, gopacket.SerializeOptions{FixLengths: true, ComputeChecksums: true}); err != nil {
		verifReached("serialize-refused")
		return
	}
	out := buf.Bytes()
	var l2 Geneve
	df2 := &c06DF{}
	err := l2.DecodeFromBytes(out, df2)
	verifAssert(err == nil, "written bytes decode without error")
	verifAssert(!df2.t, "written bytes decode without truncation flag")
	verifAssert(bytes.Equal(l2.LayerPayload(), pay), "same payload after the round trip")
	// fields that SerializeTo is documented to overwrite when fixing lengths
	// and computing checksums are compared after a second round instead
	verifAssert(verifDeepEqualExcept(&l, &l2, "(?i)checksum|length|len$|crc|fcs"), "same field values after serialize then decode")
	buf2 := gopacket.NewSerializeBuffer()
	pay2 := l2.LayerPayload()
	if len(wpay) == 0 {
		pay2 = nil
	}
	pb2, _ := buf2.AppendBytes(len(pay2))
	copy(pb2, pay2)
	if err := l2.SerializeTo(buf2, gopacket.SerializeOptions{FixLengths: true, ComputeChecksums: true}); err == nil {
		verifAssert(bytes.Equal(buf2.Bytes(), out), "writing the decoded layer once more reproduces the same bytes")
	}
	verifReached("roundtrip")
}

func verif_C06_rt_ICMPv4() {
	in := verifBytes("in", 24)
	n := verifInt("n", 0, 24)
	var l ICMPv4
	df := &c06DF{}
	if err := l.DecodeFromBytes(in[:n], df); err != nil {
		verifReached("decode-err")
		return
	}
	if df.t {
		verifReached("decode-truncated")
		return
	}
	verifReached("decoded")
	buf := gopacket.NewSerializeBuffer()
	pay := l.LayerPayload()
	wpay := pay
	pb, _ := buf.AppendBytes(len(wpay))
	copy(pb, wpay)
	if err := l.SerializeTo(buf, gopacket.SerializeOptions{FixLengths: true, ComputeChecksums: true}); err != nil {
		verifReached("serialize-refused")
		return
	}
	out := buf.Bytes()
	var l2 ICMPv4
	df2 := &c06DF{}
	err := l2.DecodeFromBytes(out, df2)
	verifAssert(err == nil, "written bytes decode without error")
	verifAssert(!df2.t, "written bytes decode without truncation flag")
	verifAssert(bytes.Equal(l2.LayerPayload(), pay), "same payload after the round trip")
	// fields that SerializeTo is documented to overwrite when fixing lengths
	// and computing checksums are compared after a second round instead
	verifAssert(verifDeepEqualExcept(&l, &l2, "(?i)checksum|length|len$|crc|fcs"), "same field values after serialize then decode")
	buf2 := gopacket.NewSerializeBuffer()
	pay2 := l2.LayerPayload()
	if len(wpay) == 0 {
		pay2 = nil
	}
	pb2, _ := buf2.AppendBytes(len(pay2))
	copy(pb2, pay2)
	if err := l2.SerializeTo(buf2, gopacket.SerializeOptions{FixLengths: true, ComputeChecksums: true}); err == nil {
		verifAssert(bytes.Equal(buf2.Bytes(), out), "writing the decoded layer once more reproduces the same bytes")
	}
	verifReached("roundtrip")
}

func verif_C06_rt_ICMPv6() {
	in := verifBytes("in", 24)
	n := verifInt("n", 0, 24)
	var l ICMPv6
	df := &c06DF{}
	if err := l.DecodeFromBytes(in[:n], df); err != nil {
		verifReached("decode-err")
		return
	}
	if df.t {
		verifReached("decode-truncated")
		return
	}
	verifReached("decoded")
	l.SetNetworkLayerForChecksum(c06Net4)
	buf := gopacket.NewSerializeBuffer()
	pay := l.LayerPayload()
	wpay := pay
	pb, _ := buf.AppendBytes(len(wpay))
	copy(pb, wpay)
	if err := l.SerializeTo(buf, gopacket.SerializeOptions{FixLengths: true, ComputeChecksums: true}); err != nil {
		verifReached("serialize-refused")
		return
	}
	out := buf.Bytes()
	var l2 ICMPv6
	df2 := &c06DF{}
	err := l2.DecodeFromBytes(out, df2)
	verifAssert(err == nil, "written bytes decode without error")
	verifAssert(!df2.t, "written bytes decode without truncation flag")
	verifAssert(bytes.Equal(l2.LayerPayload(), pay), "same payload after the round trip")
	// fields that SerializeTo is documented to overwrite when fixing lengths
	// and computing checksums are compared after a second round instead
	verifAssert(verifDeepEqualExcept(&l, &l2, "(?i)checksum|length|len$|crc|fcs"), "same field values after serialize then decode")
	l2.SetNetworkLayerForChecksum(c06Net4)
	buf2 := gopacket.NewSerializeBuffer()
	pay2 := l2.LayerPayload()
	if len(wpay) == 0 {
		pay2 = nil
	}
	pb2, _ := buf2.AppendBytes(len(pay2))
	copy(pb2, pay2)
	if err := l2.SerializeTo(buf2, gopacket.SerializeOptions{FixLengths: true, ComputeChecksums: true}); err == nil {
		verifAssert(bytes.Equal(buf2.Bytes(), out), "writing the decoded layer once more reproduces the same bytes")
	}
	verifReached("roundtrip")
}

func verif_C06_rt_ICMPv6Echo() {
	in := verifBytes("in", 24)
	n := verifInt("n", 0, 24)
	var l ICMPv6Echo
	df := &c06DF{}
	if err := l.DecodeFromBytes(in[:n], df); err != nil {
		verifReached("decode-err")
		return
	}
	if df.t {
		verifReached("decode-truncated")
		return
	}
	verifReached("decoded")
	buf := gopacket.NewSerializeBuffer()
	pay := l.LayerPayload()
	wpay := pay
	pb, _ := buf.AppendBytes(len(wpay))
	copy(pb, wpay)
	if err := l.SerializeTo(buf, gopacket.SerializeOptions{FixLengths: true, ComputeChecksums: true}); err != nil {
		verifReached("serialize-refused")
		return
	}
	out := buf.Bytes()
	var l2 ICMPv6Echo
	df2 := &c06DF{}
	err := l2.DecodeFromBytes(out, df2)
	verifAssert(err == nil, "written bytes decode without error")
	verifAssert(!df2.t, "written bytes decode without truncation flag")
	verifAssert(bytes.Equal(l2.LayerPayload(), pay), "same payload after the round trip")
	// fields that SerializeTo is documented to overwrite when fixing lengths
	// and computing checksums are compared after a second round instead
	verifAssert(verifDeepEqualExcept(&l, &l2, "(?i)checksum|length|len$|crc|fcs"), "same field values after serialize then decode")
	buf2 := gopacket.NewSerializeBuffer()
	pay2 := l2.LayerPayload()
	if len(wpay) == 0 {
		pay2 = nil
	}
	pb2, _ := buf2.AppendBytes(len(pay2))
	copy(pb2, pay2)
	if err := l2.SerializeTo(buf2, gopacket.SerializeOptions{FixLengths: true, ComputeChecksums: true}); err == nil {
		verifAssert(bytes.Equal(buf2.Bytes(), out), "writing the decoded layer once more reproduces the same bytes")
	}
	verifReached("roundtrip")
}

func verif_C06_rt_ICMPv6NeighborAdvertisement() {
	in := verifBytes("in", 28)
	n := verifInt("n", 0, 28)
	var l ICMPv6NeighborAdvertisement
	df := &c06DF{}
	if err := l.DecodeFromBytes(in[:n], df); err != nil {
		verifReached("decode-err")
		return
	}
	if df.t {
		verifReached("decode-truncated")
		return
	}
	verifReached("decoded")
	buf := gopacket.NewSerializeBuffer()
	pay := l.LayerPayload()
	wpay := pay
	pb, _ := buf.AppendBytes(len(wpay))
	copy(pb, wpay)
	if err := l.SerializeTo(buf, gopacket.SerializeOptions{FixLengths: true, ComputeChecksums: true}); err != nil {
		verifReached("serialize-refused")
		return
	}
	out := buf.Bytes()
	var l2 ICMPv6NeighborAdvertisement
	df2 := &c06DF{}
	err := l2.DecodeFromBytes(out, df2)
	verifAssert(err == nil, "written bytes decode without error")
	verifAssert(!df2.t, "written bytes decode without truncation flag")
	verifAssert(bytes.Equal(l2.LayerPayload(), pay), "same payload after the round trip")
	// fields that SerializeTo is documented to overwrite when fixing lengths
	// and computing checksums are compared after a second round instead
	verifAssert(verifDeepEqualExcept(&l, &l2, "(?i)checksum|length|len$|crc|fcs"), "same field values after serialize then decode")
	buf2 := gopacket.NewSerializeBuffer()
	pay2 := l2.LayerPayload()
	if len(wpay) == 0 {
		pay2 = nil
	}
	pb2, _ := buf2.AppendBytes(len(pay2))
	copy(pb2, pay2)
	if err := l2.SerializeTo(buf2, gopacket.SerializeOptions{FixLengths: true, ComputeChecksums: true}); err == nil {
		verifAssert(bytes.Equal(buf2.Bytes(), out), "writing the decoded layer once more reproduces the same bytes")
	}
	verifReached("roundtrip")
}

func verif_C06_rt_ICMPv6NeighborSolicitation() {
	in := verifBytes("in", 28)
	n := verifInt("n", 0, 28)
	var l ICMPv6NeighborSolicitation
	df := &c06DF{}
	if err := l.DecodeFromBytes(in[:n], df); err != nil {
		verifReached("decode-err")
		return
	}
	if df.t {
		verifReached("decode-truncated")
		return
	}
	verifReached("decoded")
	buf := gopacket.NewSerializeBuffer()
	pay := l.LayerPayload()
	wpay := pay
	pb, _ := buf.AppendBytes(len(wpay))
	copy(pb, wpay)
	if err := l.SerializeTo(buf, gopacket.SerializeOptions{FixLengths: true, ComputeChecksums: true}); err != nil {
		verifReached("serialize-refused")
		return
	}
	out := buf.Bytes()
	var l2 ICMPv6NeighborSolicitation
	df2 := &c06DF{}
	err := l2.DecodeFromBytes(out, df2)
	verifAssert(err == nil, "written bytes decode without error")
	verifAssert(!df2.t, "written bytes decode without truncation flag")
	verifAssert(bytes.Equal(l2.LayerPayload(), pay), "same payload after the round trip")
	// fields that SerializeTo is documented to overwrite when fixing lengths
	// and computing checksums are compared after a second round instead
	verifAssert(verifDeepEqualExcept(&l, &l2, "(?i)checksum|length|len$|crc|fcs"), "same field values after serialize then decode")
	buf2 := gopacket.NewSerializeBuffer()
	pay2 := l2.LayerPayload()
	if len(wpay) == 0 {
		pay2 = nil
	}
	pb2, _ := buf2.AppendBytes(len(pay2))
	copy(pb2, pay2)
	if err := l2.SerializeTo(buf2, gopacket.SerializeOptions{FixLengths: true, ComputeChecksums: true}); err == nil {
		verifAssert(bytes.Equal(buf2.Bytes(), out), "writing the decoded layer once more reproduces the same bytes")
	}
	verifReached("roundtrip")
}

func verif_C06_rt_ICMPv6Redirect() {
	in := verifBytes("in", 44)
	n := verifInt("n", 0, 44)
	var l ICMPv6Redirect
	df := &c06DF{}
	if err := l.DecodeFromBytes(in[:n], df); err != nil {
		verifReached("decode-err")
		return
	}
	if df.t {
		verifReached("decode-truncated")
		return
	}
	verifReached("decoded")
	buf := gopacket.NewSerializeBuffer()
	pay := l.LayerPayload()
	wpay := pay
	pb, _ := buf.AppendBytes(len(wpay))
	copy(pb, wpay)
	if err := l.SerializeTo(buf, gopacket.SerializeOptions{FixLengths: true, ComputeChecksums: true}); err != nil {
		verifReached("serialize-refused")
		return
	}
	out := buf.Bytes()
	var l2 ICMPv6Redirect
	df2 := &c06DF{}
	err := l2.DecodeFromBytes(out, df2)
	verifAssert(err == nil, "written bytes decode without error")
	verifAssert(!df2.t, "written bytes decode without truncation flag")
	verifAssert(bytes.Equal(l2.LayerPayload(), pay), "same payload after the round trip")
	// fields that SerializeTo is documented to overwrite when fixing lengths
	// and computing checksums are compared after a second round instead
	verifAssert(verifDeepEqualExcept(&l, &l2, "(?i)checksum|length|len$|crc|fcs"), "same field values after serialize then decode")
	buf2 := gopacket.NewSerializeBuffer()
	pay2 := l2.LayerPayload()
	if len(wpay) == 0 {
		pay2 = nil
	}
	pb2, _ := buf2.AppendBytes(len(pay2))
	copy(pb2, pay2)
	if err := l2.SerializeTo(buf2, gopacket.SerializeOptions{FixLengths: true, ComputeChecksums: true}); err == nil {
		verifAssert(bytes.Equal(buf2.Bytes(), out), "writing the decoded layer once more reproduces the same bytes")
	}
	verifReached("roundtrip")
}

func verif_C06_rt_ICMPv6RouterAdvertisement() {
	in := verifBytes("in", 24)
	n := verifInt("n", 0, 24)
	var l ICMPv6RouterAdvertisement
	df := &c06DF{}
	if err := l.DecodeFromBytes(in[:n], df); err != nil {
		verifReached("decode-err")
		return
	}
	if df.t {
		verifReached("decode-truncated")
		return
	}
	verifReached("decoded")
	buf := gopacket.NewSerializeBuffer()
	pay := l.LayerPayload()
	wpay := pay
	pb, _ := buf.AppendBytes(len(wpay))
	copy(pb, wpay)
	if err := l.SerializeTo(buf, gopacket.SerializeOptions{FixLengths: true, ComputeChecksums: true}); err != nil {
		verifReached("serialize-refused")
		return
	}
	out := buf.Bytes()
	var l2 ICMPv6RouterAdvertisement
	df2 := &c06DF{}
	err := l2.DecodeFromBytes(out, df2)
	verifAssert(err == nil, "written bytes decode without error")
	verifAssert(!df2.t, "written bytes decode without truncation flag")
	verifAssert(bytes.Equal(l2.LayerPayload(), pay), "same payload after the round trip")
	// fields that SerializeTo is documented to overwrite when fixing lengths
	// and computing checksums are compared after a second round instead
	verifAssert(verifDeepEqualExcept(&l, &l2, "(?i)checksum|length|len$|crc|fcs"), "same field values after serialize then decode")
	buf2 := gopacket.NewSerializeBuffer()
	pay2 := l2.LayerPayload()
	if len(wpay) == 0 {
		pay2 = nil
	}
	pb2, _ := buf2.AppendBytes(len(pay2))
	copy(pb2, pay2)
	if err := l2.SerializeTo(buf2, gopacket.SerializeOptions{FixLengths: true, ComputeChecksums: true}); err == nil {
		verifAssert(bytes.Equal(buf2.Bytes(), out), "writing the decoded layer once more reproduces the same bytes")
	}
	verifReached("roundtrip")
}

func verif_C06_rt_ICMPv6RouterSolicitation() {
	in := verifBytes("in", 24)
	n := verifInt("n", 0, 24)
	var l ICMPv6RouterSolicitation
	df := &c06DF{}
	if err := l.DecodeFromBytes(in[:n], df); err != nil {
		verifReached("decode-err")
		return
	}
	if df.t {
		verifReached("decode-truncated")
		return
	}
	verifReached("decoded")
	buf := gopacket.NewSerializeBuffer()
	pay := l.LayerPayload()
	wpay := pay
	pb, _ := buf.AppendBytes(len(wpay))
	copy(pb, wpay)
	if err := l.SerializeTo(buf, gopacket.SerializeOptions{FixLengths: true, ComputeChecksums: true}); err != nil {
		verifReached("serialize-refused")
		return
	}
	out := buf.Bytes()
	var l2 ICMPv6RouterSolicitation
	df2 := &c06DF{}
	err := l2.DecodeFromBytes(out, df2)
	verifAssert(err == nil, "written bytes decode without error")
	verifAssert(!df2.t, "written bytes decode without truncation flag")
	verifAssert(bytes.Equal(l2.LayerPayload(), pay), "same payload after the round trip")
	// fields that SerializeTo is documented to overwrite when fixing lengths
	// and computing checksums are compared after a second round instead
	verifAssert(verifDeepEqualExcept(&l, &l2, "(?i)checksum|length|len$|crc|fcs"), "same field values after serialize then decode")
	buf2 := gopacket.NewSerializeBuffer()
	pay2 := l2.LayerPayload()
	if len(wpay) == 0 {
		pay2 = nil
	}
	pb2, _ := buf2.AppendBytes(len(pay2))
	copy(pb2, pay2)
	if err := l2.SerializeTo(buf2, gopacket.SerializeOptions{FixLengths: true, ComputeChecksums: true}); err == nil {
		verifAssert(bytes.Equal(buf2.Bytes(), out), "writing the decoded layer once more reproduces the same bytes")
	}
	verifReached("roundtrip")
}

func verif_C06_rt_IPv4() {
	in := verifBytes("in", 28)
	n := verifInt("n", 0, 28)
	var l IPv4
	df := &c06DF{}
	if err := l.DecodeFromBytes(in[:n], df); err != nil {
		verifReached("decode-err")
		return
	}
	if df.t {
		verifReached("decode-truncated")
		return
	}
	verifReached("decoded")
	buf := gopacket.NewSerializeBuffer()
	pay := l.LayerPayload()
	wpay := pay
	pb, _ := buf.AppendBytes(len(wpay))
	copy(pb, wpay)
	if err := l.SerializeTo(buf, gopacket.SerializeOptions{FixLengths: true, ComputeChecksums: true}); err != nil {
		verifReached("serialize-refused")
		return
	}
	out := buf.Bytes()
	var l2 IPv4
	df2 := &c06DF{}
	err := l2.DecodeFromBytes(out, df2)
	verifAssert(err == nil, "written bytes decode without error")
	verifAssert(!df2.t, "written bytes decode without truncation flag")
	verifAssert(bytes.Equal(l2.LayerPayload(), pay), "same payload after the round trip")
	// fields that SerializeTo is documented to overwrite when fixing lengths
	// and computing checksums are compared after a second round instead
	verifAssert(verifDeepEqualExcept(&l, &l2, "(?i)checksum|length|len$|crc|fcs"), "same field values after serialize then decode")
	buf2 := gopacket.NewSerializeBuffer()
	pay2 := l2.LayerPayload()
	if len(wpay) == 0 {
		pay2 = nil
	}
	pb2, _ := buf2.AppendBytes(len(pay2))
	copy(pb2, pay2)
	if err := l2.SerializeTo(buf2, gopacket.SerializeOptions{FixLengths: true, ComputeChecksums: true}); err == nil {
		verifAssert(bytes.Equal(buf2.Bytes(), out), "writing the decoded layer once more reproduces the same bytes")
	}
	verifReached("roundtrip")
}

func verif_C06_rt_IPv6() {
	in := verifBytes("in", 48)
	n := verifInt("n", 0, 48)
	var l IPv6
	df := &c06DF{}
	if err := l.DecodeFromBytes(in[:n], df); err != nil {
		verifReached("decode-err")
		return
	}
	if df.t {
		verifReached("decode-truncated")
		return
	}
	verifReached("decoded")
	buf := gopacket.NewSerializeBuffer()
	pay := l.LayerPayload()
	wpay := pay
	pb, _ := buf.AppendBytes(len(wpay))
	copy(pb, wpay)
	if err := l.SerializeTo(buf, gopacket.SerializeOptions{FixLengths: true, ComputeChecksums: true}); err != nil {
		verifReached("serialize-refused")
		return
	}
	out := buf.Bytes()
	var l2 IPv6
	df2 := &c06DF{}
	err := l2.DecodeFromBytes(out, df2)
	verifAssert(err == nil, "written bytes decode without error")
	verifAssert(!df2.t, "written bytes decode without truncation flag")
	verifAssert(bytes.Equal(l2.LayerPayload(), pay), "same payload after the round trip")
	// fields that SerializeTo is documented to overwrite when fixing lengths
	// and computing checksums are compared after a second round instead
	verifAssert(verifDeepEqualExcept(&l, &l2, "(?i)checksum|length|len$|crc|fcs"), "same field values after serialize then decode")
	buf2 := gopacket.NewSerializeBuffer()
	pay2 := l2.LayerPayload()
	if len(wpay) == 0 {
		pay2 = nil
	}
	pb2, _ := buf2.AppendBytes(len(pay2))
	copy(pb2, pay2)
	if err := l2.SerializeTo(buf2, gopacket.SerializeOptions{FixLengths: true, ComputeChecksums: true}); err == nil {
		verifAssert(bytes.Equal(buf2.Bytes(), out), "writing the decoded layer once more reproduces the same bytes")
	}
	verifReached("roundtrip")
}

func verif_C06_rt_IPv6Destination() {
	in := verifBytes("in", 16)
	n := verifInt("n", 0, 16)
	var l IPv6Destination
	df := &c06DF{}
	if err := l.DecodeFromBytes(in[:n], df); err != nil {
		verifReached("decode-err")
		return
	}
	if df.t {
		verifReached("decode-truncated")
		return
	}
	verifReached("decoded")
	buf := gopacket.NewSerializeBuffer()
	pay := l.LayerPayload()
	wpay := pay
	pb, _ := buf.AppendBytes(len(wpay))
	copy(pb, wpay)
	if err := l.SerializeTo(buf, gopacket.SerializeOptions{FixLengths: true, ComputeChecksums: true}); err != nil {
		verifReached("serialize-refused")
		return
	}
	out := buf.Bytes()
	var l2 IPv6Destination
	df2 := &c06DF{}
	err := l2.DecodeFromBytes(out, df2)
	verifAssert(err == nil, "written bytes decode without error")
	verifAssert(!df2.t, "written bytes decode without truncation flag")
	verifAssert(bytes.Equal(l2.LayerPayload(), pay), "same payload after the round trip")
	// fields that SerializeTo is documented to overwrite when fixing lengths
	// and computing checksums are compared after a second round instead
	var at, bt []uint8
	var ad, bd [][]byte
	for _, o := range l.Options {
		if o.OptionType > 1 {
			at, ad = append(at, o.OptionType), append(ad, o.OptionData)
		}
	}
	for _, o := range l2.Options {
		if o.OptionType > 1 {
			bt, bd = append(bt, o.OptionType), append(bd, o.OptionData)
		}
	}
	c06SameTLV(at, ad, bt, bd)
	verifAssert(l.NextHeader == l2.NextHeader, "same next header")
	buf2 := gopacket.NewSerializeBuffer()
	pay2 := l2.LayerPayload()
	if len(wpay) == 0 {
		pay2 = nil
	}
	pb2, _ := buf2.AppendBytes(len(pay2))
	copy(pb2, pay2)
	if err := l2.SerializeTo(buf2, gopacket.SerializeOptions{FixLengths: true, ComputeChecksums: true}); err == nil {
		verifAssert(bytes.Equal(buf2.Bytes(), out), "writing the decoded layer once more reproduces the same bytes")
	}
	verifReached("roundtrip")
}

func verif_C06_rt_IPv6HopByHop() {
	in := verifBytes("in", 16)
	n := verifInt("n", 0, 16)
	var l IPv6HopByHop
	df := &c06DF{}
	if err := l.DecodeFromBytes(in[:n], df); err != nil {
		verifReached("decode-err")
		return
	}
	if df.t {
		verifReached("decode-truncated")
		return
	}
	verifReached("decoded")
	buf := gopacket.NewSerializeBuffer()
	pay := l.LayerPayload()
	wpay := pay
	pb, _ := buf.AppendBytes(len(wpay))
	copy(pb, wpay)
	if err := l.SerializeTo(buf, gopacket.SerializeOptions{FixLengths: true, ComputeChecksums: true}); err != nil {
		verifReached("serialize-refused")
		return
	}
	out := buf.Bytes()
	var l2 IPv6HopByHop
	df2 := &c06DF{}
	err := l2.DecodeFromBytes(out, df2)
	verifAssert(err == nil, "written bytes decode without error")
	verifAssert(!df2.t, "written bytes decode without truncation flag")
	verifAssert(bytes.Equal(l2.LayerPayload(), pay), "same payload after the round trip")
	// fields that SerializeTo is documented to overwrite when fixing lengths
	// and computing checksums are compared after a second round instead
	var at, bt []uint8
	var ad, bd [][]byte
	for _, o := range l.Options {
		if o.OptionType > 1 {
			at, ad = append(at, o.OptionType), append(ad, o.OptionData)
		}
	}
	for _, o := range l2.Options {
		if o.OptionType > 1 {
			bt, bd = append(bt, o.OptionType), append(bd, o.OptionData)
		}
	}
	c06SameTLV(at, ad, bt, bd)
	verifAssert(l.NextHeader == l2.NextHeader, "same next header")
	buf2 := gopacket.NewSerializeBuffer()
	pay2 := l2.LayerPayload()
	if len(wpay) == 0 {
		pay2 = nil
	}
	pb2, _ := buf2.AppendBytes(len(pay2))
	copy(pb2, pay2)
	if err := l2.SerializeTo(buf2, gopacket.SerializeOptions{FixLengths: true, ComputeChecksums: true}); err == nil {
		verifAssert(bytes.Equal(buf2.Bytes(), out), "writing the decoded layer once more reproduces the same bytes")
	}
	verifReached("roundtrip")
}

func verif_C06_rt_LLC() {
	in := verifBytes("in", 24)
	n := verifInt("n", 0, 24)
	var l LLC
	df := &c06DF{}
	if err := l.DecodeFromBytes(in[:n], df); err != nil {
		verifReached("decode-err")
		return
	}
	if df.t {
		verifReached("decode-truncated")
		return
	}
	verifReached("decoded")
	buf := gopacket.NewSerializeBuffer()
	pay := l.LayerPayload()
	wpay := pay
	pb, _ := buf.AppendBytes(len(wpay))
	copy(pb, wpay)
	if err := l.SerializeTo(buf, gopacket.SerializeOptions{FixLengths: true, ComputeChecksums: true}); err != nil {
		verifReached("serialize-refused")
		return
	}
	out := buf.Bytes()
	var l2 LLC
	df2 := &c06DF{}
	err := l2.DecodeFromBytes(out, df2)
	verifAssert(err == nil, "written bytes decode without error")
	verifAssert(!df2.t, "written bytes decode without truncation flag")
	verifAssert(bytes.Equal(l2.LayerPayload(), pay), "same payload after the round trip")
	// fields that SerializeTo is documented to overwrite when fixing lengths
	// and computing checksums are compared after a second round instead
	verifAssert(verifDeepEqualExcept(&l, &l2, "(?i)checksum|length|len$|crc|fcs"), "same field values after serialize then decode")
	buf2 := gopacket.NewSerializeBuffer()
	pay2 := l2.LayerPayload()
	if len(wpay) == 0 {
		pay2 = nil
	}
	pb2, _ := buf2.AppendBytes(len(pay2))
	copy(pb2, pay2)
	if err := l2.SerializeTo(buf2, gopacket.SerializeOptions{FixLengths: true, ComputeChecksums: true}); err == nil {
		verifAssert(bytes.Equal(buf2.Bytes(), out), "writing the decoded layer once more reproduces the same bytes")
	}
	verifReached("roundtrip")
}

func verif_C06_rt_Loopback() {
	in := verifBytes("in", 24)
	n := verifInt("n", 0, 24)
	var l Loopback
	df := &c06DF{}
	if err := l.DecodeFromBytes(in[:n], df); err != nil {
		verifReached("decode-err")
		return
	}
	if df.t {
		verifReached("decode-truncated")
		return
	}
	verifReached("decoded")
	buf := gopacket.NewSerializeBuffer()
	pay := l.LayerPayload()
	wpay := pay
	pb, _ := buf.AppendBytes(len(wpay))
	copy(pb, wpay)
	if err := l.SerializeTo(buf, gopacket.SerializeOptions{FixLengths: true, ComputeChecksums: true}); err != nil {
		verifReached("serialize-refused")
		return
	}
	out := buf.Bytes()
	var l2 Loopback
	df2 := &c06DF{}
	err := l2.DecodeFromBytes(out, df2)
	verifAssert(err == nil, "written bytes decode without error")
	verifAssert(!df2.t, "written bytes decode without truncation flag")
	verifAssert(bytes.Equal(l2.LayerPayload(), pay), "same payload after the round trip")
	// fields that SerializeTo is documented to overwrite when fixing lengths
	// and computing checksums are compared after a second round instead
	verifAssert(verifDeepEqualExcept(&l, &l2, "(?i)checksum|length|len$|crc|fcs"), "same field values after serialize then decode")
	buf2 := gopacket.NewSerializeBuffer()
	pay2 := l2.LayerPayload()
	if len(wpay) == 0 {
		pay2 = nil
	}
	pb2, _ := buf2.AppendBytes(len(pay2))
	copy(pb2, pay2)
	if err := l2.SerializeTo(buf2, gopacket.SerializeOptions{FixLengths: true, ComputeChecksums: true}); err == nil {
		verifAssert(bytes.Equal(buf2.Bytes(), out), "writing the decoded layer once more reproduces the same bytes")
	}
	verifReached("roundtrip")
}

func verif_C06_rt_MDP() {
	in := verifBytes("in", 36)
	n := verifInt("n", 0, 36)
	var l MDP
	df := &c06DF{}
	if err := l.DecodeFromBytes(in[:n], df); err != nil {
		verifReached("decode-err")
		return
	}
	if df.t {
		verifReached("decode-truncated")
		return
	}
	verifReached("decoded")
	buf := gopacket.NewSerializeBuffer()
	pay := l.LayerPayload()
	wpay := pay
	pb, _ := buf.AppendBytes(len(wpay))
	copy(pb, wpay)
	if err := l.SerializeTo(buf, gopacket.SerializeOptions{FixLengths: true, ComputeChecksums: true}); err != nil {
		verifReached("serialize-refused")
		return
	}
	out := buf.Bytes()
	var l2 MDP
	df2 := &c06DF{}
	err := l2.DecodeFromBytes(out, df2)
	verifAssert(err == nil, "written bytes decode without error")
	verifAssert(!df2.t, "written bytes decode without truncation flag")
	verifAssert(bytes.Equal(l2.LayerPayload(), pay), "same payload after the round trip")
	// fields that SerializeTo is documented to overwrite when fixing lengths
	// and computing checksums are compared after a second round instead
	verifAssert(verifDeepEqualExcept(&l, &l2, "(?i)checksum|length|len$|crc|fcs"), "same field values after serialize then decode")
	buf2 := gopacket.NewSerializeBuffer()
	pay2 := l2.LayerPayload()
	if len(wpay) == 0 {
		pay2 = nil
	}
	pb2, _ := buf2.AppendBytes(len(pay2))
	copy(pb2, pay2)
	if err := l2.SerializeTo(buf2, gopacket.SerializeOptions{FixLengths: true, ComputeChecksums: true}); err == nil {
		verifAssert(bytes.Equal(buf2.Bytes(), out), "writing the decoded layer once more reproduces the same bytes")
	}
	verifReached("roundtrip")
}

func verif_C06_rt_MLDv1Message() {
	in := verifBytes("in", 28)
	n := verifInt("n", 0, 28)
	var l MLDv1Message
	df := &c06DF{}
	if err := l.DecodeFromBytes(in[:n], df); err != nil {
		verifReached("decode-err")
		return
	}
	if df.t {
		verifReached("decode-truncated")
		return
	}
	verifReached("decoded")
	buf := gopacket.NewSerializeBuffer()
	pay := l.LayerPayload()
	wpay := pay
	pb, _ := buf.AppendBytes(len(wpay))
	copy(pb, wpay)
	if err := l.SerializeTo(buf, gopacket.SerializeOptions{FixLengths: true, ComputeChecksums: true}); err != nil {
		verifReached("serialize-refused")
		return
	}
	out := buf.Bytes()
	var l2 MLDv1Message
	df2 := &c06DF{}
	err := l2.DecodeFromBytes(out, df2)
	verifAssert(err == nil, "written bytes decode without error")
	verifAssert(!df2.t, "written bytes decode without truncation flag")
	verifAssert(bytes.Equal(l2.LayerPayload(), pay), "same payload after the round trip")
	// fields that SerializeTo is documented to overwrite when fixing lengths
	// and computing checksums are compared after a second round instead
	verifAssert(verifDeepEqualExcept(&l, &l2, "(?i)checksum|length|len$|crc|fcs"), "same field values after serialize then decode")
	buf2 := gopacket.NewSerializeBuffer()
	pay2 := l2.LayerPayload()
	if len(wpay) == 0 {
		pay2 = nil
	}
	pb2, _ := buf2.AppendBytes(len(pay2))
	copy(pb2, pay2)
	if err := l2.SerializeTo(buf2, gopacket.SerializeOptions{FixLengths: true, ComputeChecksums: true}); err == nil {
		verifAssert(bytes.Equal(buf2.Bytes(), out), "writing the decoded layer once more reproduces the same bytes")
	}
	verifReached("roundtrip")
}

func verif_C06_rt_MLDv1MulticastListenerDoneMessage() {
	in := verifBytes("in", 28)
	n := verifInt("n", 0, 28)
	var l MLDv1MulticastListenerDoneMessage
	df := &c06DF{}
	if err := l.DecodeFromBytes(in[:n], df); err != nil {
		verifReached("decode-err")
		return
	}
	if df.t {
		verifReached("decode-truncated")
		return
	}
	verifReached("decoded")
	buf := gopacket.NewSerializeBuffer()
	pay := l.LayerPayload()
	wpay := pay
	pb, _ := buf.AppendBytes(len(wpay))
	copy(pb, wpay)
	if err := l.SerializeTo(buf, gopacket.SerializeOptions{FixLengths: true, ComputeChecksums: true}); err != nil {
		verifReached("serialize-refused")
		return
	}
	out := buf.Bytes()
	var l2 MLDv1MulticastListenerDoneMessage
	df2 := &c06DF{}
	err := l2.DecodeFromBytes(out, df2)
	verifAssert(err == nil, "written bytes decode without error")
	verifAssert(!df2.t, "written bytes decode without truncation flag")
	verifAssert(bytes.Equal(l2.LayerPayload(), pay), "same payload after the round trip")
	// fields that SerializeTo is documented to overwrite when fixing lengths
	// and computing checksums are compared after a second round instead
	verifAssert(verifDeepEqualExcept(&l, &l2, "(?i)checksum|length|len$|crc|fcs"), "same field values after serialize then decode")
	buf2 := gopacket.NewSerializeBuffer()
	pay2 := l2.LayerPayload()
	if len(wpay) == 0 {
		pay2 = nil
	}
	pb2, _ := buf2.AppendBytes(len(pay2))
	copy(pb2, pay2)
	if err := l2.SerializeTo(buf2, gopacket.SerializeOptions{FixLengths: true, ComputeChecksums: true}); err == nil {
		verifAssert(bytes.Equal(buf2.Bytes(), out), "writing the decoded layer once more reproduces the same bytes")
	}
	verifReached("roundtrip")
}

func verif_C06_rt_MLDv1MulticastListenerQueryMessage() {
	in := verifBytes("in", 28)
	n := verifInt("n", 0, 28)
	var l MLDv1MulticastListenerQueryMessage
	df := &c06DF{}
	if err := l.DecodeFromBytes(in[:n], df); err != nil {
		verifReached("decode-err")
		return
	}
	if df.t {
		verifReached("decode-truncated")
		return
	}
	verifReached("decoded")
	buf := gopacket.NewSerializeBuffer()
	pay := l.LayerPayload()
	wpay := pay
	pb, _ := buf.AppendBytes(len(wpay))
	copy(pb, wpay)
	if err := l.SerializeTo(buf, gopacket.SerializeOptions{FixLengths: true, ComputeChecksums: true}); err != nil {
		verifReached("serialize-refused")
		return
	}
	out := buf.Bytes()
	var l2 MLDv1MulticastListenerQueryMessage
	df2 := &c06DF{}
	err := l2.DecodeFromBytes(out, df2)
	verifAssert(err == nil, "written bytes decode without error")
	verifAssert(!df2.t, "written bytes decode without truncation flag")
	verifAssert(bytes.Equal(l2.LayerPayload(), pay), "same payload after the round trip")
	// fields that SerializeTo is documented to overwrite when fixing lengths
	// and computing checksums are compared after a second round instead
	verifAssert(verifDeepEqualExcept(&l, &l2, "(?i)checksum|length|len$|crc|fcs"), "same field values after serialize then decode")
	buf2 := gopacket.NewSerializeBuffer()
	pay2 := l2.LayerPayload()
	if len(wpay) == 0 {
		pay2 = nil
	}
	pb2, _ := buf2.AppendBytes(len(pay2))
	copy(pb2, pay2)
	if err := l2.SerializeTo(buf2, gopacket.SerializeOptions{FixLengths: true, ComputeChecksums: true}); err == nil {
		verifAssert(bytes.Equal(buf2.Bytes(), out), "writing the decoded layer once more reproduces the same bytes")
	}
	verifReached("roundtrip")
}

func verif_C06_rt_MLDv1MulticastListenerReportMessage() {
	in := verifBytes("in", 28)
	n := verifInt("n", 0, 28)
	var l MLDv1MulticastListenerReportMessage
	df := &c06DF{}
	if err := l.DecodeFromBytes(in[:n], df); err != nil {
		verifReached("decode-err")
		return
	}
	if df.t {
		verifReached("decode-truncated")
		return
	}
	verifReached("decoded")
	buf := gopacket.NewSerializeBuffer()
	pay := l.LayerPayload()
	wpay := pay
	pb, _ := buf.AppendBytes(len(wpay))
	copy(pb, wpay)
	if err := l.SerializeTo(buf, gopacket.SerializeOptions{FixLengths: true, ComputeChecksums: true}); err != nil {
		verifReached("serialize-refused")
		return
	}
	out := buf.Bytes()
	var l2 MLDv1MulticastListenerReportMessage
	df2 := &c06DF{}
	err := l2.DecodeFromBytes(out, df2)
	verifAssert(err == nil, "written bytes decode without error")
	verifAssert(!df2.t, "written bytes decode without truncation flag")
	verifAssert(bytes.Equal(l2.LayerPayload(), pay), "same payload after the round trip")
	// fields that SerializeTo is documented to overwrite when fixing lengths
	// and computing checksums are compared after a second round instead
	verifAssert(verifDeepEqualExcept(&l, &l2, "(?i)checksum|length|len$|crc|fcs"), "same field values after serialize then decode")
	buf2 := gopacket.NewSerializeBuffer()
	pay2 := l2.LayerPayload()
	if len(wpay) == 0 {
		pay2 = nil
	}
	pb2, _ := buf2.AppendBytes(len(pay2))
	copy(pb2, pay2)
	if err := l2.SerializeTo(buf2, gopacket.SerializeOptions{FixLengths: true, ComputeChecksums: true}); err == nil {
		verifAssert(bytes.Equal(buf2.Bytes(), out), "writing the decoded layer once more reproduces the same bytes")
	}
	verifReached("roundtrip")
}

func verif_C06_rt_MLDv2MulticastListenerQueryMessage() {
	in := verifBytes("in", 32)
	n := verifInt("n", 0, 32)
	var l MLDv2MulticastListenerQueryMessage
	df := &c06DF{}
	if err := l.DecodeFromBytes(in[:n], df); err != nil {
		verifReached("decode-err")
		return
	}
	if df.t {
		verifReached("decode-truncated")
		return
	}
	verifReached("decoded")
	buf := gopacket.NewSerializeBuffer()
	pay := l.LayerPayload()
	wpay := pay
	pb, _ := buf.AppendBytes(len(wpay))
	copy(pb, wpay)
	if err := l.SerializeTo(buf, gopacket.SerializeOptions{FixLengths: true, ComputeChecksums: true}); err != nil {
		verifReached("serialize-refused")
		return
	}
	out := buf.Bytes()
	var l2 MLDv2MulticastListenerQueryMessage
	df2 := &c06DF{}
	err := l2.DecodeFromBytes(out, df2)
	verifAssert(err == nil, "written bytes decode without error")
	verifAssert(!df2.t, "written bytes decode without truncation flag")
	verifAssert(bytes.Equal(l2.LayerPayload(), pay), "same payload after the round trip")
	// fields that SerializeTo is documented to overwrite when fixing lengths
	// and computing checksums are compared after a second round instead
	verifAssert(verifDeepEqualExcept(&l, &l2, "(?i)checksum|length|len$|crc|fcs"), "same field values after serialize then decode")
	buf2 := gopacket.NewSerializeBuffer()
	pay2 := l2.LayerPayload()
	if len(wpay) == 0 {
		pay2 = nil
	}
	pb2, _ := buf2.AppendBytes(len(pay2))
	copy(pb2, pay2)
	if err := l2.SerializeTo(buf2, gopacket.SerializeOptions{FixLengths: true, ComputeChecksums: true}); err == nil {
		verifAssert(bytes.Equal(buf2.Bytes(), out), "writing the decoded layer once more reproduces the same bytes")
	}
	verifReached("roundtrip")
}

func verif_C06_rt_MLDv2MulticastListenerReportMessage() {
	in := verifBytes("in", 24)
	n := verifInt("n", 0, 24)
	var l MLDv2MulticastListenerReportMessage
	df := &c06DF{}
	if err := l.DecodeFromBytes(in[:n], df); err != nil {
		verifReached("decode-err")
		return
	}
	if df.t {
		verifReached("decode-truncated")
		return
	}
	verifReached("decoded")
	buf := gopacket.NewSerializeBuffer()
	pay := l.LayerPayload()
	wpay := pay
	pb, _ := buf.AppendBytes(len(wpay))
	copy(pb, wpay)
	if err := l.SerializeTo(buf, gopacket.SerializeOptions{FixLengths: true, ComputeChecksums: true}); err != nil {
		verifReached("serialize-refused")
		return
	}
	out := buf.Bytes()
	var l2 MLDv2MulticastListenerReportMessage
	df2 := &c06DF{}
	err := l2.DecodeFromBytes(out, df2)
	verifAssert(err == nil, "written bytes decode without error")
	verifAssert(!df2.t, "written bytes decode without truncation flag")
	verifAssert(bytes.Equal(l2.LayerPayload(), pay), "same payload after the round trip")
	// fields that SerializeTo is documented to overwrite when fixing lengths
	// and computing checksums are compared after a second round instead
	verifAssert(verifDeepEqualExcept(&l, &l2, "(?i)checksum|length|len$|crc|fcs"), "same field values after serialize then decode")
	buf2 := gopacket.NewSerializeBuffer()
	pay2 := l2.LayerPayload()
	if len(wpay) == 0 {
		pay2 = nil
	}
	pb2, _ := buf2.AppendBytes(len(pay2))
	copy(pb2, pay2)
	if err := l2.SerializeTo(buf2, gopacket.SerializeOptions{FixLengths: true, ComputeChecksums: true}); err == nil {
		verifAssert(bytes.Equal(buf2.Bytes(), out), "writing the decoded layer once more reproduces the same bytes")
	}
	verifReached("roundtrip")
}

func verif_C06_rt_NTP() {
	in := verifBytes("in", 56)
	n := verifInt("n", 0, 56)
	var l NTP
	df := &c06DF{}
	if err := l.DecodeFromBytes(in[:n], df); err != nil {
		verifReached("decode-err")
		return
	}
	if df.t {
		verifReached("decode-truncated")
		return
	}
	verifReached("decoded")
	buf := gopacket.NewSerializeBuffer()
	pay := l.LayerPayload()
	wpay := pay
	pb, _ := buf.AppendBytes(len(wpay))
	copy(pb, wpay)
	if err := l.SerializeTo(buf, gopacket.SerializeOptions{FixLengths: true, ComputeChecksums: true}); err != nil {
		verifReached("serialize-refused")
		return
	}
	out := buf.Bytes()
	var l2 NTP
	df2 := &c06DF{}
	err := l2.DecodeFromBytes(out, df2)
	verifAssert(err == nil, "written bytes decode without error")
	verifAssert(!df2.t, "written bytes decode without truncation flag")
	verifAssert(bytes.Equal(l2.LayerPayload(), pay), "same payload after the round trip")
	// fields that SerializeTo is documented to overwrite when fixing lengths
	// and computing checksums are compared after a second round instead
	verifAssert(verifDeepEqualExcept(&l, &l2, "(?i)checksum|length|len$|crc|fcs"), "same field values after serialize then decode")
	buf2 := gopacket.NewSerializeBuffer()
	pay2 := l2.LayerPayload()
	if len(wpay) == 0 {
		pay2 = nil
	}
	pb2, _ := buf2.AppendBytes(len(pay2))
	copy(pb2, pay2)
	if err := l2.SerializeTo(buf2, gopacket.SerializeOptions{FixLengths: true, ComputeChecksums: true}); err == nil {
		verifAssert(bytes.Equal(buf2.Bytes(), out), "writing the decoded layer once more reproduces the same bytes")
	}
	verifReached("roundtrip")
}

func verif_C06_rt_RADIUS() {
	in := verifBytes("in", 28)
	n := verifInt("n", 0, 28)
	var l RADIUS
	df := &c06DF{}
	if err := l.DecodeFromBytes(in[:n], df); err != nil {
		verifReached("decode-err")
		return
	}
	if df.t {
		verifReached("decode-truncated")
		return
	}
	verifReached("decoded")
	buf := gopacket.NewSerializeBuffer()
	pay := l.LayerPayload()
	wpay := []byte(nil)
	pb, _ := buf.AppendBytes(len(wpay))
	copy(pb, wpay)
	if err := l.SerializeTo(buf, gopacket.SerializeOptions{FixLengths: true, ComputeChecksums: true}); err != nil {
		verifReached("serialize-refused")
		return
	}
	out := buf.Bytes()
	var l2 RADIUS
	df2 := &c06DF{}
	err := l2.DecodeFromBytes(out, df2)
	verifAssert(err == nil, "written bytes decode without error")
	verifAssert(!df2.t, "written bytes decode without truncation flag")
	verifAssert(bytes.Equal(l2.LayerPayload(), pay), "same payload after the round trip")
	// fields that SerializeTo is documented to overwrite when fixing lengths
	// and computing checksums are compared after a second round instead
	verifAssert(verifDeepEqualExcept(&l, &l2, "(?i)checksum|length|len$|crc|fcs"), "same field values after serialize then decode")
	buf2 := gopacket.NewSerializeBuffer()
	pay2 := l2.LayerPayload()
	if len(wpay) == 0 {
		pay2 = nil
	}
	pb2, _ := buf2.AppendBytes(len(pay2))
	copy(pb2, pay2)
	if err := l2.SerializeTo(buf2, gopacket.SerializeOptions{FixLengths: true, ComputeChecksums: true}); err == nil {
		verifAssert(bytes.Equal(buf2.Bytes(), out), "writing the decoded layer once more reproduces the same bytes")
	}
	verifReached("roundtrip")
}

func verif_C06_rt_RMCP() {
	in := verifBytes("in", 24)
	n := verifInt("n", 0, 24)
	var l RMCP
	df := &c06DF{}
	if err := l.DecodeFromBytes(in[:n], df); err != nil {
		verifReached("decode-err")
		return
	}
	if df.t {
		verifReached("decode-truncated")
		return
	}
	verifReached("decoded")
	buf := gopacket.NewSerializeBuffer()
	pay := l.LayerPayload()
	wpay := pay
	pb, _ := buf.AppendBytes(len(wpay))
	copy(pb, wpay)
	if err := l.SerializeTo(buf, gopacket.SerializeOptions{FixLengths: true, ComputeChecksums: true}); err != nil {
		verifReached("serialize-refused")
		return
	}
	out := buf.Bytes()
	var l2 RMCP
	df2 := &c06DF{}
	err := l2.DecodeFromBytes(out, df2)
	verifAssert(err == nil, "written bytes decode without error")
	verifAssert(!df2.t, "written bytes decode without truncation flag")
	verifAssert(bytes.Equal(l2.LayerPayload(), pay), "same payload after the round trip")
	// fields that SerializeTo is documented to overwrite when fixing lengths
	// and computing checksums are compared after a second round instead
	verifAssert(verifDeepEqualExcept(&l, &l2, "(?i)checksum|length|len$|crc|fcs"), "same field values after serialize then decode")
	buf2 := gopacket.NewSerializeBuffer()
	pay2 := l2.LayerPayload()
	if len(wpay) == 0 {
		pay2 = nil
	}
	pb2, _ := buf2.AppendBytes(len(pay2))
	copy(pb2, pay2)
	if err := l2.SerializeTo(buf2, gopacket.SerializeOptions{FixLengths: true, ComputeChecksums: true}); err == nil {
		verifAssert(bytes.Equal(buf2.Bytes(), out), "writing the decoded layer once more reproduces the same bytes")
	}
	verifReached("roundtrip")
}

func verif_C06_rt_SCTP() {
	in := verifBytes("in", 24)
	n := verifInt("n", 0, 24)
	var l SCTP
	df := &c06DF{}
	if err := l.DecodeFromBytes(in[:n], df); err != nil {
		verifReached("decode-err")
		return
	}
	if df.t {
		verifReached("decode-truncated")
		return
	}
	verifReached("decoded")
	buf := gopacket.NewSerializeBuffer()
	pay := l.LayerPayload()
	wpay := pay
	pb, _ := buf.AppendBytes(len(wpay))
	copy(pb, wpay)
	if err := l.SerializeTo(buf, gopacket.SerializeOptions{FixLengths: true, ComputeChecksums: true}); err != nil {
		verifReached("serialize-refused")
		return
	}
	out := buf.Bytes()
	var l2 SCTP
	df2 := &c06DF{}
	err := l2.DecodeFromBytes(out, df2)
	verifAssert(err == nil, "written bytes decode without error")
	verifAssert(!df2.t, "written bytes decode without truncation flag")
	verifAssert(bytes.Equal(l2.LayerPayload(), pay), "same payload after the round trip")
	// fields that SerializeTo is documented to overwrite when fixing lengths
	// and computing checksums are compared after a second round instead
	verifAssert(verifDeepEqualExcept(&l, &l2, "(?i)checksum|length|len$|crc|fcs"), "same field values after serialize then decode")
	buf2 := gopacket.NewSerializeBuffer()
	pay2 := l2.LayerPayload()
	if len(wpay) == 0 {
		pay2 = nil
	}
	pb2, _ := buf2.AppendBytes(len(pay2))
	copy(pb2, pay2)
	if err := l2.SerializeTo(buf2, gopacket.SerializeOptions{FixLengths: true, ComputeChecksums: true}); err == nil {
		verifAssert(bytes.Equal(buf2.Bytes(), out), "writing the decoded layer once more reproduces the same bytes")
	}
	verifReached("roundtrip")
}

func verif_C06_rt_SNAP() {
	in := verifBytes("in", 24)
	n := verifInt("n", 0, 24)
	var l SNAP
	df := &c06DF{}
	if err := l.DecodeFromBytes(in[:n], df); err != nil {
		verifReached("decode-err")
		return
	}
	if df.t {
		verifReached("decode-truncated")
		return
	}
	verifReached("decoded")
	buf := gopacket.NewSerializeBuffer()
	pay := l.LayerPayload()
	wpay := pay
	pb, _ := buf.AppendBytes(len(wpay))
	copy(pb, wpay)
	if err := l.SerializeTo(buf, gopacket.SerializeOptions{FixLengths: true, ComputeChecksums: true}); err != nil {
		verifReached("serialize-refused")
		return
	}
	out := buf.Bytes()
	var l2 SNAP
	df2 := &c06DF{}
	err := l2.DecodeFromBytes(out, df2)
	verifAssert(err == nil, "written bytes decode without error")
	verifAssert(!df2.t, "written bytes decode without truncation flag")
	verifAssert(bytes.Equal(l2.LayerPayload(), pay), "same payload after the round trip")
	// fields that SerializeTo is documented to overwrite when fixing lengths
	// and computing checksums are compared after a second round instead
	verifAssert(verifDeepEqualExcept(&l, &l2, "(?i)checksum|length|len$|crc|fcs"), "same field values after serialize then decode")
	buf2 := gopacket.NewSerializeBuffer()
	pay2 := l2.LayerPayload()
	if len(wpay) == 0 {
		pay2 = nil
	}
	pb2, _ := buf2.AppendBytes(len(pay2))
	copy(pb2, pay2)
	if err := l2.SerializeTo(buf2, gopacket.SerializeOptions{FixLengths: true, ComputeChecksums: true}); err == nil {
		verifAssert(bytes.Equal(buf2.Bytes(), out), "writing the decoded layer once more reproduces the same bytes")
	}
	verifReached("roundtrip")
}

func verif_C06_rt_STP() {
	in := verifBytes("in", 43)
	n := verifInt("n", 0, 43)
	var l STP
	df := &c06DF{}
	if err := l.DecodeFromBytes(in[:n], df); err != nil {
		verifReached("decode-err")
		return
	}
	if df.t {
		verifReached("decode-truncated")
		return
	}
	verifReached("decoded")
	buf := gopacket.NewSerializeBuffer()
	pay := l.LayerPayload()
	wpay := pay
	pb, _ := buf.AppendBytes(len(wpay))
	copy(pb, wpay)
	if err := l.SerializeTo(buf, gopacket.SerializeOptions{FixLengths: true, ComputeChecksums: true}); err != nil {
		verifReached("serialize-refused")
		return
	}
	out := buf.Bytes()
	var l2 STP
	df2 := &c06DF{}
	err := l2.DecodeFromBytes(out, df2)
	verifAssert(err == nil, "written bytes decode without error")
	verifAssert(!df2.t, "written bytes decode without truncation flag")
	verifAssert(bytes.Equal(l2.LayerPayload(), pay), "same payload after the round trip")
	// fields that SerializeTo is documented to overwrite when fixing lengths
	// and computing checksums are compared after a second round instead
	verifAssert(verifDeepEqualExcept(&l, &l2, "(?i)checksum|length|len$|crc|fcs"), "same field values after serialize then decode")
	buf2 := gopacket.NewSerializeBuffer()
	pay2 := l2.LayerPayload()
	if len(wpay) == 0 {
		pay2 = nil
	}
	pb2, _ := buf2.AppendBytes(len(pay2))
	copy(pb2, pay2)
	if err := l2.SerializeTo(buf2, gopacket.SerializeOptions{FixLengths: true, ComputeChecksums: true}); err == nil {
		verifAssert(bytes.Equal(buf2.Bytes(), out), "writing the decoded layer once more reproduces the same bytes")
	}
	verifReached("roundtrip")
}

func verif_C06_rt_TCP() {
	in := verifBytes("in", 28)
	n := verifInt("n", 0, 28)
	var l TCP
	df := &c06DF{}
	if err := l.DecodeFromBytes(in[:n], df); err != nil {
		verifReached("decode-err")
		return
	}
	if df.t {
		verifReached("decode-truncated")
		return
	}
	verifReached("decoded")
	l.SetNetworkLayerForChecksum(c06Net4)
	buf := gopacket.NewSerializeBuffer()
	pay := l.LayerPayload()
	wpay := pay
	pb, _ := buf.AppendBytes(len(wpay))
	copy(pb, wpay)
	if err := l.SerializeTo(buf, gopacket.SerializeOptions{FixLengths: true, ComputeChecksums: true}); err != nil {
		verifReached("serialize-refused")
		return
	}
	out := buf.Bytes()
	var l2 TCP
	df2 := &c06DF{}
	err := l2.DecodeFromBytes(out, df2)
	verifAssert(err == nil, "written bytes decode without error")
	verifAssert(!df2.t, "written bytes decode without truncation flag")
	verifAssert(bytes.Equal(l2.LayerPayload(), pay), "same payload after the round trip")
	// fields that SerializeTo is documented to overwrite when fixing lengths
	// and computing checksums are compared after a second round instead
	verifAssert(verifDeepEqualExcept(&l, &l2, "(?i)checksum|length|len$|crc|fcs"), "same field values after serialize then decode")
	l2.SetNetworkLayerForChecksum(c06Net4)
	buf2 := gopacket.NewSerializeBuffer()
	pay2 := l2.LayerPayload()
	if len(wpay) == 0 {
		pay2 = nil
	}
	pb2, _ := buf2.AppendBytes(len(pay2))
	copy(pb2, pay2)
	if err := l2.SerializeTo(buf2, gopacket.SerializeOptions{FixLengths: true, ComputeChecksums: true}); err == nil {
		verifAssert(bytes.Equal(buf2.Bytes(), out), "writing the decoded layer once more reproduces the same bytes")
	}
	verifReached("roundtrip")
}

func verif_C06_rt_TLS() {
	in := verifBytes("in", 24)
	n := verifInt("n", 0, 24)
	var l TLS
	df := &c06DF{}
	if err := l.DecodeFromBytes(in[:n], df); err != nil {
		verifReached("decode-err")
		return
	}
	if df.t {
		verifReached("decode-truncated")
		return
	}
	verifReached("decoded")
	buf := gopacket.NewSerializeBuffer()
	pay := l.LayerPayload()
	wpay := pay
	pb, _ := buf.AppendBytes(len(wpay))
	copy(pb, wpay)
	if err := l.SerializeTo(buf, gopacket.SerializeOptions{FixLengths: true, ComputeChecksums: true}); err != nil {
		verifReached("serialize-refused")
		return
	}
	out := buf.Bytes()
	var l2 TLS
	df2 := &c06DF{}
	err := l2.DecodeFromBytes(out, df2)
	verifAssert(err == nil, "written bytes decode without error")
	verifAssert(!df2.t, "written bytes decode without truncation flag")
	verifAssert(bytes.Equal(l2.LayerPayload(), pay), "same payload after the round trip")
	// fields that SerializeTo is documented to overwrite when fixing lengths
	// and computing checksums are compared after a second round instead
	verifAssert(verifDeepEqualExcept(&l, &l2, "(?i)checksum|length|len$|crc|fcs"), "same field values after serialize then decode")
	buf2 := gopacket.NewSerializeBuffer()
	pay2 := l2.LayerPayload()
	if len(wpay) == 0 {
		pay2 = nil
	}
	pb2, _ := buf2.AppendBytes(len(pay2))
	copy(pb2, pay2)
	if err := l2.SerializeTo(buf2, gopacket.SerializeOptions{FixLengths: true, ComputeChecksums: true}); err == nil {
		verifAssert(bytes.Equal(buf2.Bytes(), out), "writing the decoded layer once more reproduces the same bytes")
	}
	verifReached("roundtrip")
}

func verif_C06_rt_UDP() {
	in := verifBytes("in", 14)
	n := verifInt("n", 0, 14)
	var l UDP
	df := &c06DF{}
	if err := l.DecodeFromBytes(in[:n], df); err != nil {
		verifReached("decode-err")
		return
	}
	if df.t {
		verifReached("decode-truncated")
		return
	}
	verifReached("decoded")
	l.SetNetworkLayerForChecksum(c06Net4)
	buf := gopacket.NewSerializeBuffer()
	pay := l.LayerPayload()
	wpay := pay
	pb, _ := buf.AppendBytes(len(wpay))
	copy(pb, wpay)
	if err := l.SerializeTo(buf, gopacket.SerializeOptions{FixLengths: true, ComputeChecksums: true}); err != nil {
		verifReached("serialize-refused")
		return
	}
	out := buf.Bytes()
	var l2 UDP
	df2 := &c06DF{}
	err := l2.DecodeFromBytes(out, df2)
	verifAssert(err == nil, "written bytes decode without error")
	verifAssert(!df2.t, "written bytes decode without truncation flag")
	verifAssert(bytes.Equal(l2.LayerPayload(), pay), "same payload after the round trip")
	// fields that SerializeTo is documented to overwrite when fixing lengths
	// and computing checksums are compared after a second round instead
	verifAssert(verifDeepEqualExcept(&l, &l2, "(?i)checksum|length|len$|crc|fcs"), "same field values after serialize then decode")
	l2.SetNetworkLayerForChecksum(c06Net4)
	buf2 := gopacket.NewSerializeBuffer()
	pay2 := l2.LayerPayload()
	if len(wpay) == 0 {
		pay2 = nil
	}
	pb2, _ := buf2.AppendBytes(len(pay2))
	copy(pb2, pay2)
	if err := l2.SerializeTo(buf2, gopacket.SerializeOptions{FixLengths: true, ComputeChecksums: true}); err == nil {
		verifAssert(bytes.Equal(buf2.Bytes(), out), "writing the decoded layer once more reproduces the same bytes")
	}
	verifReached("roundtrip")
}

func verif_C06_rt_VXLAN() {
	in := verifBytes("in", 24)
	n := verifInt("n", 0, 24)
	var l VXLAN
	df := &c06DF{}
	if err := l.DecodeFromBytes(in[:n], df); err != nil {
		verifReached("decode-err")
		return
	}
	if df.t {
		verifReached("decode-truncated")
		return
	}
	verifReached("decoded")
	buf := gopacket.NewSerializeBuffer()
	pay := l.LayerPayload()
	wpay := pay
	pb, _ := buf.AppendBytes(len(wpay))
	copy(pb, wpay)
	if err := l.SerializeTo(buf, gopacket.SerializeOptions{FixLengths: true, ComputeChecksums: true}); err != nil {
		verifReached("serialize-refused")
		return
	}
	out := buf.Bytes()
	var l2 VXLAN
	df2 := &c06DF{}
	err := l2.DecodeFromBytes(out, df2)
	verifAssert(err == nil, "written bytes decode without error")
	verifAssert(!df2.t, "written bytes decode without truncation flag")
	verifAssert(bytes.Equal(l2.LayerPayload(), pay), "same payload after the round trip")
	// fields that SerializeTo is documented to overwrite when fixing lengths
	// and computing checksums are compared after a second round instead
	verifAssert(verifDeepEqualExcept(&l, &l2, "(?i)checksum|length|len$|crc|fcs"), "same field values after serialize then decode")
	buf2 := gopacket.NewSerializeBuffer()
	pay2 := l2.LayerPayload()
	if len(wpay) == 0 {
		pay2 = nil
	}
	pb2, _ := buf2.AppendBytes(len(pay2))
	copy(pb2, pay2)
	if err := l2.SerializeTo(buf2, gopacket.SerializeOptions{FixLengths: true, ComputeChecksums: true}); err == nil {
		verifAssert(bytes.Equal(buf2.Bytes(), out), "writing the decoded layer once more reproduces the same bytes")
	}
	verifReached("roundtrip")
}
