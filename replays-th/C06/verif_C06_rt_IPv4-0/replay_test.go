package layers

import (
	"fmt"
	"os"
	rtdebug "runtime/debug"
	"testing"
)

var verifUnits = map[string]func(){
	"verif_C06_rt_AGUEVar0": verif_C06_rt_AGUEVar0,
	"verif_C06_rt_AGUEVar1": verif_C06_rt_AGUEVar1,
	"verif_C06_rt_APSP": verif_C06_rt_APSP,
	"verif_C06_rt_ARP": verif_C06_rt_ARP,
	"verif_C06_rt_ASF": verif_C06_rt_ASF,
	"verif_C06_rt_ASFPresencePong": verif_C06_rt_ASFPresencePong,
	"verif_C06_rt_BFD": verif_C06_rt_BFD,
	"verif_C06_rt_DHCPv4": verif_C06_rt_DHCPv4,
	"verif_C06_rt_DHCPv6": verif_C06_rt_DHCPv6,
	"verif_C06_rt_Diameter": verif_C06_rt_Diameter,
	"verif_C06_rt_Dot11InformationElement": verif_C06_rt_Dot11InformationElement,
	"verif_C06_rt_Dot11MgmtAssociationReq": verif_C06_rt_Dot11MgmtAssociationReq,
	"verif_C06_rt_Dot11MgmtAssociationResp": verif_C06_rt_Dot11MgmtAssociationResp,
	"verif_C06_rt_Dot11MgmtAuthentication": verif_C06_rt_Dot11MgmtAuthentication,
	"verif_C06_rt_Dot11MgmtBeacon": verif_C06_rt_Dot11MgmtBeacon,
	"verif_C06_rt_Dot11MgmtDeauthentication": verif_C06_rt_Dot11MgmtDeauthentication,
	"verif_C06_rt_Dot11MgmtDisassociation": verif_C06_rt_Dot11MgmtDisassociation,
	"verif_C06_rt_Dot11MgmtProbeResp": verif_C06_rt_Dot11MgmtProbeResp,
	"verif_C06_rt_Dot11MgmtReassociationReq": verif_C06_rt_Dot11MgmtReassociationReq,
	"verif_C06_rt_Dot1Q": verif_C06_rt_Dot1Q,
	"verif_C06_rt_EAP": verif_C06_rt_EAP,
	"verif_C06_rt_EAPOL": verif_C06_rt_EAPOL,
	"verif_C06_rt_EAPOLKey": verif_C06_rt_EAPOLKey,
	"verif_C06_rt_ERSPANII": verif_C06_rt_ERSPANII,
	"verif_C06_rt_Ethernet": verif_C06_rt_Ethernet,
	"verif_C06_rt_GRE": verif_C06_rt_GRE,
	"verif_C06_rt_GTPv1U": verif_C06_rt_GTPv1U,
	"verif_C06_rt_Geneve": verif_C06_rt_Geneve,
	"verif_C06_rt_ICMPv4": verif_C06_rt_ICMPv4,
	"verif_C06_rt_ICMPv6": verif_C06_rt_ICMPv6,
	"verif_C06_rt_ICMPv6Echo": verif_C06_rt_ICMPv6Echo,
	"verif_C06_rt_ICMPv6NeighborAdvertisement": verif_C06_rt_ICMPv6NeighborAdvertisement,
	"verif_C06_rt_ICMPv6NeighborSolicitation": verif_C06_rt_ICMPv6NeighborSolicitation,
	"verif_C06_rt_ICMPv6Redirect": verif_C06_rt_ICMPv6Redirect,
	"verif_C06_rt_ICMPv6RouterAdvertisement": verif_C06_rt_ICMPv6RouterAdvertisement,
	"verif_C06_rt_ICMPv6RouterSolicitation": verif_C06_rt_ICMPv6RouterSolicitation,
	"verif_C06_rt_IPv4": verif_C06_rt_IPv4,
	"verif_C06_rt_IPv6": verif_C06_rt_IPv6,
	"verif_C06_rt_IPv6Destination": verif_C06_rt_IPv6Destination,
	"verif_C06_rt_IPv6HopByHop": verif_C06_rt_IPv6HopByHop,
	"verif_C06_rt_LLC": verif_C06_rt_LLC,
	"verif_C06_rt_Loopback": verif_C06_rt_Loopback,
	"verif_C06_rt_MDP": verif_C06_rt_MDP,
	"verif_C06_rt_MLDv1Message": verif_C06_rt_MLDv1Message,
	"verif_C06_rt_MLDv1MulticastListenerDoneMessage": verif_C06_rt_MLDv1MulticastListenerDoneMessage,
	"verif_C06_rt_MLDv1MulticastListenerQueryMessage": verif_C06_rt_MLDv1MulticastListenerQueryMessage,
	"verif_C06_rt_MLDv1MulticastListenerReportMessage": verif_C06_rt_MLDv1MulticastListenerReportMessage,
	"verif_C06_rt_MLDv2MulticastListenerQueryMessage": verif_C06_rt_MLDv2MulticastListenerQueryMessage,
	"verif_C06_rt_MLDv2MulticastListenerReportMessage": verif_C06_rt_MLDv2MulticastListenerReportMessage,
	"verif_C06_rt_NTP": verif_C06_rt_NTP,
	"verif_C06_rt_RADIUS": verif_C06_rt_RADIUS,
	"verif_C06_rt_RMCP": verif_C06_rt_RMCP,
	"verif_C06_rt_SCTP": verif_C06_rt_SCTP,
	"verif_C06_rt_SNAP": verif_C06_rt_SNAP,
	"verif_C06_rt_STP": verif_C06_rt_STP,
	"verif_C06_rt_TCP": verif_C06_rt_TCP,
	"verif_C06_rt_TLS": verif_C06_rt_TLS,
	"verif_C06_rt_UDP": verif_C06_rt_UDP,
	"verif_C06_rt_VXLAN": verif_C06_rt_VXLAN,
}

func TestVerifReplay(t *testing.T) {
	defer func() {
		if r := recover(); r != nil {
			fmt.Printf("REPLAY-PANIC: %v\n", r)
			rtdebug.PrintStack()
			return
		}
	}()
	verifUnits[os.Getenv("VERIF_REPLAY_UNIT")]()
	fmt.Println("REPLAY-NO-VIOLATION")
}
