package layers

// Native implementations of the engine intrinsics for counterexample replay:
// every "symbolic" value is read from the solver's model.

import (
	"github.com/gopacket/gopacket"
	"encoding/json"
	"fmt"
	"os"
	"reflect"
	"regexp"
	"runtime"
	"strings"
	"time"
)

var verifVals = map[string]uint64{}
var verifChoices []int
var verifCounts = map[string]int{}

func init() {
	p := os.Getenv("VERIF_REPLAY_INPUTS")
	if p == "" {
		return
	}
	b, err := os.ReadFile(p)
	if err != nil {
		panic(err)
	}
	var in struct {
		Inputs  map[string]uint64 `json:"inputs"`
		Choices []int             `json:"choices"`
	}
	if err := json.Unmarshal(b, &in); err != nil {
		panic(err)
	}
	verifVals = in.Inputs
	verifChoices = in.Choices
}

func verifFresh(base string) string {
	n := verifCounts[base]
	verifCounts[base] = n + 1
	if n == 0 {
		return base
	}
	return fmt.Sprintf("%s#%d", base, n)
}

func verifBytes(name string, n int) []byte {
	nm := verifFresh(name)
	b := make([]byte, n)
	for i := range b {
		b[i] = byte(verifVals[fmt.Sprintf("%s[%d]", nm, i)])
	}
	return b
}
func verifU8(name string) uint8   { return uint8(verifVals[verifFresh(name)]) }
func verifU16(name string) uint16 { return uint16(verifVals[verifFresh(name)]) }
func verifU32(name string) uint32 { return uint32(verifVals[verifFresh(name)]) }
func verifU64(name string) uint64 { return verifVals[verifFresh(name)] }
func verifInt(name string, lo, hi int) int {
	raw := verifVals[verifFresh(name)]
	if hi >= lo && uint64(hi)-uint64(lo) < 1<<32 {
		return lo + int(raw)
	}
	return int(raw)
}
func verifBool(name string) bool { return verifVals[verifFresh(name)] != 0 }
func verifAssume(c bool) {
	if !c {
		panic("VERIF-ASSUME-FAILED")
	}
}
func verifAssert(c bool, label string) {
	if !c {
		panic("VERIF-ASSERT: " + label)
	}
}
func verifReached(label string)                         {}
func verifBarrier(on bool)                              {}
func verifInput(b []byte)                               {}
func verifJoin()                                        { time.Sleep(50 * time.Millisecond) }
func verifSettle()                                      { time.Sleep(30 * time.Millisecond) }
func verifFreeze(root interface{})                      {}
func verifPreemptBound(n int)                           {}
func verifPoolND(on bool)                               {}
func verifSameBacking(a, b []byte) bool                 { return cap(a) > 0 && cap(b) > 0 && &a[:cap(a)][cap(a)-1] == &b[:cap(b)][cap(b)-1] }
func verifReachable(root interface{}, b []byte) bool    { return false }

// verifRender: the real renderer (String, Dump and Go syntax of the layer)
func verifRender(x interface{}) {
	if l, ok := x.(gopacket.Layer); ok {
		_ = gopacket.LayerString(l)
		_ = gopacket.LayerDump(l)
		return
	}
	_ = fmt.Sprintf("%v", x)
}
func verifBaseWrites() int                              { return 0 }
func verifYield()                                       { runtime.Gosched() }
func verifAnd(a, b bool) bool                           { return a && b }
func verifOr(a, b bool) bool                            { return a || b }
func verifImplies(a, b bool) bool                       { return !a || b }
func verifIte(c bool, a, b int) int {
	if c {
		return a
	}
	return b
}
func verifParam(name string) int {
	var v int
	for _, kv := range strings.Split(os.Getenv("VERIF_REPLAY_PARAMS"), ",") {
		p := strings.SplitN(kv, "=", 2)
		if len(p) == 2 && p[0] == name {
			fmt.Sscanf(p[1], "%d", &v)
		}
	}
	return v
}
func verifChoose(n int) int {
	if len(verifChoices) == 0 {
		return 0
	}
	c := verifChoices[0]
	verifChoices = verifChoices[1:]
	return c
}

// verifDeepEqual: exported fields only, slices by content (nil == empty),
// funcs/maps/chans ignored - the same rules as the engine's intrinsic.
func verifDeepEqual(a, b interface{}) bool {
	if a == nil || b == nil {
		return a == nil && b == nil
	}
	va, vb := reflect.ValueOf(a), reflect.ValueOf(b)
	if va.Type() != vb.Type() {
		return false
	}
	return verifDeq(va, vb, 0)
}

var verifDeqSkip *regexp.Regexp

func verifDeepEqualExcept(a, b interface{}, skip string) bool {
	verifDeqSkip = regexp.MustCompile(skip)
	defer func() { verifDeqSkip = nil }()
	return verifDeepEqual(a, b)
}

func verifDeq(a, b reflect.Value, depth int) bool {
	if depth > 8 {
		return true
	}
	switch a.Kind() {
	case reflect.Bool:
		return a.Bool() == b.Bool()
	case reflect.Int, reflect.Int8, reflect.Int16, reflect.Int32, reflect.Int64:
		return a.Int() == b.Int()
	case reflect.Uint, reflect.Uint8, reflect.Uint16, reflect.Uint32, reflect.Uint64, reflect.Uintptr:
		return a.Uint() == b.Uint()
	case reflect.Float32, reflect.Float64:
		return a.Float() == b.Float()
	case reflect.String:
		return a.String() == b.String()
	case reflect.Ptr:
		if a.IsNil() || b.IsNil() {
			return a.IsNil() && b.IsNil()
		}
		return verifDeq(a.Elem(), b.Elem(), depth+1)
	case reflect.Slice:
		if a.Len() != b.Len() {
			return false
		}
		for i := 0; i < a.Len(); i++ {
			if !verifDeq(a.Index(i), b.Index(i), depth+1) {
				return false
			}
		}
		return true
	case reflect.Array:
		for i := 0; i < a.Len(); i++ {
			if !verifDeq(a.Index(i), b.Index(i), depth+1) {
				return false
			}
		}
		return true
	case reflect.Struct:
		t := a.Type()
		for i := 0; i < t.NumField(); i++ {
			f := t.Field(i)
			if f.PkgPath != "" && !f.Anonymous {
				continue
			}
			if f.Type.Name() == "BaseLayer" {
				continue
			}
			if verifDeqSkip != nil && verifDeqSkip.MatchString(f.Name) {
				continue
			}
			if !verifDeq(a.Field(i), b.Field(i), depth+1) {
				return false
			}
		}
		return true
	case reflect.Interface:
		if a.IsNil() || b.IsNil() {
			return a.IsNil() && b.IsNil()
		}
		if a.Elem().Type() != b.Elem().Type() {
			return false
		}
		return verifDeq(a.Elem(), b.Elem(), depth+1)
	}
	return true
}
