package layers

import "github.com/gopacket/gopacket"

var _ = gopacket.NilDecodeFeedback

func verif_C05_stale_AGUEVar0() {
	a := verifBytes("a", 36)
	na := verifInt("na", 0, 36)
	b := verifBytes("b", 36)
	nb := verifInt("nb", 0, 36)
	var l, f AGUEVar0
	_ = l.DecodeFromBytes(a[:na], gopacket.NilDecodeFeedback)
	d1, d2 := &c05DF{}, &c05DF{}
	e1 := l.DecodeFromBytes(b[:nb], d1)
	e2 := f.DecodeFromBytes(b[:nb], d2)
	verifAssert((e1 == nil) == (e2 == nil), "same outcome as decoding into a fresh object")
	if e1 == nil && e2 == nil {
		verifAssert(d1.t == d2.t, "same truncation flag as a fresh object")
		verifAssert(verifDeepEqual(&l, &f), "same field values as decoding into a fresh object")
	}
	verifReached("stale")
}

func verif_C05_stale_AGUEVar1() {
	a := verifBytes("a", 36)
	na := verifInt("na", 0, 36)
	b := verifBytes("b", 36)
	nb := verifInt("nb", 0, 36)
	var l, f AGUEVar1
	_ = l.DecodeFromBytes(a[:na], gopacket.NilDecodeFeedback)
	d1, d2 := &c05DF{}, &c05DF{}
	e1 := l.DecodeFromBytes(b[:nb], d1)
	e2 := f.DecodeFromBytes(b[:nb], d2)
	verifAssert((e1 == nil) == (e2 == nil), "same outcome as decoding into a fresh object")
	if e1 == nil && e2 == nil {
		verifAssert(d1.t == d2.t, "same truncation flag as a fresh object")
		verifAssert(verifDeepEqual(&l, &f), "same field values as decoding into a fresh object")
	}
	verifReached("stale")
}

func verif_C05_stale_APSP() {
	a := verifBytes("a", 36)
	na := verifInt("na", 0, 36)
	b := verifBytes("b", 36)
	nb := verifInt("nb", 0, 36)
	var l, f APSP
	_ = l.DecodeFromBytes(a[:na], gopacket.NilDecodeFeedback)
	d1, d2 := &c05DF{}, &c05DF{}
	e1 := l.DecodeFromBytes(b[:nb], d1)
	e2 := f.DecodeFromBytes(b[:nb], d2)
	verifAssert((e1 == nil) == (e2 == nil), "same outcome as decoding into a fresh object")
	if e1 == nil && e2 == nil {
		verifAssert(d1.t == d2.t, "same truncation flag as a fresh object")
		verifAssert(verifDeepEqual(&l, &f), "same field values as decoding into a fresh object")
	}
	verifReached("stale")
}

func verif_C05_stale_ARP() {
	a := verifBytes("a", 36)
	na := verifInt("na", 0, 36)
	b := verifBytes("b", 36)
	nb := verifInt("nb", 0, 36)
	var l, f ARP
	_ = l.DecodeFromBytes(a[:na], gopacket.NilDecodeFeedback)
	d1, d2 := &c05DF{}, &c05DF{}
	e1 := l.DecodeFromBytes(b[:nb], d1)
	e2 := f.DecodeFromBytes(b[:nb], d2)
	verifAssert((e1 == nil) == (e2 == nil), "same outcome as decoding into a fresh object")
	if e1 == nil && e2 == nil {
		verifAssert(d1.t == d2.t, "same truncation flag as a fresh object")
		verifAssert(verifDeepEqual(&l, &f), "same field values as decoding into a fresh object")
	}
	verifReached("stale")
}

func verif_C05_stale2_ARP() {
	a := verifBytes("a", 36)
	na := verifInt("na", 9, 36)
	b := verifBytes("b", 9)
	nb := verifInt("nb", 8, 9)
	var l, f ARP
	if l.DecodeFromBytes(a[:na], gopacket.NilDecodeFeedback) != nil {
		verifReached("first-rejected")
	}
	d1, d2 := &c05DF{}, &c05DF{}
	e1 := l.DecodeFromBytes(b[:nb], d1)
	e2 := f.DecodeFromBytes(b[:nb], d2)
	verifAssert((e1 == nil) == (e2 == nil), "same outcome as decoding into a fresh object")
	if e1 == nil && e2 == nil {
		verifAssert(d1.t == d2.t, "same truncation flag as a fresh object")
		verifAssert(verifDeepEqual(&l, &f), "same field values as decoding into a fresh object")
	}
	verifReached("stale")
}

func verif_C05_stale_ASF() {
	a := verifBytes("a", 36)
	na := verifInt("na", 0, 36)
	b := verifBytes("b", 36)
	nb := verifInt("nb", 0, 36)
	var l, f ASF
	_ = l.DecodeFromBytes(a[:na], gopacket.NilDecodeFeedback)
	d1, d2 := &c05DF{}, &c05DF{}
	e1 := l.DecodeFromBytes(b[:nb], d1)
	e2 := f.DecodeFromBytes(b[:nb], d2)
	verifAssert((e1 == nil) == (e2 == nil), "same outcome as decoding into a fresh object")
	if e1 == nil && e2 == nil {
		verifAssert(d1.t == d2.t, "same truncation flag as a fresh object")
		verifAssert(verifDeepEqual(&l, &f), "same field values as decoding into a fresh object")
	}
	verifReached("stale")
}

func verif_C05_stale_ASFPresencePong() {
	a := verifBytes("a", 36)
	na := verifInt("na", 0, 36)
	b := verifBytes("b", 36)
	nb := verifInt("nb", 0, 36)
	var l, f ASFPresencePong
	_ = l.DecodeFromBytes(a[:na], gopacket.NilDecodeFeedback)
	d1, d2 := &c05DF{}, &c05DF{}
	e1 := l.DecodeFromBytes(b[:nb], d1)
	e2 := f.DecodeFromBytes(b[:nb], d2)
	verifAssert((e1 == nil) == (e2 == nil), "same outcome as decoding into a fresh object")
	if e1 == nil && e2 == nil {
		verifAssert(d1.t == d2.t, "same truncation flag as a fresh object")
		verifAssert(verifDeepEqual(&l, &f), "same field values as decoding into a fresh object")
	}
	verifReached("stale")
}

func verif_C05_stale_BFD() {
	a := verifBytes("a", 36)
	na := verifInt("na", 0, 36)
	b := verifBytes("b", 36)
	nb := verifInt("nb", 0, 36)
	var l, f BFD
	_ = l.DecodeFromBytes(a[:na], gopacket.NilDecodeFeedback)
	d1, d2 := &c05DF{}, &c05DF{}
	e1 := l.DecodeFromBytes(b[:nb], d1)
	e2 := f.DecodeFromBytes(b[:nb], d2)
	verifAssert((e1 == nil) == (e2 == nil), "same outcome as decoding into a fresh object")
	if e1 == nil && e2 == nil {
		verifAssert(d1.t == d2.t, "same truncation flag as a fresh object")
		verifAssert(verifDeepEqual(&l, &f), "same field values as decoding into a fresh object")
	}
	verifReached("stale")
}

func verif_C05_stale_CIP() {
	a := verifBytes("a", 36)
	na := verifInt("na", 0, 36)
	b := verifBytes("b", 36)
	nb := verifInt("nb", 0, 36)
	var l, f CIP
	_ = l.DecodeFromBytes(a[:na], gopacket.NilDecodeFeedback)
	d1, d2 := &c05DF{}, &c05DF{}
	e1 := l.DecodeFromBytes(b[:nb], d1)
	e2 := f.DecodeFromBytes(b[:nb], d2)
	verifAssert((e1 == nil) == (e2 == nil), "same outcome as decoding into a fresh object")
	if e1 == nil && e2 == nil {
		verifAssert(d1.t == d2.t, "same truncation flag as a fresh object")
		verifAssert(verifDeepEqual(&l, &f), "same field values as decoding into a fresh object")
	}
	verifReached("stale")
}

func verif_C05_stale_DHCPv4() {
	a := verifBytes("a", 36)
	na := verifInt("na", 0, 36)
	b := verifBytes("b", 36)
	nb := verifInt("nb", 0, 36)
	var l, f DHCPv4
	_ = l.DecodeFromBytes(a[:na], gopacket.NilDecodeFeedback)
	d1, d2 := &c05DF{}, &c05DF{}
	e1 := l.DecodeFromBytes(b[:nb], d1)
	e2 := f.DecodeFromBytes(b[:nb], d2)
	verifAssert((e1 == nil) == (e2 == nil), "same outcome as decoding into a fresh object")
	if e1 == nil && e2 == nil {
		verifAssert(d1.t == d2.t, "same truncation flag as a fresh object")
		verifAssert(verifDeepEqual(&l, &f), "same field values as decoding into a fresh object")
	}
	verifReached("stale")
}

func verif_C05_stale_DHCPv6() {
	a := verifBytes("a", 36)
	na := verifInt("na", 0, 36)
	b := verifBytes("b", 36)
	nb := verifInt("nb", 0, 36)
	var l, f DHCPv6
	_ = l.DecodeFromBytes(a[:na], gopacket.NilDecodeFeedback)
	d1, d2 := &c05DF{}, &c05DF{}
	e1 := l.DecodeFromBytes(b[:nb], d1)
	e2 := f.DecodeFromBytes(b[:nb], d2)
	verifAssert((e1 == nil) == (e2 == nil), "same outcome as decoding into a fresh object")
	if e1 == nil && e2 == nil {
		verifAssert(d1.t == d2.t, "same truncation flag as a fresh object")
		verifAssert(verifDeepEqual(&l, &f), "same field values as decoding into a fresh object")
	}
	verifReached("stale")
}

func verif_C05_stale_DNS() {
	a := verifBytes("a", 36)
	na := verifInt("na", 0, 36)
	b := verifBytes("b", 36)
	nb := verifInt("nb", 0, 36)
	var l, f DNS
	_ = l.DecodeFromBytes(a[:na], gopacket.NilDecodeFeedback)
	d1, d2 := &c05DF{}, &c05DF{}
	e1 := l.DecodeFromBytes(b[:nb], d1)
	e2 := f.DecodeFromBytes(b[:nb], d2)
	verifAssert((e1 == nil) == (e2 == nil), "same outcome as decoding into a fresh object")
	if e1 == nil && e2 == nil {
		verifAssert(d1.t == d2.t, "same truncation flag as a fresh object")
		verifAssert(verifDeepEqual(&l, &f), "same field values as decoding into a fresh object")
	}
	verifReached("stale")
}

func verif_C05_stale_Diameter() {
	a := verifBytes("a", 36)
	na := verifInt("na", 0, 36)
	b := verifBytes("b", 36)
	nb := verifInt("nb", 0, 36)
	var l, f Diameter
	_ = l.DecodeFromBytes(a[:na], gopacket.NilDecodeFeedback)
	d1, d2 := &c05DF{}, &c05DF{}
	e1 := l.DecodeFromBytes(b[:nb], d1)
	e2 := f.DecodeFromBytes(b[:nb], d2)
	verifAssert((e1 == nil) == (e2 == nil), "same outcome as decoding into a fresh object")
	if e1 == nil && e2 == nil {
		verifAssert(d1.t == d2.t, "same truncation flag as a fresh object")
		verifAssert(verifDeepEqual(&l, &f), "same field values as decoding into a fresh object")
	}
	verifReached("stale")
}

func verif_C05_stale_Dot11() {
	a := verifBytes("a", 36)
	na := verifInt("na", 0, 36)
	b := verifBytes("b", 36)
	nb := verifInt("nb", 0, 36)
	var l, f Dot11
	_ = l.DecodeFromBytes(a[:na], gopacket.NilDecodeFeedback)
	d1, d2 := &c05DF{}, &c05DF{}
	e1 := l.DecodeFromBytes(b[:nb], d1)
	e2 := f.DecodeFromBytes(b[:nb], d2)
	verifAssert((e1 == nil) == (e2 == nil), "same outcome as decoding into a fresh object")
	if e1 == nil && e2 == nil {
		verifAssert(d1.t == d2.t, "same truncation flag as a fresh object")
		verifAssert(verifDeepEqual(&l, &f), "same field values as decoding into a fresh object")
	}
	verifReached("stale")
}

func verif_C05_stale_Dot11Ctrl() {
	a := verifBytes("a", 36)
	na := verifInt("na", 0, 36)
	b := verifBytes("b", 36)
	nb := verifInt("nb", 0, 36)
	var l, f Dot11Ctrl
	_ = l.DecodeFromBytes(a[:na], gopacket.NilDecodeFeedback)
	d1, d2 := &c05DF{}, &c05DF{}
	e1 := l.DecodeFromBytes(b[:nb], d1)
	e2 := f.DecodeFromBytes(b[:nb], d2)
	verifAssert((e1 == nil) == (e2 == nil), "same outcome as decoding into a fresh object")
	if e1 == nil && e2 == nil {
		verifAssert(d1.t == d2.t, "same truncation flag as a fresh object")
		verifAssert(verifDeepEqual(&l, &f), "same field values as decoding into a fresh object")
	}
	verifReached("stale")
}

func verif_C05_stale_Dot11CtrlAck() {
	a := verifBytes("a", 36)
	na := verifInt("na", 0, 36)
	b := verifBytes("b", 36)
	nb := verifInt("nb", 0, 36)
	var l, f Dot11CtrlAck
	_ = l.DecodeFromBytes(a[:na], gopacket.NilDecodeFeedback)
	d1, d2 := &c05DF{}, &c05DF{}
	e1 := l.DecodeFromBytes(b[:nb], d1)
	e2 := f.DecodeFromBytes(b[:nb], d2)
	verifAssert((e1 == nil) == (e2 == nil), "same outcome as decoding into a fresh object")
	if e1 == nil && e2 == nil {
		verifAssert(d1.t == d2.t, "same truncation flag as a fresh object")
		verifAssert(verifDeepEqual(&l, &f), "same field values as decoding into a fresh object")
	}
	verifReached("stale")
}

func verif_C05_stale_Dot11CtrlBlockAck() {
	a := verifBytes("a", 36)
	na := verifInt("na", 0, 36)
	b := verifBytes("b", 36)
	nb := verifInt("nb", 0, 36)
	var l, f Dot11CtrlBlockAck
	_ = l.DecodeFromBytes(a[:na], gopacket.NilDecodeFeedback)
	d1, d2 := &c05DF{}, &c05DF{}
	e1 := l.DecodeFromBytes(b[:nb], d1)
	e2 := f.DecodeFromBytes(b[:nb], d2)
	verifAssert((e1 == nil) == (e2 == nil), "same outcome as decoding into a fresh object")
	if e1 == nil && e2 == nil {
		verifAssert(d1.t == d2.t, "same truncation flag as a fresh object")
		verifAssert(verifDeepEqual(&l, &f), "same field values as decoding into a fresh object")
	}
	verifReached("stale")
}

func verif_C05_stale_Dot11CtrlBlockAckReq() {
	a := verifBytes("a", 36)
	na := verifInt("na", 0, 36)
	b := verifBytes("b", 36)
	nb := verifInt("nb", 0, 36)
	var l, f Dot11CtrlBlockAckReq
	_ = l.DecodeFromBytes(a[:na], gopacket.NilDecodeFeedback)
	d1, d2 := &c05DF{}, &c05DF{}
	e1 := l.DecodeFromBytes(b[:nb], d1)
	e2 := f.DecodeFromBytes(b[:nb], d2)
	verifAssert((e1 == nil) == (e2 == nil), "same outcome as decoding into a fresh object")
	if e1 == nil && e2 == nil {
		verifAssert(d1.t == d2.t, "same truncation flag as a fresh object")
		verifAssert(verifDeepEqual(&l, &f), "same field values as decoding into a fresh object")
	}
	verifReached("stale")
}

func verif_C05_stale_Dot11CtrlCFEnd() {
	a := verifBytes("a", 36)
	na := verifInt("na", 0, 36)
	b := verifBytes("b", 36)
	nb := verifInt("nb", 0, 36)
	var l, f Dot11CtrlCFEnd
	_ = l.DecodeFromBytes(a[:na], gopacket.NilDecodeFeedback)
	d1, d2 := &c05DF{}, &c05DF{}
	e1 := l.DecodeFromBytes(b[:nb], d1)
	e2 := f.DecodeFromBytes(b[:nb], d2)
	verifAssert((e1 == nil) == (e2 == nil), "same outcome as decoding into a fresh object")
	if e1 == nil && e2 == nil {
		verifAssert(d1.t == d2.t, "same truncation flag as a fresh object")
		verifAssert(verifDeepEqual(&l, &f), "same field values as decoding into a fresh object")
	}
	verifReached("stale")
}

func verif_C05_stale_Dot11CtrlCFEndAck() {
	a := verifBytes("a", 36)
	na := verifInt("na", 0, 36)
	b := verifBytes("b", 36)
	nb := verifInt("nb", 0, 36)
	var l, f Dot11CtrlCFEndAck
	_ = l.DecodeFromBytes(a[:na], gopacket.NilDecodeFeedback)
	d1, d2 := &c05DF{}, &c05DF{}
	e1 := l.DecodeFromBytes(b[:nb], d1)
	e2 := f.DecodeFromBytes(b[:nb], d2)
	verifAssert((e1 == nil) == (e2 == nil), "same outcome as decoding into a fresh object")
	if e1 == nil && e2 == nil {
		verifAssert(d1.t == d2.t, "same truncation flag as a fresh object")
		verifAssert(verifDeepEqual(&l, &f), "same field values as decoding into a fresh object")
	}
	verifReached("stale")
}

func verif_C05_stale_Dot11CtrlCTS() {
	a := verifBytes("a", 36)
	na := verifInt("na", 0, 36)
	b := verifBytes("b", 36)
	nb := verifInt("nb", 0, 36)
	var l, f Dot11CtrlCTS
	_ = l.DecodeFromBytes(a[:na], gopacket.NilDecodeFeedback)
	d1, d2 := &c05DF{}, &c05DF{}
	e1 := l.DecodeFromBytes(b[:nb], d1)
	e2 := f.DecodeFromBytes(b[:nb], d2)
	verifAssert((e1 == nil) == (e2 == nil), "same outcome as decoding into a fresh object")
	if e1 == nil && e2 == nil {
		verifAssert(d1.t == d2.t, "same truncation flag as a fresh object")
		verifAssert(verifDeepEqual(&l, &f), "same field values as decoding into a fresh object")
	}
	verifReached("stale")
}

func verif_C05_stale_Dot11CtrlPowersavePoll() {
	a := verifBytes("a", 36)
	na := verifInt("na", 0, 36)
	b := verifBytes("b", 36)
	nb := verifInt("nb", 0, 36)
	var l, f Dot11CtrlPowersavePoll
	_ = l.DecodeFromBytes(a[:na], gopacket.NilDecodeFeedback)
	d1, d2 := &c05DF{}, &c05DF{}
	e1 := l.DecodeFromBytes(b[:nb], d1)
	e2 := f.DecodeFromBytes(b[:nb], d2)
	verifAssert((e1 == nil) == (e2 == nil), "same outcome as decoding into a fresh object")
	if e1 == nil && e2 == nil {
		verifAssert(d1.t == d2.t, "same truncation flag as a fresh object")
		verifAssert(verifDeepEqual(&l, &f), "same field values as decoding into a fresh object")
	}
	verifReached("stale")
}

func verif_C05_stale_Dot11CtrlRTS() {
	a := verifBytes("a", 36)
	na := verifInt("na", 0, 36)
	b := verifBytes("b", 36)
	nb := verifInt("nb", 0, 36)
	var l, f Dot11CtrlRTS
	_ = l.DecodeFromBytes(a[:na], gopacket.NilDecodeFeedback)
	d1, d2 := &c05DF{}, &c05DF{}
	e1 := l.DecodeFromBytes(b[:nb], d1)
	e2 := f.DecodeFromBytes(b[:nb], d2)
	verifAssert((e1 == nil) == (e2 == nil), "same outcome as decoding into a fresh object")
	if e1 == nil && e2 == nil {
		verifAssert(d1.t == d2.t, "same truncation flag as a fresh object")
		verifAssert(verifDeepEqual(&l, &f), "same field values as decoding into a fresh object")
	}
	verifReached("stale")
}

func verif_C05_stale_Dot11Data() {
	a := verifBytes("a", 36)
	na := verifInt("na", 0, 36)
	b := verifBytes("b", 36)
	nb := verifInt("nb", 0, 36)
	var l, f Dot11Data
	_ = l.DecodeFromBytes(a[:na], gopacket.NilDecodeFeedback)
	d1, d2 := &c05DF{}, &c05DF{}
	e1 := l.DecodeFromBytes(b[:nb], d1)
	e2 := f.DecodeFromBytes(b[:nb], d2)
	verifAssert((e1 == nil) == (e2 == nil), "same outcome as decoding into a fresh object")
	if e1 == nil && e2 == nil {
		verifAssert(d1.t == d2.t, "same truncation flag as a fresh object")
		verifAssert(verifDeepEqual(&l, &f), "same field values as decoding into a fresh object")
	}
	verifReached("stale")
}

func verif_C05_stale_Dot11DataCFAck() {
	a := verifBytes("a", 36)
	na := verifInt("na", 0, 36)
	b := verifBytes("b", 36)
	nb := verifInt("nb", 0, 36)
	var l, f Dot11DataCFAck
	_ = l.DecodeFromBytes(a[:na], gopacket.NilDecodeFeedback)
	d1, d2 := &c05DF{}, &c05DF{}
	e1 := l.DecodeFromBytes(b[:nb], d1)
	e2 := f.DecodeFromBytes(b[:nb], d2)
	verifAssert((e1 == nil) == (e2 == nil), "same outcome as decoding into a fresh object")
	if e1 == nil && e2 == nil {
		verifAssert(d1.t == d2.t, "same truncation flag as a fresh object")
		verifAssert(verifDeepEqual(&l, &f), "same field values as decoding into a fresh object")
	}
	verifReached("stale")
}

func verif_C05_stale_Dot11DataCFAckNoData() {
	a := verifBytes("a", 36)
	na := verifInt("na", 0, 36)
	b := verifBytes("b", 36)
	nb := verifInt("nb", 0, 36)
	var l, f Dot11DataCFAckNoData
	_ = l.DecodeFromBytes(a[:na], gopacket.NilDecodeFeedback)
	d1, d2 := &c05DF{}, &c05DF{}
	e1 := l.DecodeFromBytes(b[:nb], d1)
	e2 := f.DecodeFromBytes(b[:nb], d2)
	verifAssert((e1 == nil) == (e2 == nil), "same outcome as decoding into a fresh object")
	if e1 == nil && e2 == nil {
		verifAssert(d1.t == d2.t, "same truncation flag as a fresh object")
		verifAssert(verifDeepEqual(&l, &f), "same field values as decoding into a fresh object")
	}
	verifReached("stale")
}

func verif_C05_stale_Dot11DataCFAckPoll() {
	a := verifBytes("a", 36)
	na := verifInt("na", 0, 36)
	b := verifBytes("b", 36)
	nb := verifInt("nb", 0, 36)
	var l, f Dot11DataCFAckPoll
	_ = l.DecodeFromBytes(a[:na], gopacket.NilDecodeFeedback)
	d1, d2 := &c05DF{}, &c05DF{}
	e1 := l.DecodeFromBytes(b[:nb], d1)
	e2 := f.DecodeFromBytes(b[:nb], d2)
	verifAssert((e1 == nil) == (e2 == nil), "same outcome as decoding into a fresh object")
	if e1 == nil && e2 == nil {
		verifAssert(d1.t == d2.t, "same truncation flag as a fresh object")
		verifAssert(verifDeepEqual(&l, &f), "same field values as decoding into a fresh object")
	}
	verifReached("stale")
}

func verif_C05_stale_Dot11DataCFAckPollNoData() {
	a := verifBytes("a", 36)
	na := verifInt("na", 0, 36)
	b := verifBytes("b", 36)
	nb := verifInt("nb", 0, 36)
	var l, f Dot11DataCFAckPollNoData
	_ = l.DecodeFromBytes(a[:na], gopacket.NilDecodeFeedback)
	d1, d2 := &c05DF{}, &c05DF{}
	e1 := l.DecodeFromBytes(b[:nb], d1)
	e2 := f.DecodeFromBytes(b[:nb], d2)
	verifAssert((e1 == nil) == (e2 == nil), "same outcome as decoding into a fresh object")
	if e1 == nil && e2 == nil {
		verifAssert(d1.t == d2.t, "same truncation flag as a fresh object")
		verifAssert(verifDeepEqual(&l, &f), "same field values as decoding into a fresh object")
	}
	verifReached("stale")
}

func verif_C05_stale_Dot11DataCFPoll() {
	a := verifBytes("a", 36)
	na := verifInt("na", 0, 36)
	b := verifBytes("b", 36)
	nb := verifInt("nb", 0, 36)
	var l, f Dot11DataCFPoll
	_ = l.DecodeFromBytes(a[:na], gopacket.NilDecodeFeedback)
	d1, d2 := &c05DF{}, &c05DF{}
	e1 := l.DecodeFromBytes(b[:nb], d1)
	e2 := f.DecodeFromBytes(b[:nb], d2)
	verifAssert((e1 == nil) == (e2 == nil), "same outcome as decoding into a fresh object")
	if e1 == nil && e2 == nil {
		verifAssert(d1.t == d2.t, "same truncation flag as a fresh object")
		verifAssert(verifDeepEqual(&l, &f), "same field values as decoding into a fresh object")
	}
	verifReached("stale")
}

func verif_C05_stale_Dot11DataCFPollNoData() {
	a := verifBytes("a", 36)
	na := verifInt("na", 0, 36)
	b := verifBytes("b", 36)
	nb := verifInt("nb", 0, 36)
	var l, f Dot11DataCFPollNoData
	_ = l.DecodeFromBytes(a[:na], gopacket.NilDecodeFeedback)
	d1, d2 := &c05DF{}, &c05DF{}
	e1 := l.DecodeFromBytes(b[:nb], d1)
	e2 := f.DecodeFromBytes(b[:nb], d2)
	verifAssert((e1 == nil) == (e2 == nil), "same outcome as decoding into a fresh object")
	if e1 == nil && e2 == nil {
		verifAssert(d1.t == d2.t, "same truncation flag as a fresh object")
		verifAssert(verifDeepEqual(&l, &f), "same field values as decoding into a fresh object")
	}
	verifReached("stale")
}

func verif_C05_stale_Dot11DataNull() {
	a := verifBytes("a", 36)
	na := verifInt("na", 0, 36)
	b := verifBytes("b", 36)
	nb := verifInt("nb", 0, 36)
	var l, f Dot11DataNull
	_ = l.DecodeFromBytes(a[:na], gopacket.NilDecodeFeedback)
	d1, d2 := &c05DF{}, &c05DF{}
	e1 := l.DecodeFromBytes(b[:nb], d1)
	e2 := f.DecodeFromBytes(b[:nb], d2)
	verifAssert((e1 == nil) == (e2 == nil), "same outcome as decoding into a fresh object")
	if e1 == nil && e2 == nil {
		verifAssert(d1.t == d2.t, "same truncation flag as a fresh object")
		verifAssert(verifDeepEqual(&l, &f), "same field values as decoding into a fresh object")
	}
	verifReached("stale")
}

func verif_C05_stale_Dot11DataQOS() {
	a := verifBytes("a", 36)
	na := verifInt("na", 0, 36)
	b := verifBytes("b", 36)
	nb := verifInt("nb", 0, 36)
	var l, f Dot11DataQOS
	_ = l.DecodeFromBytes(a[:na], gopacket.NilDecodeFeedback)
	d1, d2 := &c05DF{}, &c05DF{}
	e1 := l.DecodeFromBytes(b[:nb], d1)
	e2 := f.DecodeFromBytes(b[:nb], d2)
	verifAssert((e1 == nil) == (e2 == nil), "same outcome as decoding into a fresh object")
	if e1 == nil && e2 == nil {
		verifAssert(d1.t == d2.t, "same truncation flag as a fresh object")
		verifAssert(verifDeepEqual(&l, &f), "same field values as decoding into a fresh object")
	}
	verifReached("stale")
}

func verif_C05_stale_Dot11DataQOSCFAckPollNoData() {
	a := verifBytes("a", 36)
	na := verifInt("na", 0, 36)
	b := verifBytes("b", 36)
	nb := verifInt("nb", 0, 36)
	var l, f Dot11DataQOSCFAckPollNoData
	_ = l.DecodeFromBytes(a[:na], gopacket.NilDecodeFeedback)
	d1, d2 := &c05DF{}, &c05DF{}
	e1 := l.DecodeFromBytes(b[:nb], d1)
	e2 := f.DecodeFromBytes(b[:nb], d2)
	verifAssert((e1 == nil) == (e2 == nil), "same outcome as decoding into a fresh object")
	if e1 == nil && e2 == nil {
		verifAssert(d1.t == d2.t, "same truncation flag as a fresh object")
		verifAssert(verifDeepEqual(&l, &f), "same field values as decoding into a fresh object")
	}
	verifReached("stale")
}

func verif_C05_stale_Dot11DataQOSCFPollNoData() {
	a := verifBytes("a", 36)
	na := verifInt("na", 0, 36)
	b := verifBytes("b", 36)
	nb := verifInt("nb", 0, 36)
	var l, f Dot11DataQOSCFPollNoData
	_ = l.DecodeFromBytes(a[:na], gopacket.NilDecodeFeedback)
	d1, d2 := &c05DF{}, &c05DF{}
	e1 := l.DecodeFromBytes(b[:nb], d1)
	e2 := f.DecodeFromBytes(b[:nb], d2)
	verifAssert((e1 == nil) == (e2 == nil), "same outcome as decoding into a fresh object")
	if e1 == nil && e2 == nil {
		verifAssert(d1.t == d2.t, "same truncation flag as a fresh object")
		verifAssert(verifDeepEqual(&l, &f), "same field values as decoding into a fresh object")
	}
	verifReached("stale")
}

func verif_C05_stale_Dot11DataQOSData() {
	a := verifBytes("a", 36)
	na := verifInt("na", 0, 36)
	b := verifBytes("b", 36)
	nb := verifInt("nb", 0, 36)
	var l, f Dot11DataQOSData
	_ = l.DecodeFromBytes(a[:na], gopacket.NilDecodeFeedback)
	d1, d2 := &c05DF{}, &c05DF{}
	e1 := l.DecodeFromBytes(b[:nb], d1)
	e2 := f.DecodeFromBytes(b[:nb], d2)
	verifAssert((e1 == nil) == (e2 == nil), "same outcome as decoding into a fresh object")
	if e1 == nil && e2 == nil {
		verifAssert(d1.t == d2.t, "same truncation flag as a fresh object")
		verifAssert(verifDeepEqual(&l, &f), "same field values as decoding into a fresh object")
	}
	verifReached("stale")
}

func verif_C05_stale_Dot11DataQOSDataCFAck() {
	a := verifBytes("a", 36)
	na := verifInt("na", 0, 36)
	b := verifBytes("b", 36)
	nb := verifInt("nb", 0, 36)
	var l, f Dot11DataQOSDataCFAck
	_ = l.DecodeFromBytes(a[:na], gopacket.NilDecodeFeedback)
	d1, d2 := &c05DF{}, &c05DF{}
	e1 := l.DecodeFromBytes(b[:nb], d1)
	e2 := f.DecodeFromBytes(b[:nb], d2)
	verifAssert((e1 == nil) == (e2 == nil), "same outcome as decoding into a fresh object")
	if e1 == nil && e2 == nil {
		verifAssert(d1.t == d2.t, "same truncation flag as a fresh object")
		verifAssert(verifDeepEqual(&l, &f), "same field values as decoding into a fresh object")
	}
	verifReached("stale")
}

func verif_C05_stale_Dot11DataQOSDataCFAckPoll() {
	a := verifBytes("a", 36)
	na := verifInt("na", 0, 36)
	b := verifBytes("b", 36)
	nb := verifInt("nb", 0, 36)
	var l, f Dot11DataQOSDataCFAckPoll
	_ = l.DecodeFromBytes(a[:na], gopacket.NilDecodeFeedback)
	d1, d2 := &c05DF{}, &c05DF{}
	e1 := l.DecodeFromBytes(b[:nb], d1)
	e2 := f.DecodeFromBytes(b[:nb], d2)
	verifAssert((e1 == nil) == (e2 == nil), "same outcome as decoding into a fresh object")
	if e1 == nil && e2 == nil {
		verifAssert(d1.t == d2.t, "same truncation flag as a fresh object")
		verifAssert(verifDeepEqual(&l, &f), "same field values as decoding into a fresh object")
	}
	verifReached("stale")
}

func verif_C05_stale_Dot11DataQOSDataCFPoll() {
	a := verifBytes("a", 36)
	na := verifInt("na", 0, 36)
	b := verifBytes("b", 36)
	nb := verifInt("nb", 0, 36)
	var l, f Dot11DataQOSDataCFPoll
	_ = l.DecodeFromBytes(a[:na], gopacket.NilDecodeFeedback)
	d1, d2 := &c05DF{}, &c05DF{}
	e1 := l.DecodeFromBytes(b[:nb], d1)
	e2 := f.DecodeFromBytes(b[:nb], d2)
	verifAssert((e1 == nil) == (e2 == nil), "same outcome as decoding into a fresh object")
	if e1 == nil && e2 == nil {
		verifAssert(d1.t == d2.t, "same truncation flag as a fresh object")
		verifAssert(verifDeepEqual(&l, &f), "same field values as decoding into a fresh object")
	}
	verifReached("stale")
}

func verif_C05_stale_Dot11DataQOSNull() {
	a := verifBytes("a", 36)
	na := verifInt("na", 0, 36)
	b := verifBytes("b", 36)
	nb := verifInt("nb", 0, 36)
	var l, f Dot11DataQOSNull
	_ = l.DecodeFromBytes(a[:na], gopacket.NilDecodeFeedback)
	d1, d2 := &c05DF{}, &c05DF{}
	e1 := l.DecodeFromBytes(b[:nb], d1)
	e2 := f.DecodeFromBytes(b[:nb], d2)
	verifAssert((e1 == nil) == (e2 == nil), "same outcome as decoding into a fresh object")
	if e1 == nil && e2 == nil {
		verifAssert(d1.t == d2.t, "same truncation flag as a fresh object")
		verifAssert(verifDeepEqual(&l, &f), "same field values as decoding into a fresh object")
	}
	verifReached("stale")
}

func verif_C05_stale_Dot11InformationElement() {
	a := verifBytes("a", 36)
	na := verifInt("na", 0, 36)
	b := verifBytes("b", 36)
	nb := verifInt("nb", 0, 36)
	var l, f Dot11InformationElement
	_ = l.DecodeFromBytes(a[:na], gopacket.NilDecodeFeedback)
	d1, d2 := &c05DF{}, &c05DF{}
	e1 := l.DecodeFromBytes(b[:nb], d1)
	e2 := f.DecodeFromBytes(b[:nb], d2)
	verifAssert((e1 == nil) == (e2 == nil), "same outcome as decoding into a fresh object")
	if e1 == nil && e2 == nil {
		verifAssert(d1.t == d2.t, "same truncation flag as a fresh object")
		verifAssert(verifDeepEqual(&l, &f), "same field values as decoding into a fresh object")
	}
	verifReached("stale")
}

func verif_C05_stale_Dot11Mgmt() {
	a := verifBytes("a", 36)
	na := verifInt("na", 0, 36)
	b := verifBytes("b", 36)
	nb := verifInt("nb", 0, 36)
	var l, f Dot11Mgmt
	_ = l.DecodeFromBytes(a[:na], gopacket.NilDecodeFeedback)
	d1, d2 := &c05DF{}, &c05DF{}
	e1 := l.DecodeFromBytes(b[:nb], d1)
	e2 := f.DecodeFromBytes(b[:nb], d2)
	verifAssert((e1 == nil) == (e2 == nil), "same outcome as decoding into a fresh object")
	if e1 == nil && e2 == nil {
		verifAssert(d1.t == d2.t, "same truncation flag as a fresh object")
		verifAssert(verifDeepEqual(&l, &f), "same field values as decoding into a fresh object")
	}
	verifReached("stale")
}

func verif_C05_stale_Dot11MgmtATIM() {
	a := verifBytes("a", 36)
	na := verifInt("na", 0, 36)
	b := verifBytes("b", 36)
	nb := verifInt("nb", 0, 36)
	var l, f Dot11MgmtATIM
	_ = l.DecodeFromBytes(a[:na], gopacket.NilDecodeFeedback)
	d1, d2 := &c05DF{}, &c05DF{}
	e1 := l.DecodeFromBytes(b[:nb], d1)
	e2 := f.DecodeFromBytes(b[:nb], d2)
	verifAssert((e1 == nil) == (e2 == nil), "same outcome as decoding into a fresh object")
	if e1 == nil && e2 == nil {
		verifAssert(d1.t == d2.t, "same truncation flag as a fresh object")
		verifAssert(verifDeepEqual(&l, &f), "same field values as decoding into a fresh object")
	}
	verifReached("stale")
}

func verif_C05_stale_Dot11MgmtAction() {
	a := verifBytes("a", 36)
	na := verifInt("na", 0, 36)
	b := verifBytes("b", 36)
	nb := verifInt("nb", 0, 36)
	var l, f Dot11MgmtAction
	_ = l.DecodeFromBytes(a[:na], gopacket.NilDecodeFeedback)
	d1, d2 := &c05DF{}, &c05DF{}
	e1 := l.DecodeFromBytes(b[:nb], d1)
	e2 := f.DecodeFromBytes(b[:nb], d2)
	verifAssert((e1 == nil) == (e2 == nil), "same outcome as decoding into a fresh object")
	if e1 == nil && e2 == nil {
		verifAssert(d1.t == d2.t, "same truncation flag as a fresh object")
		verifAssert(verifDeepEqual(&l, &f), "same field values as decoding into a fresh object")
	}
	verifReached("stale")
}

func verif_C05_stale_Dot11MgmtActionNoAck() {
	a := verifBytes("a", 36)
	na := verifInt("na", 0, 36)
	b := verifBytes("b", 36)
	nb := verifInt("nb", 0, 36)
	var l, f Dot11MgmtActionNoAck
	_ = l.DecodeFromBytes(a[:na], gopacket.NilDecodeFeedback)
	d1, d2 := &c05DF{}, &c05DF{}
	e1 := l.DecodeFromBytes(b[:nb], d1)
	e2 := f.DecodeFromBytes(b[:nb], d2)
	verifAssert((e1 == nil) == (e2 == nil), "same outcome as decoding into a fresh object")
	if e1 == nil && e2 == nil {
		verifAssert(d1.t == d2.t, "same truncation flag as a fresh object")
		verifAssert(verifDeepEqual(&l, &f), "same field values as decoding into a fresh object")
	}
	verifReached("stale")
}

func verif_C05_stale_Dot11MgmtArubaWLAN() {
	a := verifBytes("a", 36)
	na := verifInt("na", 0, 36)
	b := verifBytes("b", 36)
	nb := verifInt("nb", 0, 36)
	var l, f Dot11MgmtArubaWLAN
	_ = l.DecodeFromBytes(a[:na], gopacket.NilDecodeFeedback)
	d1, d2 := &c05DF{}, &c05DF{}
	e1 := l.DecodeFromBytes(b[:nb], d1)
	e2 := f.DecodeFromBytes(b[:nb], d2)
	verifAssert((e1 == nil) == (e2 == nil), "same outcome as decoding into a fresh object")
	if e1 == nil && e2 == nil {
		verifAssert(d1.t == d2.t, "same truncation flag as a fresh object")
		verifAssert(verifDeepEqual(&l, &f), "same field values as decoding into a fresh object")
	}
	verifReached("stale")
}

func verif_C05_stale_Dot11MgmtAssociationReq() {
	a := verifBytes("a", 36)
	na := verifInt("na", 0, 36)
	b := verifBytes("b", 36)
	nb := verifInt("nb", 0, 36)
	var l, f Dot11MgmtAssociationReq
	_ = l.DecodeFromBytes(a[:na], gopacket.NilDecodeFeedback)
	d1, d2 := &c05DF{}, &c05DF{}
	e1 := l.DecodeFromBytes(b[:nb], d1)
	e2 := f.DecodeFromBytes(b[:nb], d2)
	verifAssert((e1 == nil) == (e2 == nil), "same outcome as decoding into a fresh object")
	if e1 == nil && e2 == nil {
		verifAssert(d1.t == d2.t, "same truncation flag as a fresh object")
		verifAssert(verifDeepEqual(&l, &f), "same field values as decoding into a fresh object")
	}
	verifReached("stale")
}

func verif_C05_stale_Dot11MgmtAssociationResp() {
	a := verifBytes("a", 36)
	na := verifInt("na", 0, 36)
	b := verifBytes("b", 36)
	nb := verifInt("nb", 0, 36)
	var l, f Dot11MgmtAssociationResp
	_ = l.DecodeFromBytes(a[:na], gopacket.NilDecodeFeedback)
	d1, d2 := &c05DF{}, &c05DF{}
	e1 := l.DecodeFromBytes(b[:nb], d1)
	e2 := f.DecodeFromBytes(b[:nb], d2)
	verifAssert((e1 == nil) == (e2 == nil), "same outcome as decoding into a fresh object")
	if e1 == nil && e2 == nil {
		verifAssert(d1.t == d2.t, "same truncation flag as a fresh object")
		verifAssert(verifDeepEqual(&l, &f), "same field values as decoding into a fresh object")
	}
	verifReached("stale")
}

func verif_C05_stale_Dot11MgmtAuthentication() {
	a := verifBytes("a", 36)
	na := verifInt("na", 0, 36)
	b := verifBytes("b", 36)
	nb := verifInt("nb", 0, 36)
	var l, f Dot11MgmtAuthentication
	_ = l.DecodeFromBytes(a[:na], gopacket.NilDecodeFeedback)
	d1, d2 := &c05DF{}, &c05DF{}
	e1 := l.DecodeFromBytes(b[:nb], d1)
	e2 := f.DecodeFromBytes(b[:nb], d2)
	verifAssert((e1 == nil) == (e2 == nil), "same outcome as decoding into a fresh object")
	if e1 == nil && e2 == nil {
		verifAssert(d1.t == d2.t, "same truncation flag as a fresh object")
		verifAssert(verifDeepEqual(&l, &f), "same field values as decoding into a fresh object")
	}
	verifReached("stale")
}

func verif_C05_stale_Dot11MgmtBeacon() {
	a := verifBytes("a", 36)
	na := verifInt("na", 0, 36)
	b := verifBytes("b", 36)
	nb := verifInt("nb", 0, 36)
	var l, f Dot11MgmtBeacon
	_ = l.DecodeFromBytes(a[:na], gopacket.NilDecodeFeedback)
	d1, d2 := &c05DF{}, &c05DF{}
	e1 := l.DecodeFromBytes(b[:nb], d1)
	e2 := f.DecodeFromBytes(b[:nb], d2)
	verifAssert((e1 == nil) == (e2 == nil), "same outcome as decoding into a fresh object")
	if e1 == nil && e2 == nil {
		verifAssert(d1.t == d2.t, "same truncation flag as a fresh object")
		verifAssert(verifDeepEqual(&l, &f), "same field values as decoding into a fresh object")
	}
	verifReached("stale")
}

func verif_C05_stale_Dot11MgmtDeauthentication() {
	a := verifBytes("a", 36)
	na := verifInt("na", 0, 36)
	b := verifBytes("b", 36)
	nb := verifInt("nb", 0, 36)
	var l, f Dot11MgmtDeauthentication
	_ = l.DecodeFromBytes(a[:na], gopacket.NilDecodeFeedback)
	d1, d2 := &c05DF{}, &c05DF{}
	e1 := l.DecodeFromBytes(b[:nb], d1)
	e2 := f.DecodeFromBytes(b[:nb], d2)
	verifAssert((e1 == nil) == (e2 == nil), "same outcome as decoding into a fresh object")
	if e1 == nil && e2 == nil {
		verifAssert(d1.t == d2.t, "same truncation flag as a fresh object")
		verifAssert(verifDeepEqual(&l, &f), "same field values as decoding into a fresh object")
	}
	verifReached("stale")
}

func verif_C05_stale_Dot11MgmtDisassociation() {
	a := verifBytes("a", 36)
	na := verifInt("na", 0, 36)
	b := verifBytes("b", 36)
	nb := verifInt("nb", 0, 36)
	var l, f Dot11MgmtDisassociation
	_ = l.DecodeFromBytes(a[:na], gopacket.NilDecodeFeedback)
	d1, d2 := &c05DF{}, &c05DF{}
	e1 := l.DecodeFromBytes(b[:nb], d1)
	e2 := f.DecodeFromBytes(b[:nb], d2)
	verifAssert((e1 == nil) == (e2 == nil), "same outcome as decoding into a fresh object")
	if e1 == nil && e2 == nil {
		verifAssert(d1.t == d2.t, "same truncation flag as a fresh object")
		verifAssert(verifDeepEqual(&l, &f), "same field values as decoding into a fresh object")
	}
	verifReached("stale")
}

func verif_C05_stale_Dot11MgmtMeasurementPilot() {
	a := verifBytes("a", 36)
	na := verifInt("na", 0, 36)
	b := verifBytes("b", 36)
	nb := verifInt("nb", 0, 36)
	var l, f Dot11MgmtMeasurementPilot
	_ = l.DecodeFromBytes(a[:na], gopacket.NilDecodeFeedback)
	d1, d2 := &c05DF{}, &c05DF{}
	e1 := l.DecodeFromBytes(b[:nb], d1)
	e2 := f.DecodeFromBytes(b[:nb], d2)
	verifAssert((e1 == nil) == (e2 == nil), "same outcome as decoding into a fresh object")
	if e1 == nil && e2 == nil {
		verifAssert(d1.t == d2.t, "same truncation flag as a fresh object")
		verifAssert(verifDeepEqual(&l, &f), "same field values as decoding into a fresh object")
	}
	verifReached("stale")
}

func verif_C05_stale_Dot11MgmtProbeReq() {
	a := verifBytes("a", 36)
	na := verifInt("na", 0, 36)
	b := verifBytes("b", 36)
	nb := verifInt("nb", 0, 36)
	var l, f Dot11MgmtProbeReq
	_ = l.DecodeFromBytes(a[:na], gopacket.NilDecodeFeedback)
	d1, d2 := &c05DF{}, &c05DF{}
	e1 := l.DecodeFromBytes(b[:nb], d1)
	e2 := f.DecodeFromBytes(b[:nb], d2)
	verifAssert((e1 == nil) == (e2 == nil), "same outcome as decoding into a fresh object")
	if e1 == nil && e2 == nil {
		verifAssert(d1.t == d2.t, "same truncation flag as a fresh object")
		verifAssert(verifDeepEqual(&l, &f), "same field values as decoding into a fresh object")
	}
	verifReached("stale")
}

func verif_C05_stale_Dot11MgmtProbeResp() {
	a := verifBytes("a", 36)
	na := verifInt("na", 0, 36)
	b := verifBytes("b", 36)
	nb := verifInt("nb", 0, 36)
	var l, f Dot11MgmtProbeResp
	_ = l.DecodeFromBytes(a[:na], gopacket.NilDecodeFeedback)
	d1, d2 := &c05DF{}, &c05DF{}
	e1 := l.DecodeFromBytes(b[:nb], d1)
	e2 := f.DecodeFromBytes(b[:nb], d2)
	verifAssert((e1 == nil) == (e2 == nil), "same outcome as decoding into a fresh object")
	if e1 == nil && e2 == nil {
		verifAssert(d1.t == d2.t, "same truncation flag as a fresh object")
		verifAssert(verifDeepEqual(&l, &f), "same field values as decoding into a fresh object")
	}
	verifReached("stale")
}

func verif_C05_stale_Dot11MgmtReassociationReq() {
	a := verifBytes("a", 36)
	na := verifInt("na", 0, 36)
	b := verifBytes("b", 36)
	nb := verifInt("nb", 0, 36)
	var l, f Dot11MgmtReassociationReq
	_ = l.DecodeFromBytes(a[:na], gopacket.NilDecodeFeedback)
	d1, d2 := &c05DF{}, &c05DF{}
	e1 := l.DecodeFromBytes(b[:nb], d1)
	e2 := f.DecodeFromBytes(b[:nb], d2)
	verifAssert((e1 == nil) == (e2 == nil), "same outcome as decoding into a fresh object")
	if e1 == nil && e2 == nil {
		verifAssert(d1.t == d2.t, "same truncation flag as a fresh object")
		verifAssert(verifDeepEqual(&l, &f), "same field values as decoding into a fresh object")
	}
	verifReached("stale")
}

func verif_C05_stale_Dot11MgmtReassociationResp() {
	a := verifBytes("a", 36)
	na := verifInt("na", 0, 36)
	b := verifBytes("b", 36)
	nb := verifInt("nb", 0, 36)
	var l, f Dot11MgmtReassociationResp
	_ = l.DecodeFromBytes(a[:na], gopacket.NilDecodeFeedback)
	d1, d2 := &c05DF{}, &c05DF{}
	e1 := l.DecodeFromBytes(b[:nb], d1)
	e2 := f.DecodeFromBytes(b[:nb], d2)
	verifAssert((e1 == nil) == (e2 == nil), "same outcome as decoding into a fresh object")
	if e1 == nil && e2 == nil {
		verifAssert(d1.t == d2.t, "same truncation flag as a fresh object")
		verifAssert(verifDeepEqual(&l, &f), "same field values as decoding into a fresh object")
	}
	verifReached("stale")
}

func verif_C05_stale_Dot11WEP() {
	a := verifBytes("a", 36)
	na := verifInt("na", 0, 36)
	b := verifBytes("b", 36)
	nb := verifInt("nb", 0, 36)
	var l, f Dot11WEP
	_ = l.DecodeFromBytes(a[:na], gopacket.NilDecodeFeedback)
	d1, d2 := &c05DF{}, &c05DF{}
	e1 := l.DecodeFromBytes(b[:nb], d1)
	e2 := f.DecodeFromBytes(b[:nb], d2)
	verifAssert((e1 == nil) == (e2 == nil), "same outcome as decoding into a fresh object")
	if e1 == nil && e2 == nil {
		verifAssert(d1.t == d2.t, "same truncation flag as a fresh object")
		verifAssert(verifDeepEqual(&l, &f), "same field values as decoding into a fresh object")
	}
	verifReached("stale")
}

func verif_C05_stale_Dot1Q() {
	a := verifBytes("a", 16)
	na := verifInt("na", 0, 16)
	b := verifBytes("b", 16)
	nb := verifInt("nb", 0, 16)
	var l, f Dot1Q
	_ = l.DecodeFromBytes(a[:na], gopacket.NilDecodeFeedback)
	d1, d2 := &c05DF{}, &c05DF{}
	e1 := l.DecodeFromBytes(b[:nb], d1)
	e2 := f.DecodeFromBytes(b[:nb], d2)
	verifAssert((e1 == nil) == (e2 == nil), "same outcome as decoding into a fresh object")
	if e1 == nil && e2 == nil {
		verifAssert(d1.t == d2.t, "same truncation flag as a fresh object")
		verifAssert(verifDeepEqual(&l, &f), "same field values as decoding into a fresh object")
	}
	verifReached("stale")
}

func verif_C05_stale2_Dot1Q() {
	a := verifBytes("a", 16)
	na := verifInt("na", 5, 16)
	b := verifBytes("b", 5)
	nb := verifInt("nb", 4, 5)
	var l, f Dot1Q
	if l.DecodeFromBytes(a[:na], gopacket.NilDecodeFeedback) != nil {
		verifReached("first-rejected")
	}
	d1, d2 := &c05DF{}, &c05DF{}
	e1 := l.DecodeFromBytes(b[:nb], d1)
	e2 := f.DecodeFromBytes(b[:nb], d2)
	verifAssert((e1 == nil) == (e2 == nil), "same outcome as decoding into a fresh object")
	if e1 == nil && e2 == nil {
		verifAssert(d1.t == d2.t, "same truncation flag as a fresh object")
		verifAssert(verifDeepEqual(&l, &f), "same field values as decoding into a fresh object")
	}
	verifReached("stale")
}

func verif_C05_stale_EAP() {
	a := verifBytes("a", 36)
	na := verifInt("na", 0, 36)
	b := verifBytes("b", 36)
	nb := verifInt("nb", 0, 36)
	var l, f EAP
	_ = l.DecodeFromBytes(a[:na], gopacket.NilDecodeFeedback)
	d1, d2 := &c05DF{}, &c05DF{}
	e1 := l.DecodeFromBytes(b[:nb], d1)
	e2 := f.DecodeFromBytes(b[:nb], d2)
	verifAssert((e1 == nil) == (e2 == nil), "same outcome as decoding into a fresh object")
	if e1 == nil && e2 == nil {
		verifAssert(d1.t == d2.t, "same truncation flag as a fresh object")
		verifAssert(verifDeepEqual(&l, &f), "same field values as decoding into a fresh object")
	}
	verifReached("stale")
}

func verif_C05_stale_EAPOL() {
	a := verifBytes("a", 36)
	na := verifInt("na", 0, 36)
	b := verifBytes("b", 36)
	nb := verifInt("nb", 0, 36)
	var l, f EAPOL
	_ = l.DecodeFromBytes(a[:na], gopacket.NilDecodeFeedback)
	d1, d2 := &c05DF{}, &c05DF{}
	e1 := l.DecodeFromBytes(b[:nb], d1)
	e2 := f.DecodeFromBytes(b[:nb], d2)
	verifAssert((e1 == nil) == (e2 == nil), "same outcome as decoding into a fresh object")
	if e1 == nil && e2 == nil {
		verifAssert(d1.t == d2.t, "same truncation flag as a fresh object")
		verifAssert(verifDeepEqual(&l, &f), "same field values as decoding into a fresh object")
	}
	verifReached("stale")
}

func verif_C05_stale_EAPOLKey() {
	a := verifBytes("a", 36)
	na := verifInt("na", 0, 36)
	b := verifBytes("b", 36)
	nb := verifInt("nb", 0, 36)
	var l, f EAPOLKey
	_ = l.DecodeFromBytes(a[:na], gopacket.NilDecodeFeedback)
	d1, d2 := &c05DF{}, &c05DF{}
	e1 := l.DecodeFromBytes(b[:nb], d1)
	e2 := f.DecodeFromBytes(b[:nb], d2)
	verifAssert((e1 == nil) == (e2 == nil), "same outcome as decoding into a fresh object")
	if e1 == nil && e2 == nil {
		verifAssert(d1.t == d2.t, "same truncation flag as a fresh object")
		verifAssert(verifDeepEqual(&l, &f), "same field values as decoding into a fresh object")
	}
	verifReached("stale")
}

func verif_C05_stale_ENIP() {
	a := verifBytes("a", 36)
	na := verifInt("na", 0, 36)
	b := verifBytes("b", 36)
	nb := verifInt("nb", 0, 36)
	var l, f ENIP
	_ = l.DecodeFromBytes(a[:na], gopacket.NilDecodeFeedback)
	d1, d2 := &c05DF{}, &c05DF{}
	e1 := l.DecodeFromBytes(b[:nb], d1)
	e2 := f.DecodeFromBytes(b[:nb], d2)
	verifAssert((e1 == nil) == (e2 == nil), "same outcome as decoding into a fresh object")
	if e1 == nil && e2 == nil {
		verifAssert(d1.t == d2.t, "same truncation flag as a fresh object")
		verifAssert(verifDeepEqual(&l, &f), "same field values as decoding into a fresh object")
	}
	verifReached("stale")
}

func verif_C05_stale_ERSPANII() {
	a := verifBytes("a", 36)
	na := verifInt("na", 0, 36)
	b := verifBytes("b", 36)
	nb := verifInt("nb", 0, 36)
	var l, f ERSPANII
	_ = l.DecodeFromBytes(a[:na], gopacket.NilDecodeFeedback)
	d1, d2 := &c05DF{}, &c05DF{}
	e1 := l.DecodeFromBytes(b[:nb], d1)
	e2 := f.DecodeFromBytes(b[:nb], d2)
	verifAssert((e1 == nil) == (e2 == nil), "same outcome as decoding into a fresh object")
	if e1 == nil && e2 == nil {
		verifAssert(d1.t == d2.t, "same truncation flag as a fresh object")
		verifAssert(verifDeepEqual(&l, &f), "same field values as decoding into a fresh object")
	}
	verifReached("stale")
}

func verif_C05_stale_EtherIP() {
	a := verifBytes("a", 36)
	na := verifInt("na", 0, 36)
	b := verifBytes("b", 36)
	nb := verifInt("nb", 0, 36)
	var l, f EtherIP
	_ = l.DecodeFromBytes(a[:na], gopacket.NilDecodeFeedback)
	d1, d2 := &c05DF{}, &c05DF{}
	e1 := l.DecodeFromBytes(b[:nb], d1)
	e2 := f.DecodeFromBytes(b[:nb], d2)
	verifAssert((e1 == nil) == (e2 == nil), "same outcome as decoding into a fresh object")
	if e1 == nil && e2 == nil {
		verifAssert(d1.t == d2.t, "same truncation flag as a fresh object")
		verifAssert(verifDeepEqual(&l, &f), "same field values as decoding into a fresh object")
	}
	verifReached("stale")
}

func verif_C05_stale_Ethernet() {
	a := verifBytes("a", 26)
	na := verifInt("na", 0, 26)
	b := verifBytes("b", 26)
	nb := verifInt("nb", 0, 26)
	var l, f Ethernet
	_ = l.DecodeFromBytes(a[:na], gopacket.NilDecodeFeedback)
	d1, d2 := &c05DF{}, &c05DF{}
	e1 := l.DecodeFromBytes(b[:nb], d1)
	e2 := f.DecodeFromBytes(b[:nb], d2)
	verifAssert((e1 == nil) == (e2 == nil), "same outcome as decoding into a fresh object")
	if e1 == nil && e2 == nil {
		verifAssert(d1.t == d2.t, "same truncation flag as a fresh object")
		verifAssert(verifDeepEqual(&l, &f), "same field values as decoding into a fresh object")
	}
	verifReached("stale")
}

func verif_C05_stale2_Ethernet() {
	a := verifBytes("a", 26)
	na := verifInt("na", 15, 26)
	b := verifBytes("b", 15)
	nb := verifInt("nb", 14, 15)
	var l, f Ethernet
	if l.DecodeFromBytes(a[:na], gopacket.NilDecodeFeedback) != nil {
		verifReached("first-rejected")
	}
	d1, d2 := &c05DF{}, &c05DF{}
	e1 := l.DecodeFromBytes(b[:nb], d1)
	e2 := f.DecodeFromBytes(b[:nb], d2)
	verifAssert((e1 == nil) == (e2 == nil), "same outcome as decoding into a fresh object")
	if e1 == nil && e2 == nil {
		verifAssert(d1.t == d2.t, "same truncation flag as a fresh object")
		verifAssert(verifDeepEqual(&l, &f), "same field values as decoding into a fresh object")
	}
	verifReached("stale")
}

func verif_C05_stale_GRE() {
	a := verifBytes("a", 24)
	na := verifInt("na", 0, 24)
	b := verifBytes("b", 24)
	nb := verifInt("nb", 0, 24)
	var l, f GRE
	_ = l.DecodeFromBytes(a[:na], gopacket.NilDecodeFeedback)
	d1, d2 := &c05DF{}, &c05DF{}
	e1 := l.DecodeFromBytes(b[:nb], d1)
	e2 := f.DecodeFromBytes(b[:nb], d2)
	verifAssert((e1 == nil) == (e2 == nil), "same outcome as decoding into a fresh object")
	if e1 == nil && e2 == nil {
		verifAssert(d1.t == d2.t, "same truncation flag as a fresh object")
		verifAssert(verifDeepEqual(&l, &f), "same field values as decoding into a fresh object")
	}
	verifReached("stale")
}

func verif_C05_stale2_GRE() {
	a := verifBytes("a", 24)
	na := verifInt("na", 5, 24)
	b := verifBytes("b", 5)
	nb := verifInt("nb", 4, 5)
	var l, f GRE
	if l.DecodeFromBytes(a[:na], gopacket.NilDecodeFeedback) != nil {
		verifReached("first-rejected")
	}
	d1, d2 := &c05DF{}, &c05DF{}
	e1 := l.DecodeFromBytes(b[:nb], d1)
	e2 := f.DecodeFromBytes(b[:nb], d2)
	verifAssert((e1 == nil) == (e2 == nil), "same outcome as decoding into a fresh object")
	if e1 == nil && e2 == nil {
		verifAssert(d1.t == d2.t, "same truncation flag as a fresh object")
		verifAssert(verifDeepEqual(&l, &f), "same field values as decoding into a fresh object")
	}
	verifReached("stale")
}

func verif_C05_stale_GTPv1U() {
	a := verifBytes("a", 36)
	na := verifInt("na", 0, 36)
	b := verifBytes("b", 36)
	nb := verifInt("nb", 0, 36)
	var l, f GTPv1U
	_ = l.DecodeFromBytes(a[:na], gopacket.NilDecodeFeedback)
	d1, d2 := &c05DF{}, &c05DF{}
	e1 := l.DecodeFromBytes(b[:nb], d1)
	e2 := f.DecodeFromBytes(b[:nb], d2)
	verifAssert((e1 == nil) == (e2 == nil), "same outcome as decoding into a fresh object")
	if e1 == nil && e2 == nil {
		verifAssert(d1.t == d2.t, "same truncation flag as a fresh object")
		verifAssert(verifDeepEqual(&l, &f), "same field values as decoding into a fresh object")
	}
	verifReached("stale")
}

func verif_C05_stale_GTPv2() {
	a := verifBytes("a", 36)
	na := verifInt("na", 0, 36)
	b := verifBytes("b", 36)
	nb := verifInt("nb", 0, 36)
	var l, f GTPv2
	_ = l.DecodeFromBytes(a[:na], gopacket.NilDecodeFeedback)
	d1, d2 := &c05DF{}, &c05DF{}
	e1 := l.DecodeFromBytes(b[:nb], d1)
	e2 := f.DecodeFromBytes(b[:nb], d2)
	verifAssert((e1 == nil) == (e2 == nil), "same outcome as decoding into a fresh object")
	if e1 == nil && e2 == nil {
		verifAssert(d1.t == d2.t, "same truncation flag as a fresh object")
		verifAssert(verifDeepEqual(&l, &f), "same field values as decoding into a fresh object")
	}
	verifReached("stale")
}

func verif_C05_stale_Geneve() {
	a := verifBytes("a", 36)
	na := verifInt("na", 0, 36)
	b := verifBytes("b", 36)
	nb := verifInt("nb", 0, 36)
	var l, f Geneve
	_ = l.DecodeFromBytes(a[:na], gopacket.NilDecodeFeedback)
	d1, d2 := &c05DF{}, &c05DF{}
	e1 := l.DecodeFromBytes(b[:nb], d1)
	e2 := f.DecodeFromBytes(b[:nb], d2)
	verifAssert((e1 == nil) == (e2 == nil), "same outcome as decoding into a fresh object")
	if e1 == nil && e2 == nil {
		verifAssert(d1.t == d2.t, "same truncation flag as a fresh object")
		verifAssert(verifDeepEqual(&l, &f), "same field values as decoding into a fresh object")
	}
	verifReached("stale")
}

func verif_C05_stale_ICMPv4() {
	a := verifBytes("a", 20)
	na := verifInt("na", 0, 20)
	b := verifBytes("b", 20)
	nb := verifInt("nb", 0, 20)
	var l, f ICMPv4
	_ = l.DecodeFromBytes(a[:na], gopacket.NilDecodeFeedback)
	d1, d2 := &c05DF{}, &c05DF{}
	e1 := l.DecodeFromBytes(b[:nb], d1)
	e2 := f.DecodeFromBytes(b[:nb], d2)
	verifAssert((e1 == nil) == (e2 == nil), "same outcome as decoding into a fresh object")
	if e1 == nil && e2 == nil {
		verifAssert(d1.t == d2.t, "same truncation flag as a fresh object")
		verifAssert(verifDeepEqual(&l, &f), "same field values as decoding into a fresh object")
	}
	verifReached("stale")
}

func verif_C05_stale2_ICMPv4() {
	a := verifBytes("a", 20)
	na := verifInt("na", 9, 20)
	b := verifBytes("b", 9)
	nb := verifInt("nb", 8, 9)
	var l, f ICMPv4
	if l.DecodeFromBytes(a[:na], gopacket.NilDecodeFeedback) != nil {
		verifReached("first-rejected")
	}
	d1, d2 := &c05DF{}, &c05DF{}
	e1 := l.DecodeFromBytes(b[:nb], d1)
	e2 := f.DecodeFromBytes(b[:nb], d2)
	verifAssert((e1 == nil) == (e2 == nil), "same outcome as decoding into a fresh object")
	if e1 == nil && e2 == nil {
		verifAssert(d1.t == d2.t, "same truncation flag as a fresh object")
		verifAssert(verifDeepEqual(&l, &f), "same field values as decoding into a fresh object")
	}
	verifReached("stale")
}

func verif_C05_stale_ICMPv6() {
	a := verifBytes("a", 20)
	na := verifInt("na", 0, 20)
	b := verifBytes("b", 20)
	nb := verifInt("nb", 0, 20)
	var l, f ICMPv6
	_ = l.DecodeFromBytes(a[:na], gopacket.NilDecodeFeedback)
	d1, d2 := &c05DF{}, &c05DF{}
	e1 := l.DecodeFromBytes(b[:nb], d1)
	e2 := f.DecodeFromBytes(b[:nb], d2)
	verifAssert((e1 == nil) == (e2 == nil), "same outcome as decoding into a fresh object")
	if e1 == nil && e2 == nil {
		verifAssert(d1.t == d2.t, "same truncation flag as a fresh object")
		verifAssert(verifDeepEqual(&l, &f), "same field values as decoding into a fresh object")
	}
	verifReached("stale")
}

func verif_C05_stale2_ICMPv6() {
	a := verifBytes("a", 20)
	na := verifInt("na", 5, 20)
	b := verifBytes("b", 5)
	nb := verifInt("nb", 4, 5)
	var l, f ICMPv6
	if l.DecodeFromBytes(a[:na], gopacket.NilDecodeFeedback) != nil {
		verifReached("first-rejected")
	}
	d1, d2 := &c05DF{}, &c05DF{}
	e1 := l.DecodeFromBytes(b[:nb], d1)
	e2 := f.DecodeFromBytes(b[:nb], d2)
	verifAssert((e1 == nil) == (e2 == nil), "same outcome as decoding into a fresh object")
	if e1 == nil && e2 == nil {
		verifAssert(d1.t == d2.t, "same truncation flag as a fresh object")
		verifAssert(verifDeepEqual(&l, &f), "same field values as decoding into a fresh object")
	}
	verifReached("stale")
}

func verif_C05_stale_ICMPv6Echo() {
	a := verifBytes("a", 36)
	na := verifInt("na", 0, 36)
	b := verifBytes("b", 36)
	nb := verifInt("nb", 0, 36)
	var l, f ICMPv6Echo
	_ = l.DecodeFromBytes(a[:na], gopacket.NilDecodeFeedback)
	d1, d2 := &c05DF{}, &c05DF{}
	e1 := l.DecodeFromBytes(b[:nb], d1)
	e2 := f.DecodeFromBytes(b[:nb], d2)
	verifAssert((e1 == nil) == (e2 == nil), "same outcome as decoding into a fresh object")
	if e1 == nil && e2 == nil {
		verifAssert(d1.t == d2.t, "same truncation flag as a fresh object")
		verifAssert(verifDeepEqual(&l, &f), "same field values as decoding into a fresh object")
	}
	verifReached("stale")
}

func verif_C05_stale_ICMPv6NeighborAdvertisement() {
	a := verifBytes("a", 36)
	na := verifInt("na", 0, 36)
	b := verifBytes("b", 36)
	nb := verifInt("nb", 0, 36)
	var l, f ICMPv6NeighborAdvertisement
	_ = l.DecodeFromBytes(a[:na], gopacket.NilDecodeFeedback)
	d1, d2 := &c05DF{}, &c05DF{}
	e1 := l.DecodeFromBytes(b[:nb], d1)
	e2 := f.DecodeFromBytes(b[:nb], d2)
	verifAssert((e1 == nil) == (e2 == nil), "same outcome as decoding into a fresh object")
	if e1 == nil && e2 == nil {
		verifAssert(d1.t == d2.t, "same truncation flag as a fresh object")
		verifAssert(verifDeepEqual(&l, &f), "same field values as decoding into a fresh object")
	}
	verifReached("stale")
}

func verif_C05_stale_ICMPv6NeighborSolicitation() {
	a := verifBytes("a", 36)
	na := verifInt("na", 0, 36)
	b := verifBytes("b", 36)
	nb := verifInt("nb", 0, 36)
	var l, f ICMPv6NeighborSolicitation
	_ = l.DecodeFromBytes(a[:na], gopacket.NilDecodeFeedback)
	d1, d2 := &c05DF{}, &c05DF{}
	e1 := l.DecodeFromBytes(b[:nb], d1)
	e2 := f.DecodeFromBytes(b[:nb], d2)
	verifAssert((e1 == nil) == (e2 == nil), "same outcome as decoding into a fresh object")
	if e1 == nil && e2 == nil {
		verifAssert(d1.t == d2.t, "same truncation flag as a fresh object")
		verifAssert(verifDeepEqual(&l, &f), "same field values as decoding into a fresh object")
	}
	verifReached("stale")
}

func verif_C05_stale_ICMPv6Redirect() {
	a := verifBytes("a", 36)
	na := verifInt("na", 0, 36)
	b := verifBytes("b", 36)
	nb := verifInt("nb", 0, 36)
	var l, f ICMPv6Redirect
	_ = l.DecodeFromBytes(a[:na], gopacket.NilDecodeFeedback)
	d1, d2 := &c05DF{}, &c05DF{}
	e1 := l.DecodeFromBytes(b[:nb], d1)
	e2 := f.DecodeFromBytes(b[:nb], d2)
	verifAssert((e1 == nil) == (e2 == nil), "same outcome as decoding into a fresh object")
	if e1 == nil && e2 == nil {
		verifAssert(d1.t == d2.t, "same truncation flag as a fresh object")
		verifAssert(verifDeepEqual(&l, &f), "same field values as decoding into a fresh object")
	}
	verifReached("stale")
}

func verif_C05_stale_ICMPv6RouterAdvertisement() {
	a := verifBytes("a", 36)
	na := verifInt("na", 0, 36)
	b := verifBytes("b", 36)
	nb := verifInt("nb", 0, 36)
	var l, f ICMPv6RouterAdvertisement
	_ = l.DecodeFromBytes(a[:na], gopacket.NilDecodeFeedback)
	d1, d2 := &c05DF{}, &c05DF{}
	e1 := l.DecodeFromBytes(b[:nb], d1)
	e2 := f.DecodeFromBytes(b[:nb], d2)
	verifAssert((e1 == nil) == (e2 == nil), "same outcome as decoding into a fresh object")
	if e1 == nil && e2 == nil {
		verifAssert(d1.t == d2.t, "same truncation flag as a fresh object")
		verifAssert(verifDeepEqual(&l, &f), "same field values as decoding into a fresh object")
	}
	verifReached("stale")
}

func verif_C05_stale_ICMPv6RouterSolicitation() {
	a := verifBytes("a", 36)
	na := verifInt("na", 0, 36)
	b := verifBytes("b", 36)
	nb := verifInt("nb", 0, 36)
	var l, f ICMPv6RouterSolicitation
	_ = l.DecodeFromBytes(a[:na], gopacket.NilDecodeFeedback)
	d1, d2 := &c05DF{}, &c05DF{}
	e1 := l.DecodeFromBytes(b[:nb], d1)
	e2 := f.DecodeFromBytes(b[:nb], d2)
	verifAssert((e1 == nil) == (e2 == nil), "same outcome as decoding into a fresh object")
	if e1 == nil && e2 == nil {
		verifAssert(d1.t == d2.t, "same truncation flag as a fresh object")
		verifAssert(verifDeepEqual(&l, &f), "same field values as decoding into a fresh object")
	}
	verifReached("stale")
}

func verif_C05_stale_IGMP() {
	a := verifBytes("a", 36)
	na := verifInt("na", 0, 36)
	b := verifBytes("b", 36)
	nb := verifInt("nb", 0, 36)
	var l, f IGMP
	_ = l.DecodeFromBytes(a[:na], gopacket.NilDecodeFeedback)
	d1, d2 := &c05DF{}, &c05DF{}
	e1 := l.DecodeFromBytes(b[:nb], d1)
	e2 := f.DecodeFromBytes(b[:nb], d2)
	verifAssert((e1 == nil) == (e2 == nil), "same outcome as decoding into a fresh object")
	if e1 == nil && e2 == nil {
		verifAssert(d1.t == d2.t, "same truncation flag as a fresh object")
		verifAssert(verifDeepEqual(&l, &f), "same field values as decoding into a fresh object")
	}
	verifReached("stale")
}

func verif_C05_stale_IGMPv1or2() {
	a := verifBytes("a", 36)
	na := verifInt("na", 0, 36)
	b := verifBytes("b", 36)
	nb := verifInt("nb", 0, 36)
	var l, f IGMPv1or2
	_ = l.DecodeFromBytes(a[:na], gopacket.NilDecodeFeedback)
	d1, d2 := &c05DF{}, &c05DF{}
	e1 := l.DecodeFromBytes(b[:nb], d1)
	e2 := f.DecodeFromBytes(b[:nb], d2)
	verifAssert((e1 == nil) == (e2 == nil), "same outcome as decoding into a fresh object")
	if e1 == nil && e2 == nil {
		verifAssert(d1.t == d2.t, "same truncation flag as a fresh object")
		verifAssert(verifDeepEqual(&l, &f), "same field values as decoding into a fresh object")
	}
	verifReached("stale")
}

func verif_C05_stale_IPSecAH() {
	a := verifBytes("a", 36)
	na := verifInt("na", 0, 36)
	b := verifBytes("b", 36)
	nb := verifInt("nb", 0, 36)
	var l, f IPSecAH
	_ = l.DecodeFromBytes(a[:na], gopacket.NilDecodeFeedback)
	d1, d2 := &c05DF{}, &c05DF{}
	e1 := l.DecodeFromBytes(b[:nb], d1)
	e2 := f.DecodeFromBytes(b[:nb], d2)
	verifAssert((e1 == nil) == (e2 == nil), "same outcome as decoding into a fresh object")
	if e1 == nil && e2 == nil {
		verifAssert(d1.t == d2.t, "same truncation flag as a fresh object")
		verifAssert(verifDeepEqual(&l, &f), "same field values as decoding into a fresh object")
	}
	verifReached("stale")
}

func verif_C05_stale_IPSecESP() {
	a := verifBytes("a", 36)
	na := verifInt("na", 0, 36)
	b := verifBytes("b", 36)
	nb := verifInt("nb", 0, 36)
	var l, f IPSecESP
	_ = l.DecodeFromBytes(a[:na], gopacket.NilDecodeFeedback)
	d1, d2 := &c05DF{}, &c05DF{}
	e1 := l.DecodeFromBytes(b[:nb], d1)
	e2 := f.DecodeFromBytes(b[:nb], d2)
	verifAssert((e1 == nil) == (e2 == nil), "same outcome as decoding into a fresh object")
	if e1 == nil && e2 == nil {
		verifAssert(d1.t == d2.t, "same truncation flag as a fresh object")
		verifAssert(verifDeepEqual(&l, &f), "same field values as decoding into a fresh object")
	}
	verifReached("stale")
}

func verif_C05_stale_IPv4() {
	a := verifBytes("a", 36)
	na := verifInt("na", 0, 36)
	b := verifBytes("b", 36)
	nb := verifInt("nb", 0, 36)
	var l, f IPv4
	_ = l.DecodeFromBytes(a[:na], gopacket.NilDecodeFeedback)
	d1, d2 := &c05DF{}, &c05DF{}
	e1 := l.DecodeFromBytes(b[:nb], d1)
	e2 := f.DecodeFromBytes(b[:nb], d2)
	verifAssert((e1 == nil) == (e2 == nil), "same outcome as decoding into a fresh object")
	if e1 == nil && e2 == nil {
		verifAssert(d1.t == d2.t, "same truncation flag as a fresh object")
		verifAssert(verifDeepEqual(&l, &f), "same field values as decoding into a fresh object")
	}
	verifReached("stale")
}

func verif_C05_stale2_IPv4() {
	a := verifBytes("a", 36)
	na := verifInt("na", 21, 36)
	b := verifBytes("b", 21)
	nb := verifInt("nb", 20, 21)
	var l, f IPv4
	if l.DecodeFromBytes(a[:na], gopacket.NilDecodeFeedback) != nil {
		verifReached("first-rejected")
	}
	d1, d2 := &c05DF{}, &c05DF{}
	e1 := l.DecodeFromBytes(b[:nb], d1)
	e2 := f.DecodeFromBytes(b[:nb], d2)
	verifAssert((e1 == nil) == (e2 == nil), "same outcome as decoding into a fresh object")
	if e1 == nil && e2 == nil {
		verifAssert(d1.t == d2.t, "same truncation flag as a fresh object")
		verifAssert(verifDeepEqual(&l, &f), "same field values as decoding into a fresh object")
	}
	verifReached("stale")
}

func verif_C05_stale_IPv6() {
	a := verifBytes("a", 56)
	na := verifInt("na", 0, 56)
	b := verifBytes("b", 56)
	nb := verifInt("nb", 0, 56)
	var l, f IPv6
	_ = l.DecodeFromBytes(a[:na], gopacket.NilDecodeFeedback)
	d1, d2 := &c05DF{}, &c05DF{}
	e1 := l.DecodeFromBytes(b[:nb], d1)
	e2 := f.DecodeFromBytes(b[:nb], d2)
	verifAssert((e1 == nil) == (e2 == nil), "same outcome as decoding into a fresh object")
	if e1 == nil && e2 == nil {
		verifAssert(d1.t == d2.t, "same truncation flag as a fresh object")
		verifAssert(verifDeepEqual(&l, &f), "same field values as decoding into a fresh object")
	}
	verifReached("stale")
}

func verif_C05_stale2_IPv6() {
	a := verifBytes("a", 56)
	na := verifInt("na", 41, 56)
	b := verifBytes("b", 41)
	nb := verifInt("nb", 40, 41)
	var l, f IPv6
	if l.DecodeFromBytes(a[:na], gopacket.NilDecodeFeedback) != nil {
		verifReached("first-rejected")
	}
	d1, d2 := &c05DF{}, &c05DF{}
	e1 := l.DecodeFromBytes(b[:nb], d1)
	e2 := f.DecodeFromBytes(b[:nb], d2)
	verifAssert((e1 == nil) == (e2 == nil), "same outcome as decoding into a fresh object")
	if e1 == nil && e2 == nil {
		verifAssert(d1.t == d2.t, "same truncation flag as a fresh object")
		verifAssert(verifDeepEqual(&l, &f), "same field values as decoding into a fresh object")
	}
	verifReached("stale")
}

func verif_C05_stale_IPv6Destination() {
	a := verifBytes("a", 36)
	na := verifInt("na", 0, 36)
	b := verifBytes("b", 36)
	nb := verifInt("nb", 0, 36)
	var l, f IPv6Destination
	_ = l.DecodeFromBytes(a[:na], gopacket.NilDecodeFeedback)
	d1, d2 := &c05DF{}, &c05DF{}
	e1 := l.DecodeFromBytes(b[:nb], d1)
	e2 := f.DecodeFromBytes(b[:nb], d2)
	verifAssert((e1 == nil) == (e2 == nil), "same outcome as decoding into a fresh object")
	if e1 == nil && e2 == nil {
		verifAssert(d1.t == d2.t, "same truncation flag as a fresh object")
		verifAssert(verifDeepEqual(&l, &f), "same field values as decoding into a fresh object")
	}
	verifReached("stale")
}

func verif_C05_stale_IPv6ExtensionSkipper() {
	a := verifBytes("a", 36)
	na := verifInt("na", 0, 36)
	b := verifBytes("b", 36)
	nb := verifInt("nb", 0, 36)
	var l, f IPv6ExtensionSkipper
	_ = l.DecodeFromBytes(a[:na], gopacket.NilDecodeFeedback)
	d1, d2 := &c05DF{}, &c05DF{}
	e1 := l.DecodeFromBytes(b[:nb], d1)
	e2 := f.DecodeFromBytes(b[:nb], d2)
	verifAssert((e1 == nil) == (e2 == nil), "same outcome as decoding into a fresh object")
	if e1 == nil && e2 == nil {
		verifAssert(d1.t == d2.t, "same truncation flag as a fresh object")
		verifAssert(verifDeepEqual(&l, &f), "same field values as decoding into a fresh object")
	}
	verifReached("stale")
}

func verif_C05_stale_IPv6HopByHop() {
	a := verifBytes("a", 36)
	na := verifInt("na", 0, 36)
	b := verifBytes("b", 36)
	nb := verifInt("nb", 0, 36)
	var l, f IPv6HopByHop
	_ = l.DecodeFromBytes(a[:na], gopacket.NilDecodeFeedback)
	d1, d2 := &c05DF{}, &c05DF{}
	e1 := l.DecodeFromBytes(b[:nb], d1)
	e2 := f.DecodeFromBytes(b[:nb], d2)
	verifAssert((e1 == nil) == (e2 == nil), "same outcome as decoding into a fresh object")
	if e1 == nil && e2 == nil {
		verifAssert(d1.t == d2.t, "same truncation flag as a fresh object")
		verifAssert(verifDeepEqual(&l, &f), "same field values as decoding into a fresh object")
	}
	verifReached("stale")
}

func verif_C05_stale_LCM() {
	a := verifBytes("a", 36)
	na := verifInt("na", 0, 36)
	b := verifBytes("b", 36)
	nb := verifInt("nb", 0, 36)
	var l, f LCM
	_ = l.DecodeFromBytes(a[:na], gopacket.NilDecodeFeedback)
	d1, d2 := &c05DF{}, &c05DF{}
	e1 := l.DecodeFromBytes(b[:nb], d1)
	e2 := f.DecodeFromBytes(b[:nb], d2)
	verifAssert((e1 == nil) == (e2 == nil), "same outcome as decoding into a fresh object")
	if e1 == nil && e2 == nil {
		verifAssert(d1.t == d2.t, "same truncation flag as a fresh object")
		verifAssert(verifDeepEqual(&l, &f), "same field values as decoding into a fresh object")
	}
	verifReached("stale")
}

func verif_C05_stale_LLC() {
	a := verifBytes("a", 36)
	na := verifInt("na", 0, 36)
	b := verifBytes("b", 36)
	nb := verifInt("nb", 0, 36)
	var l, f LLC
	_ = l.DecodeFromBytes(a[:na], gopacket.NilDecodeFeedback)
	d1, d2 := &c05DF{}, &c05DF{}
	e1 := l.DecodeFromBytes(b[:nb], d1)
	e2 := f.DecodeFromBytes(b[:nb], d2)
	verifAssert((e1 == nil) == (e2 == nil), "same outcome as decoding into a fresh object")
	if e1 == nil && e2 == nil {
		verifAssert(d1.t == d2.t, "same truncation flag as a fresh object")
		verifAssert(verifDeepEqual(&l, &f), "same field values as decoding into a fresh object")
	}
	verifReached("stale")
}

func verif_C05_stale_LinuxSLL() {
	a := verifBytes("a", 36)
	na := verifInt("na", 0, 36)
	b := verifBytes("b", 36)
	nb := verifInt("nb", 0, 36)
	var l, f LinuxSLL
	_ = l.DecodeFromBytes(a[:na], gopacket.NilDecodeFeedback)
	d1, d2 := &c05DF{}, &c05DF{}
	e1 := l.DecodeFromBytes(b[:nb], d1)
	e2 := f.DecodeFromBytes(b[:nb], d2)
	verifAssert((e1 == nil) == (e2 == nil), "same outcome as decoding into a fresh object")
	if e1 == nil && e2 == nil {
		verifAssert(d1.t == d2.t, "same truncation flag as a fresh object")
		verifAssert(verifDeepEqual(&l, &f), "same field values as decoding into a fresh object")
	}
	verifReached("stale")
}

func verif_C05_stale_LinuxSLL2() {
	a := verifBytes("a", 36)
	na := verifInt("na", 0, 36)
	b := verifBytes("b", 36)
	nb := verifInt("nb", 0, 36)
	var l, f LinuxSLL2
	_ = l.DecodeFromBytes(a[:na], gopacket.NilDecodeFeedback)
	d1, d2 := &c05DF{}, &c05DF{}
	e1 := l.DecodeFromBytes(b[:nb], d1)
	e2 := f.DecodeFromBytes(b[:nb], d2)
	verifAssert((e1 == nil) == (e2 == nil), "same outcome as decoding into a fresh object")
	if e1 == nil && e2 == nil {
		verifAssert(d1.t == d2.t, "same truncation flag as a fresh object")
		verifAssert(verifDeepEqual(&l, &f), "same field values as decoding into a fresh object")
	}
	verifReached("stale")
}

func verif_C05_stale_Loopback() {
	a := verifBytes("a", 36)
	na := verifInt("na", 0, 36)
	b := verifBytes("b", 36)
	nb := verifInt("nb", 0, 36)
	var l, f Loopback
	_ = l.DecodeFromBytes(a[:na], gopacket.NilDecodeFeedback)
	d1, d2 := &c05DF{}, &c05DF{}
	e1 := l.DecodeFromBytes(b[:nb], d1)
	e2 := f.DecodeFromBytes(b[:nb], d2)
	verifAssert((e1 == nil) == (e2 == nil), "same outcome as decoding into a fresh object")
	if e1 == nil && e2 == nil {
		verifAssert(d1.t == d2.t, "same truncation flag as a fresh object")
		verifAssert(verifDeepEqual(&l, &f), "same field values as decoding into a fresh object")
	}
	verifReached("stale")
}

func verif_C05_stale_MDP() {
	a := verifBytes("a", 36)
	na := verifInt("na", 0, 36)
	b := verifBytes("b", 36)
	nb := verifInt("nb", 0, 36)
	var l, f MDP
	_ = l.DecodeFromBytes(a[:na], gopacket.NilDecodeFeedback)
	d1, d2 := &c05DF{}, &c05DF{}
	e1 := l.DecodeFromBytes(b[:nb], d1)
	e2 := f.DecodeFromBytes(b[:nb], d2)
	verifAssert((e1 == nil) == (e2 == nil), "same outcome as decoding into a fresh object")
	if e1 == nil && e2 == nil {
		verifAssert(d1.t == d2.t, "same truncation flag as a fresh object")
		verifAssert(verifDeepEqual(&l, &f), "same field values as decoding into a fresh object")
	}
	verifReached("stale")
}

func verif_C05_stale_MLDv1Message() {
	a := verifBytes("a", 36)
	na := verifInt("na", 0, 36)
	b := verifBytes("b", 36)
	nb := verifInt("nb", 0, 36)
	var l, f MLDv1Message
	_ = l.DecodeFromBytes(a[:na], gopacket.NilDecodeFeedback)
	d1, d2 := &c05DF{}, &c05DF{}
	e1 := l.DecodeFromBytes(b[:nb], d1)
	e2 := f.DecodeFromBytes(b[:nb], d2)
	verifAssert((e1 == nil) == (e2 == nil), "same outcome as decoding into a fresh object")
	if e1 == nil && e2 == nil {
		verifAssert(d1.t == d2.t, "same truncation flag as a fresh object")
		verifAssert(verifDeepEqual(&l, &f), "same field values as decoding into a fresh object")
	}
	verifReached("stale")
}

func verif_C05_stale_MLDv1MulticastListenerDoneMessage() {
	a := verifBytes("a", 36)
	na := verifInt("na", 0, 36)
	b := verifBytes("b", 36)
	nb := verifInt("nb", 0, 36)
	var l, f MLDv1MulticastListenerDoneMessage
	_ = l.DecodeFromBytes(a[:na], gopacket.NilDecodeFeedback)
	d1, d2 := &c05DF{}, &c05DF{}
	e1 := l.DecodeFromBytes(b[:nb], d1)
	e2 := f.DecodeFromBytes(b[:nb], d2)
	verifAssert((e1 == nil) == (e2 == nil), "same outcome as decoding into a fresh object")
	if e1 == nil && e2 == nil {
		verifAssert(d1.t == d2.t, "same truncation flag as a fresh object")
		verifAssert(verifDeepEqual(&l, &f), "same field values as decoding into a fresh object")
	}
	verifReached("stale")
}

func verif_C05_stale_MLDv1MulticastListenerQueryMessage() {
	a := verifBytes("a", 36)
	na := verifInt("na", 0, 36)
	b := verifBytes("b", 36)
	nb := verifInt("nb", 0, 36)
	var l, f MLDv1MulticastListenerQueryMessage
	_ = l.DecodeFromBytes(a[:na], gopacket.NilDecodeFeedback)
	d1, d2 := &c05DF{}, &c05DF{}
	e1 := l.DecodeFromBytes(b[:nb], d1)
	e2 := f.DecodeFromBytes(b[:nb], d2)
	verifAssert((e1 == nil) == (e2 == nil), "same outcome as decoding into a fresh object")
	if e1 == nil && e2 == nil {
		verifAssert(d1.t == d2.t, "same truncation flag as a fresh object")
		verifAssert(verifDeepEqual(&l, &f), "same field values as decoding into a fresh object")
	}
	verifReached("stale")
}

func verif_C05_stale_MLDv1MulticastListenerReportMessage() {
	a := verifBytes("a", 36)
	na := verifInt("na", 0, 36)
	b := verifBytes("b", 36)
	nb := verifInt("nb", 0, 36)
	var l, f MLDv1MulticastListenerReportMessage
	_ = l.DecodeFromBytes(a[:na], gopacket.NilDecodeFeedback)
	d1, d2 := &c05DF{}, &c05DF{}
	e1 := l.DecodeFromBytes(b[:nb], d1)
	e2 := f.DecodeFromBytes(b[:nb], d2)
	verifAssert((e1 == nil) == (e2 == nil), "same outcome as decoding into a fresh object")
	if e1 == nil && e2 == nil {
		verifAssert(d1.t == d2.t, "same truncation flag as a fresh object")
		verifAssert(verifDeepEqual(&l, &f), "same field values as decoding into a fresh object")
	}
	verifReached("stale")
}

func verif_C05_stale_MLDv2MulticastListenerQueryMessage() {
	a := verifBytes("a", 36)
	na := verifInt("na", 0, 36)
	b := verifBytes("b", 36)
	nb := verifInt("nb", 0, 36)
	var l, f MLDv2MulticastListenerQueryMessage
	_ = l.DecodeFromBytes(a[:na], gopacket.NilDecodeFeedback)
	d1, d2 := &c05DF{}, &c05DF{}
	e1 := l.DecodeFromBytes(b[:nb], d1)
	e2 := f.DecodeFromBytes(b[:nb], d2)
	verifAssert((e1 == nil) == (e2 == nil), "same outcome as decoding into a fresh object")
	if e1 == nil && e2 == nil {
		verifAssert(d1.t == d2.t, "same truncation flag as a fresh object")
		verifAssert(verifDeepEqual(&l, &f), "same field values as decoding into a fresh object")
	}
	verifReached("stale")
}

func verif_C05_stale_MLDv2MulticastListenerReportMessage() {
	a := verifBytes("a", 36)
	na := verifInt("na", 0, 36)
	b := verifBytes("b", 36)
	nb := verifInt("nb", 0, 36)
	var l, f MLDv2MulticastListenerReportMessage
	_ = l.DecodeFromBytes(a[:na], gopacket.NilDecodeFeedback)
	d1, d2 := &c05DF{}, &c05DF{}
	e1 := l.DecodeFromBytes(b[:nb], d1)
	e2 := f.DecodeFromBytes(b[:nb], d2)
	verifAssert((e1 == nil) == (e2 == nil), "same outcome as decoding into a fresh object")
	if e1 == nil && e2 == nil {
		verifAssert(d1.t == d2.t, "same truncation flag as a fresh object")
		verifAssert(verifDeepEqual(&l, &f), "same field values as decoding into a fresh object")
	}
	verifReached("stale")
}

func verif_C05_stale_Modbus() {
	a := verifBytes("a", 36)
	na := verifInt("na", 0, 36)
	b := verifBytes("b", 36)
	nb := verifInt("nb", 0, 36)
	var l, f Modbus
	_ = l.DecodeFromBytes(a[:na], gopacket.NilDecodeFeedback)
	d1, d2 := &c05DF{}, &c05DF{}
	e1 := l.DecodeFromBytes(b[:nb], d1)
	e2 := f.DecodeFromBytes(b[:nb], d2)
	verifAssert((e1 == nil) == (e2 == nil), "same outcome as decoding into a fresh object")
	if e1 == nil && e2 == nil {
		verifAssert(d1.t == d2.t, "same truncation flag as a fresh object")
		verifAssert(verifDeepEqual(&l, &f), "same field values as decoding into a fresh object")
	}
	verifReached("stale")
}

func verif_C05_stale_ModbusTCP() {
	a := verifBytes("a", 36)
	na := verifInt("na", 0, 36)
	b := verifBytes("b", 36)
	nb := verifInt("nb", 0, 36)
	var l, f ModbusTCP
	_ = l.DecodeFromBytes(a[:na], gopacket.NilDecodeFeedback)
	d1, d2 := &c05DF{}, &c05DF{}
	e1 := l.DecodeFromBytes(b[:nb], d1)
	e2 := f.DecodeFromBytes(b[:nb], d2)
	verifAssert((e1 == nil) == (e2 == nil), "same outcome as decoding into a fresh object")
	if e1 == nil && e2 == nil {
		verifAssert(d1.t == d2.t, "same truncation flag as a fresh object")
		verifAssert(verifDeepEqual(&l, &f), "same field values as decoding into a fresh object")
	}
	verifReached("stale")
}

func verif_C05_stale_NTP() {
	a := verifBytes("a", 36)
	na := verifInt("na", 0, 36)
	b := verifBytes("b", 36)
	nb := verifInt("nb", 0, 36)
	var l, f NTP
	_ = l.DecodeFromBytes(a[:na], gopacket.NilDecodeFeedback)
	d1, d2 := &c05DF{}, &c05DF{}
	e1 := l.DecodeFromBytes(b[:nb], d1)
	e2 := f.DecodeFromBytes(b[:nb], d2)
	verifAssert((e1 == nil) == (e2 == nil), "same outcome as decoding into a fresh object")
	if e1 == nil && e2 == nil {
		verifAssert(d1.t == d2.t, "same truncation flag as a fresh object")
		verifAssert(verifDeepEqual(&l, &f), "same field values as decoding into a fresh object")
	}
	verifReached("stale")
}

func verif_C05_stale_OSPFv2() {
	a := verifBytes("a", 36)
	na := verifInt("na", 0, 36)
	b := verifBytes("b", 36)
	nb := verifInt("nb", 0, 36)
	var l, f OSPFv2
	_ = l.DecodeFromBytes(a[:na], gopacket.NilDecodeFeedback)
	d1, d2 := &c05DF{}, &c05DF{}
	e1 := l.DecodeFromBytes(b[:nb], d1)
	e2 := f.DecodeFromBytes(b[:nb], d2)
	verifAssert((e1 == nil) == (e2 == nil), "same outcome as decoding into a fresh object")
	if e1 == nil && e2 == nil {
		verifAssert(d1.t == d2.t, "same truncation flag as a fresh object")
		verifAssert(verifDeepEqual(&l, &f), "same field values as decoding into a fresh object")
	}
	verifReached("stale")
}

func verif_C05_stale_OSPFv3() {
	a := verifBytes("a", 36)
	na := verifInt("na", 0, 36)
	b := verifBytes("b", 36)
	nb := verifInt("nb", 0, 36)
	var l, f OSPFv3
	_ = l.DecodeFromBytes(a[:na], gopacket.NilDecodeFeedback)
	d1, d2 := &c05DF{}, &c05DF{}
	e1 := l.DecodeFromBytes(b[:nb], d1)
	e2 := f.DecodeFromBytes(b[:nb], d2)
	verifAssert((e1 == nil) == (e2 == nil), "same outcome as decoding into a fresh object")
	if e1 == nil && e2 == nil {
		verifAssert(d1.t == d2.t, "same truncation flag as a fresh object")
		verifAssert(verifDeepEqual(&l, &f), "same field values as decoding into a fresh object")
	}
	verifReached("stale")
}

func verif_C05_stale_PFLog() {
	a := verifBytes("a", 36)
	na := verifInt("na", 0, 36)
	b := verifBytes("b", 36)
	nb := verifInt("nb", 0, 36)
	var l, f PFLog
	_ = l.DecodeFromBytes(a[:na], gopacket.NilDecodeFeedback)
	d1, d2 := &c05DF{}, &c05DF{}
	e1 := l.DecodeFromBytes(b[:nb], d1)
	e2 := f.DecodeFromBytes(b[:nb], d2)
	verifAssert((e1 == nil) == (e2 == nil), "same outcome as decoding into a fresh object")
	if e1 == nil && e2 == nil {
		verifAssert(d1.t == d2.t, "same truncation flag as a fresh object")
		verifAssert(verifDeepEqual(&l, &f), "same field values as decoding into a fresh object")
	}
	verifReached("stale")
}

func verif_C05_stale_PktapV1() {
	a := verifBytes("a", 36)
	na := verifInt("na", 0, 36)
	b := verifBytes("b", 36)
	nb := verifInt("nb", 0, 36)
	var l, f PktapV1
	_ = l.DecodeFromBytes(a[:na], gopacket.NilDecodeFeedback)
	d1, d2 := &c05DF{}, &c05DF{}
	e1 := l.DecodeFromBytes(b[:nb], d1)
	e2 := f.DecodeFromBytes(b[:nb], d2)
	verifAssert((e1 == nil) == (e2 == nil), "same outcome as decoding into a fresh object")
	if e1 == nil && e2 == nil {
		verifAssert(d1.t == d2.t, "same truncation flag as a fresh object")
		verifAssert(verifDeepEqual(&l, &f), "same field values as decoding into a fresh object")
	}
	verifReached("stale")
}

func verif_C05_stale_PrismHeader() {
	a := verifBytes("a", 36)
	na := verifInt("na", 0, 36)
	b := verifBytes("b", 36)
	nb := verifInt("nb", 0, 36)
	var l, f PrismHeader
	_ = l.DecodeFromBytes(a[:na], gopacket.NilDecodeFeedback)
	d1, d2 := &c05DF{}, &c05DF{}
	e1 := l.DecodeFromBytes(b[:nb], d1)
	e2 := f.DecodeFromBytes(b[:nb], d2)
	verifAssert((e1 == nil) == (e2 == nil), "same outcome as decoding into a fresh object")
	if e1 == nil && e2 == nil {
		verifAssert(d1.t == d2.t, "same truncation flag as a fresh object")
		verifAssert(verifDeepEqual(&l, &f), "same field values as decoding into a fresh object")
	}
	verifReached("stale")
}

func verif_C05_stale_RADIUS() {
	a := verifBytes("a", 36)
	na := verifInt("na", 0, 36)
	b := verifBytes("b", 36)
	nb := verifInt("nb", 0, 36)
	var l, f RADIUS
	_ = l.DecodeFromBytes(a[:na], gopacket.NilDecodeFeedback)
	d1, d2 := &c05DF{}, &c05DF{}
	e1 := l.DecodeFromBytes(b[:nb], d1)
	e2 := f.DecodeFromBytes(b[:nb], d2)
	verifAssert((e1 == nil) == (e2 == nil), "same outcome as decoding into a fresh object")
	if e1 == nil && e2 == nil {
		verifAssert(d1.t == d2.t, "same truncation flag as a fresh object")
		verifAssert(verifDeepEqual(&l, &f), "same field values as decoding into a fresh object")
	}
	verifReached("stale")
}

func verif_C05_stale_RMCP() {
	a := verifBytes("a", 36)
	na := verifInt("na", 0, 36)
	b := verifBytes("b", 36)
	nb := verifInt("nb", 0, 36)
	var l, f RMCP
	_ = l.DecodeFromBytes(a[:na], gopacket.NilDecodeFeedback)
	d1, d2 := &c05DF{}, &c05DF{}
	e1 := l.DecodeFromBytes(b[:nb], d1)
	e2 := f.DecodeFromBytes(b[:nb], d2)
	verifAssert((e1 == nil) == (e2 == nil), "same outcome as decoding into a fresh object")
	if e1 == nil && e2 == nil {
		verifAssert(d1.t == d2.t, "same truncation flag as a fresh object")
		verifAssert(verifDeepEqual(&l, &f), "same field values as decoding into a fresh object")
	}
	verifReached("stale")
}

func verif_C05_stale_RadioTap() {
	a := verifBytes("a", 36)
	na := verifInt("na", 0, 36)
	b := verifBytes("b", 36)
	nb := verifInt("nb", 0, 36)
	var l, f RadioTap
	_ = l.DecodeFromBytes(a[:na], gopacket.NilDecodeFeedback)
	d1, d2 := &c05DF{}, &c05DF{}
	e1 := l.DecodeFromBytes(b[:nb], d1)
	e2 := f.DecodeFromBytes(b[:nb], d2)
	verifAssert((e1 == nil) == (e2 == nil), "same outcome as decoding into a fresh object")
	if e1 == nil && e2 == nil {
		verifAssert(d1.t == d2.t, "same truncation flag as a fresh object")
		verifAssert(verifDeepEqual(&l, &f), "same field values as decoding into a fresh object")
	}
	verifReached("stale")
}

func verif_C05_stale_SCTP() {
	a := verifBytes("a", 36)
	na := verifInt("na", 0, 36)
	b := verifBytes("b", 36)
	nb := verifInt("nb", 0, 36)
	var l, f SCTP
	_ = l.DecodeFromBytes(a[:na], gopacket.NilDecodeFeedback)
	d1, d2 := &c05DF{}, &c05DF{}
	e1 := l.DecodeFromBytes(b[:nb], d1)
	e2 := f.DecodeFromBytes(b[:nb], d2)
	verifAssert((e1 == nil) == (e2 == nil), "same outcome as decoding into a fresh object")
	if e1 == nil && e2 == nil {
		verifAssert(d1.t == d2.t, "same truncation flag as a fresh object")
		verifAssert(verifDeepEqual(&l, &f), "same field values as decoding into a fresh object")
	}
	verifReached("stale")
}

func verif_C05_stale_SFlowDatagram() {
	a := verifBytes("a", 36)
	na := verifInt("na", 0, 36)
	b := verifBytes("b", 36)
	nb := verifInt("nb", 0, 36)
	var l, f SFlowDatagram
	_ = l.DecodeFromBytes(a[:na], gopacket.NilDecodeFeedback)
	d1, d2 := &c05DF{}, &c05DF{}
	e1 := l.DecodeFromBytes(b[:nb], d1)
	e2 := f.DecodeFromBytes(b[:nb], d2)
	verifAssert((e1 == nil) == (e2 == nil), "same outcome as decoding into a fresh object")
	if e1 == nil && e2 == nil {
		verifAssert(d1.t == d2.t, "same truncation flag as a fresh object")
		verifAssert(verifDeepEqual(&l, &f), "same field values as decoding into a fresh object")
	}
	verifReached("stale")
}

func verif_C05_stale_SIP() {
	a := verifBytes("a", 36)
	na := verifInt("na", 0, 36)
	b := verifBytes("b", 36)
	nb := verifInt("nb", 0, 36)
	var l, f SIP
	_ = l.DecodeFromBytes(a[:na], gopacket.NilDecodeFeedback)
	d1, d2 := &c05DF{}, &c05DF{}
	e1 := l.DecodeFromBytes(b[:nb], d1)
	e2 := f.DecodeFromBytes(b[:nb], d2)
	verifAssert((e1 == nil) == (e2 == nil), "same outcome as decoding into a fresh object")
	if e1 == nil && e2 == nil {
		verifAssert(d1.t == d2.t, "same truncation flag as a fresh object")
		verifAssert(verifDeepEqual(&l, &f), "same field values as decoding into a fresh object")
	}
	verifReached("stale")
}

func verif_C05_stale_SNAP() {
	a := verifBytes("a", 36)
	na := verifInt("na", 0, 36)
	b := verifBytes("b", 36)
	nb := verifInt("nb", 0, 36)
	var l, f SNAP
	_ = l.DecodeFromBytes(a[:na], gopacket.NilDecodeFeedback)
	d1, d2 := &c05DF{}, &c05DF{}
	e1 := l.DecodeFromBytes(b[:nb], d1)
	e2 := f.DecodeFromBytes(b[:nb], d2)
	verifAssert((e1 == nil) == (e2 == nil), "same outcome as decoding into a fresh object")
	if e1 == nil && e2 == nil {
		verifAssert(d1.t == d2.t, "same truncation flag as a fresh object")
		verifAssert(verifDeepEqual(&l, &f), "same field values as decoding into a fresh object")
	}
	verifReached("stale")
}

func verif_C05_stale_STP() {
	a := verifBytes("a", 36)
	na := verifInt("na", 0, 36)
	b := verifBytes("b", 36)
	nb := verifInt("nb", 0, 36)
	var l, f STP
	_ = l.DecodeFromBytes(a[:na], gopacket.NilDecodeFeedback)
	d1, d2 := &c05DF{}, &c05DF{}
	e1 := l.DecodeFromBytes(b[:nb], d1)
	e2 := f.DecodeFromBytes(b[:nb], d2)
	verifAssert((e1 == nil) == (e2 == nil), "same outcome as decoding into a fresh object")
	if e1 == nil && e2 == nil {
		verifAssert(d1.t == d2.t, "same truncation flag as a fresh object")
		verifAssert(verifDeepEqual(&l, &f), "same field values as decoding into a fresh object")
	}
	verifReached("stale")
}

func verif_C05_stale_TCP() {
	a := verifBytes("a", 36)
	na := verifInt("na", 0, 36)
	b := verifBytes("b", 36)
	nb := verifInt("nb", 0, 36)
	var l, f TCP
	_ = l.DecodeFromBytes(a[:na], gopacket.NilDecodeFeedback)
	d1, d2 := &c05DF{}, &c05DF{}
	e1 := l.DecodeFromBytes(b[:nb], d1)
	e2 := f.DecodeFromBytes(b[:nb], d2)
	verifAssert((e1 == nil) == (e2 == nil), "same outcome as decoding into a fresh object")
	if e1 == nil && e2 == nil {
		verifAssert(d1.t == d2.t, "same truncation flag as a fresh object")
		verifAssert(verifDeepEqual(&l, &f), "same field values as decoding into a fresh object")
	}
	verifReached("stale")
}

func verif_C05_stale2_TCP() {
	a := verifBytes("a", 36)
	na := verifInt("na", 21, 36)
	b := verifBytes("b", 21)
	nb := verifInt("nb", 20, 21)
	var l, f TCP
	if l.DecodeFromBytes(a[:na], gopacket.NilDecodeFeedback) != nil {
		verifReached("first-rejected")
	}
	d1, d2 := &c05DF{}, &c05DF{}
	e1 := l.DecodeFromBytes(b[:nb], d1)
	e2 := f.DecodeFromBytes(b[:nb], d2)
	verifAssert((e1 == nil) == (e2 == nil), "same outcome as decoding into a fresh object")
	if e1 == nil && e2 == nil {
		verifAssert(d1.t == d2.t, "same truncation flag as a fresh object")
		verifAssert(verifDeepEqual(&l, &f), "same field values as decoding into a fresh object")
	}
	verifReached("stale")
}

func verif_C05_stale_TLS() {
	a := verifBytes("a", 36)
	na := verifInt("na", 0, 36)
	b := verifBytes("b", 36)
	nb := verifInt("nb", 0, 36)
	var l, f TLS
	_ = l.DecodeFromBytes(a[:na], gopacket.NilDecodeFeedback)
	d1, d2 := &c05DF{}, &c05DF{}
	e1 := l.DecodeFromBytes(b[:nb], d1)
	e2 := f.DecodeFromBytes(b[:nb], d2)
	verifAssert((e1 == nil) == (e2 == nil), "same outcome as decoding into a fresh object")
	if e1 == nil && e2 == nil {
		verifAssert(d1.t == d2.t, "same truncation flag as a fresh object")
		verifAssert(verifDeepEqual(&l, &f), "same field values as decoding into a fresh object")
	}
	verifReached("stale")
}

func verif_C05_stale_UDP() {
	a := verifBytes("a", 20)
	na := verifInt("na", 0, 20)
	b := verifBytes("b", 20)
	nb := verifInt("nb", 0, 20)
	var l, f UDP
	_ = l.DecodeFromBytes(a[:na], gopacket.NilDecodeFeedback)
	d1, d2 := &c05DF{}, &c05DF{}
	e1 := l.DecodeFromBytes(b[:nb], d1)
	e2 := f.DecodeFromBytes(b[:nb], d2)
	verifAssert((e1 == nil) == (e2 == nil), "same outcome as decoding into a fresh object")
	if e1 == nil && e2 == nil {
		verifAssert(d1.t == d2.t, "same truncation flag as a fresh object")
		verifAssert(verifDeepEqual(&l, &f), "same field values as decoding into a fresh object")
	}
	verifReached("stale")
}

func verif_C05_stale2_UDP() {
	a := verifBytes("a", 20)
	na := verifInt("na", 9, 20)
	b := verifBytes("b", 9)
	nb := verifInt("nb", 8, 9)
	var l, f UDP
	if l.DecodeFromBytes(a[:na], gopacket.NilDecodeFeedback) != nil {
		verifReached("first-rejected")
	}
	d1, d2 := &c05DF{}, &c05DF{}
	e1 := l.DecodeFromBytes(b[:nb], d1)
	e2 := f.DecodeFromBytes(b[:nb], d2)
	verifAssert((e1 == nil) == (e2 == nil), "same outcome as decoding into a fresh object")
	if e1 == nil && e2 == nil {
		verifAssert(d1.t == d2.t, "same truncation flag as a fresh object")
		verifAssert(verifDeepEqual(&l, &f), "same field values as decoding into a fresh object")
	}
	verifReached("stale")
}

func verif_C05_stale_USB() {
	a := verifBytes("a", 36)
	na := verifInt("na", 0, 36)
	b := verifBytes("b", 36)
	nb := verifInt("nb", 0, 36)
	var l, f USB
	_ = l.DecodeFromBytes(a[:na], gopacket.NilDecodeFeedback)
	d1, d2 := &c05DF{}, &c05DF{}
	e1 := l.DecodeFromBytes(b[:nb], d1)
	e2 := f.DecodeFromBytes(b[:nb], d2)
	verifAssert((e1 == nil) == (e2 == nil), "same outcome as decoding into a fresh object")
	if e1 == nil && e2 == nil {
		verifAssert(d1.t == d2.t, "same truncation flag as a fresh object")
		verifAssert(verifDeepEqual(&l, &f), "same field values as decoding into a fresh object")
	}
	verifReached("stale")
}

func verif_C05_stale_USBBulk() {
	a := verifBytes("a", 36)
	na := verifInt("na", 0, 36)
	b := verifBytes("b", 36)
	nb := verifInt("nb", 0, 36)
	var l, f USBBulk
	_ = l.DecodeFromBytes(a[:na], gopacket.NilDecodeFeedback)
	d1, d2 := &c05DF{}, &c05DF{}
	e1 := l.DecodeFromBytes(b[:nb], d1)
	e2 := f.DecodeFromBytes(b[:nb], d2)
	verifAssert((e1 == nil) == (e2 == nil), "same outcome as decoding into a fresh object")
	if e1 == nil && e2 == nil {
		verifAssert(d1.t == d2.t, "same truncation flag as a fresh object")
		verifAssert(verifDeepEqual(&l, &f), "same field values as decoding into a fresh object")
	}
	verifReached("stale")
}

func verif_C05_stale_USBControl() {
	a := verifBytes("a", 36)
	na := verifInt("na", 0, 36)
	b := verifBytes("b", 36)
	nb := verifInt("nb", 0, 36)
	var l, f USBControl
	_ = l.DecodeFromBytes(a[:na], gopacket.NilDecodeFeedback)
	d1, d2 := &c05DF{}, &c05DF{}
	e1 := l.DecodeFromBytes(b[:nb], d1)
	e2 := f.DecodeFromBytes(b[:nb], d2)
	verifAssert((e1 == nil) == (e2 == nil), "same outcome as decoding into a fresh object")
	if e1 == nil && e2 == nil {
		verifAssert(d1.t == d2.t, "same truncation flag as a fresh object")
		verifAssert(verifDeepEqual(&l, &f), "same field values as decoding into a fresh object")
	}
	verifReached("stale")
}

func verif_C05_stale_USBInterrupt() {
	a := verifBytes("a", 36)
	na := verifInt("na", 0, 36)
	b := verifBytes("b", 36)
	nb := verifInt("nb", 0, 36)
	var l, f USBInterrupt
	_ = l.DecodeFromBytes(a[:na], gopacket.NilDecodeFeedback)
	d1, d2 := &c05DF{}, &c05DF{}
	e1 := l.DecodeFromBytes(b[:nb], d1)
	e2 := f.DecodeFromBytes(b[:nb], d2)
	verifAssert((e1 == nil) == (e2 == nil), "same outcome as decoding into a fresh object")
	if e1 == nil && e2 == nil {
		verifAssert(d1.t == d2.t, "same truncation flag as a fresh object")
		verifAssert(verifDeepEqual(&l, &f), "same field values as decoding into a fresh object")
	}
	verifReached("stale")
}

func verif_C05_stale_USBRequestBlockSetup() {
	a := verifBytes("a", 36)
	na := verifInt("na", 0, 36)
	b := verifBytes("b", 36)
	nb := verifInt("nb", 0, 36)
	var l, f USBRequestBlockSetup
	_ = l.DecodeFromBytes(a[:na], gopacket.NilDecodeFeedback)
	d1, d2 := &c05DF{}, &c05DF{}
	e1 := l.DecodeFromBytes(b[:nb], d1)
	e2 := f.DecodeFromBytes(b[:nb], d2)
	verifAssert((e1 == nil) == (e2 == nil), "same outcome as decoding into a fresh object")
	if e1 == nil && e2 == nil {
		verifAssert(d1.t == d2.t, "same truncation flag as a fresh object")
		verifAssert(verifDeepEqual(&l, &f), "same field values as decoding into a fresh object")
	}
	verifReached("stale")
}

func verif_C05_stale_VRRPv2() {
	a := verifBytes("a", 36)
	na := verifInt("na", 0, 36)
	b := verifBytes("b", 36)
	nb := verifInt("nb", 0, 36)
	var l, f VRRPv2
	_ = l.DecodeFromBytes(a[:na], gopacket.NilDecodeFeedback)
	d1, d2 := &c05DF{}, &c05DF{}
	e1 := l.DecodeFromBytes(b[:nb], d1)
	e2 := f.DecodeFromBytes(b[:nb], d2)
	verifAssert((e1 == nil) == (e2 == nil), "same outcome as decoding into a fresh object")
	if e1 == nil && e2 == nil {
		verifAssert(d1.t == d2.t, "same truncation flag as a fresh object")
		verifAssert(verifDeepEqual(&l, &f), "same field values as decoding into a fresh object")
	}
	verifReached("stale")
}

func verif_C05_stale_VXLAN() {
	a := verifBytes("a", 36)
	na := verifInt("na", 0, 36)
	b := verifBytes("b", 36)
	nb := verifInt("nb", 0, 36)
	var l, f VXLAN
	_ = l.DecodeFromBytes(a[:na], gopacket.NilDecodeFeedback)
	d1, d2 := &c05DF{}, &c05DF{}
	e1 := l.DecodeFromBytes(b[:nb], d1)
	e2 := f.DecodeFromBytes(b[:nb], d2)
	verifAssert((e1 == nil) == (e2 == nil), "same outcome as decoding into a fresh object")
	if e1 == nil && e2 == nil {
		verifAssert(d1.t == d2.t, "same truncation flag as a fresh object")
		verifAssert(verifDeepEqual(&l, &f), "same field values as decoding into a fresh object")
	}
	verifReached("stale")
}
