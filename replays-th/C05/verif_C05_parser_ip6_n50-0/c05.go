package layers

import (
	"bytes"

	"github.com/gopacket/gopacket"
)

// C05: preallocated-layer decoding equals packet decoding; no stale state.

type c05DF struct{ t bool }

func (d *c05DF) SetTruncated() { d.t = true }

// parser over the common stack vs NewPacket, first layer IPv4 or IPv6
func c05Parser(first gopacket.LayerType, n int) {
	in := verifBytes("in", n)
	ln := verifInt("n", 1, n)
	var eth Ethernet
	var dot1q Dot1Q
	var ip4 IPv4
	var ip6 IPv6
	var tcp TCP
	var udp UDP
	var pay gopacket.Payload
	var parser *gopacket.DecodingLayerParser
	all := []gopacket.DecodingLayer{&eth, &dot1q, &ip4, &ip6, &tcp, &udp, &pay}
	switch verifChoose(3) {
	case 0:
		parser = gopacket.NewDecodingLayerParser(first, all...)
	case 1:
		dlc := gopacket.DecodingLayerContainer(gopacket.DecodingLayerSparse(nil))
		for _, l := range all {
			dlc = dlc.Put(l)
		}
		parser = gopacket.NewDecodingLayerParser(first)
		parser.SetDecodingLayerContainer(dlc)
	default:
		dlc := gopacket.DecodingLayerContainer(gopacket.DecodingLayerArray(nil))
		for _, l := range all {
			dlc = dlc.Put(l)
		}
		parser = gopacket.NewDecodingLayerParser(first)
		parser.SetDecodingLayerContainer(dlc)
	}
	var decoded []gopacket.LayerType
	perr := parser.DecodeLayers(in[:ln], &decoded)
	p := gopacket.NewPacket(in[:ln], first, gopacket.DecodeOptions{DecodeStreamsAsDatagrams: true})
	ls := p.Layers()
	// the parser reports a leading run of the packet's layers
	j := 0
	for _, t := range decoded {
		// the IPv6 hop-by-hop extension is a separate layer in packets but
		// part of the IPv6 object for the parser
		if j < len(ls) && ls[j].LayerType() == LayerTypeIPv6HopByHop && t != LayerTypeIPv6HopByHop {
			j++
		}
		verifAssert(j < len(ls), "parser reports no more layers than packet decoding")
		if j >= len(ls) {
			break
		}
		verifAssert(ls[j].LayerType() == t, "parser reports the layer types packet decoding produces, in order")
		var mine gopacket.Layer
		switch t {
		case LayerTypeEthernet:
			mine = &eth
		case LayerTypeDot1Q:
			mine = &dot1q
		case LayerTypeIPv4:
			mine = &ip4
		case LayerTypeIPv6:
			mine = &ip6
		case LayerTypeTCP:
			mine = &tcp
		case LayerTypeUDP:
			mine = &udp
		case gopacket.LayerTypePayload:
			mine = &pay
		}
		if mine != nil {
			verifAssert(bytes.Equal(mine.LayerContents(), ls[j].LayerContents()), "same contents")
			verifAssert(bytes.Equal(mine.LayerPayload(), ls[j].LayerPayload()), "same payload")
			verifAssert(verifDeepEqual(mine, ls[j]), "same field values as packet decoding")
		}
		j++
	}
	if perr == nil && p.ErrorLayer() == nil && j == len(ls) {
		// everything decoded by both: the run is the whole packet and flags agree
		verifAssert(parser.Truncated == p.Metadata().Truncated, "same truncation flag")
	}
	verifReached("parser")
}

func verif_C05_parser_ip4() { c05Parser(LayerTypeIPv4, verifParam("n")) }
func verif_C05_parser_ip6() { c05Parser(LayerTypeIPv6, verifParam("n")) }
func verif_C05_parser_eth() { c05Parser(LayerTypeEthernet, verifParam("n")) }
