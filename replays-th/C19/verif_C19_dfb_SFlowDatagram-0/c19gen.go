package layers

import "github.com/gopacket/gopacket"

var _ = gopacket.NilDecodeFeedback

func verif_C19_dfb_AGUEVar0() {
	in := verifBytes("in", 32)
	n := verifInt("n", 0, 32)
	var l AGUEVar0
	_ = l.DecodeFromBytes(in[:n], gopacket.NilDecodeFeedback)
	verifReached("done")
}

func verif_C19_dfb_AGUEVar1() {
	in := verifBytes("in", 32)
	n := verifInt("n", 0, 32)
	var l AGUEVar1
	_ = l.DecodeFromBytes(in[:n], gopacket.NilDecodeFeedback)
	verifReached("done")
}

func verif_C19_dfb_APSP() {
	in := verifBytes("in", 32)
	n := verifInt("n", 0, 32)
	var l APSP
	_ = l.DecodeFromBytes(in[:n], gopacket.NilDecodeFeedback)
	verifReached("done")
}

func verif_C19_dfb_ARP() {
	in := verifBytes("in", 32)
	n := verifInt("n", 0, 32)
	var l ARP
	_ = l.DecodeFromBytes(in[:n], gopacket.NilDecodeFeedback)
	verifReached("done")
}

func verif_C19_dfb_ASF() {
	in := verifBytes("in", 32)
	n := verifInt("n", 0, 32)
	var l ASF
	_ = l.DecodeFromBytes(in[:n], gopacket.NilDecodeFeedback)
	verifReached("done")
}

func verif_C19_dfb_ASFPresencePong() {
	in := verifBytes("in", 32)
	n := verifInt("n", 0, 32)
	var l ASFPresencePong
	_ = l.DecodeFromBytes(in[:n], gopacket.NilDecodeFeedback)
	verifReached("done")
}

func verif_C19_dfb_BFD() {
	in := verifBytes("in", 32)
	n := verifInt("n", 0, 32)
	var l BFD
	_ = l.DecodeFromBytes(in[:n], gopacket.NilDecodeFeedback)
	verifReached("done")
}

func verif_C19_dfb_CIP() {
	in := verifBytes("in", 32)
	n := verifInt("n", 0, 32)
	var l CIP
	_ = l.DecodeFromBytes(in[:n], gopacket.NilDecodeFeedback)
	verifReached("done")
}

func verif_C19_dfb_DHCPv4() {
	in := verifBytes("in", 32)
	n := verifInt("n", 0, 32)
	var l DHCPv4
	_ = l.DecodeFromBytes(in[:n], gopacket.NilDecodeFeedback)
	verifReached("done")
}

func verif_C19_dfb_DHCPv6() {
	in := verifBytes("in", 32)
	n := verifInt("n", 0, 32)
	var l DHCPv6
	_ = l.DecodeFromBytes(in[:n], gopacket.NilDecodeFeedback)
	verifReached("done")
}

func verif_C19_dfb_DHCPv6DUID() {
	in := verifBytes("in", 32)
	n := verifInt("n", 0, 32)
	var l DHCPv6DUID
	_ = l.DecodeFromBytes(in[:n])
	verifReached("done")
}

func verif_C19_dfb_DNS() {
	in := verifBytes("in", 20)
	n := verifInt("n", 0, 20)
	var l DNS
	_ = l.DecodeFromBytes(in[:n], gopacket.NilDecodeFeedback)
	verifReached("done")
}

func verif_C19_dfb_Diameter() {
	in := verifBytes("in", 32)
	n := verifInt("n", 0, 32)
	var l Diameter
	_ = l.DecodeFromBytes(in[:n], gopacket.NilDecodeFeedback)
	verifReached("done")
}

func verif_C19_dfb_Dot11() {
	in := verifBytes("in", 32)
	n := verifInt("n", 0, 32)
	var l Dot11
	_ = l.DecodeFromBytes(in[:n], gopacket.NilDecodeFeedback)
	verifReached("done")
}

func verif_C19_dfb_Dot11Ctrl() {
	in := verifBytes("in", 32)
	n := verifInt("n", 0, 32)
	var l Dot11Ctrl
	_ = l.DecodeFromBytes(in[:n], gopacket.NilDecodeFeedback)
	verifReached("done")
}

func verif_C19_dfb_Dot11CtrlAck() {
	in := verifBytes("in", 32)
	n := verifInt("n", 0, 32)
	var l Dot11CtrlAck
	_ = l.DecodeFromBytes(in[:n], gopacket.NilDecodeFeedback)
	verifReached("done")
}

func verif_C19_dfb_Dot11CtrlBlockAck() {
	in := verifBytes("in", 32)
	n := verifInt("n", 0, 32)
	var l Dot11CtrlBlockAck
	_ = l.DecodeFromBytes(in[:n], gopacket.NilDecodeFeedback)
	verifReached("done")
}

func verif_C19_dfb_Dot11CtrlBlockAckReq() {
	in := verifBytes("in", 32)
	n := verifInt("n", 0, 32)
	var l Dot11CtrlBlockAckReq
	_ = l.DecodeFromBytes(in[:n], gopacket.NilDecodeFeedback)
	verifReached("done")
}

func verif_C19_dfb_Dot11CtrlCFEnd() {
	in := verifBytes("in", 32)
	n := verifInt("n", 0, 32)
	var l Dot11CtrlCFEnd
	_ = l.DecodeFromBytes(in[:n], gopacket.NilDecodeFeedback)
	verifReached("done")
}

func verif_C19_dfb_Dot11CtrlCFEndAck() {
	in := verifBytes("in", 32)
	n := verifInt("n", 0, 32)
	var l Dot11CtrlCFEndAck
	_ = l.DecodeFromBytes(in[:n], gopacket.NilDecodeFeedback)
	verifReached("done")
}

func verif_C19_dfb_Dot11CtrlCTS() {
	in := verifBytes("in", 32)
	n := verifInt("n", 0, 32)
	var l Dot11CtrlCTS
	_ = l.DecodeFromBytes(in[:n], gopacket.NilDecodeFeedback)
	verifReached("done")
}

func verif_C19_dfb_Dot11CtrlPowersavePoll() {
	in := verifBytes("in", 32)
	n := verifInt("n", 0, 32)
	var l Dot11CtrlPowersavePoll
	_ = l.DecodeFromBytes(in[:n], gopacket.NilDecodeFeedback)
	verifReached("done")
}

func verif_C19_dfb_Dot11CtrlRTS() {
	in := verifBytes("in", 32)
	n := verifInt("n", 0, 32)
	var l Dot11CtrlRTS
	_ = l.DecodeFromBytes(in[:n], gopacket.NilDecodeFeedback)
	verifReached("done")
}

func verif_C19_dfb_Dot11Data() {
	in := verifBytes("in", 32)
	n := verifInt("n", 0, 32)
	var l Dot11Data
	_ = l.DecodeFromBytes(in[:n], gopacket.NilDecodeFeedback)
	verifReached("done")
}

func verif_C19_dfb_Dot11DataCFAck() {
	in := verifBytes("in", 32)
	n := verifInt("n", 0, 32)
	var l Dot11DataCFAck
	_ = l.DecodeFromBytes(in[:n], gopacket.NilDecodeFeedback)
	verifReached("done")
}

func verif_C19_dfb_Dot11DataCFAckNoData() {
	in := verifBytes("in", 32)
	n := verifInt("n", 0, 32)
	var l Dot11DataCFAckNoData
	_ = l.DecodeFromBytes(in[:n], gopacket.NilDecodeFeedback)
	verifReached("done")
}

func verif_C19_dfb_Dot11DataCFAckPoll() {
	in := verifBytes("in", 32)
	n := verifInt("n", 0, 32)
	var l Dot11DataCFAckPoll
	_ = l.DecodeFromBytes(in[:n], gopacket.NilDecodeFeedback)
	verifReached("done")
}

func verif_C19_dfb_Dot11DataCFAckPollNoData() {
	in := verifBytes("in", 32)
	n := verifInt("n", 0, 32)
	var l Dot11DataCFAckPollNoData
	_ = l.DecodeFromBytes(in[:n], gopacket.NilDecodeFeedback)
	verifReached("done")
}

func verif_C19_dfb_Dot11DataCFPoll() {
	in := verifBytes("in", 32)
	n := verifInt("n", 0, 32)
	var l Dot11DataCFPoll
	_ = l.DecodeFromBytes(in[:n], gopacket.NilDecodeFeedback)
	verifReached("done")
}

func verif_C19_dfb_Dot11DataCFPollNoData() {
	in := verifBytes("in", 32)
	n := verifInt("n", 0, 32)
	var l Dot11DataCFPollNoData
	_ = l.DecodeFromBytes(in[:n], gopacket.NilDecodeFeedback)
	verifReached("done")
}

func verif_C19_dfb_Dot11DataNull() {
	in := verifBytes("in", 32)
	n := verifInt("n", 0, 32)
	var l Dot11DataNull
	_ = l.DecodeFromBytes(in[:n], gopacket.NilDecodeFeedback)
	verifReached("done")
}

func verif_C19_dfb_Dot11DataQOS() {
	in := verifBytes("in", 32)
	n := verifInt("n", 0, 32)
	var l Dot11DataQOS
	_ = l.DecodeFromBytes(in[:n], gopacket.NilDecodeFeedback)
	verifReached("done")
}

func verif_C19_dfb_Dot11DataQOSCFAckPollNoData() {
	in := verifBytes("in", 32)
	n := verifInt("n", 0, 32)
	var l Dot11DataQOSCFAckPollNoData
	_ = l.DecodeFromBytes(in[:n], gopacket.NilDecodeFeedback)
	verifReached("done")
}

func verif_C19_dfb_Dot11DataQOSCFPollNoData() {
	in := verifBytes("in", 32)
	n := verifInt("n", 0, 32)
	var l Dot11DataQOSCFPollNoData
	_ = l.DecodeFromBytes(in[:n], gopacket.NilDecodeFeedback)
	verifReached("done")
}

func verif_C19_dfb_Dot11DataQOSData() {
	in := verifBytes("in", 32)
	n := verifInt("n", 0, 32)
	var l Dot11DataQOSData
	_ = l.DecodeFromBytes(in[:n], gopacket.NilDecodeFeedback)
	verifReached("done")
}

func verif_C19_dfb_Dot11DataQOSDataCFAck() {
	in := verifBytes("in", 32)
	n := verifInt("n", 0, 32)
	var l Dot11DataQOSDataCFAck
	_ = l.DecodeFromBytes(in[:n], gopacket.NilDecodeFeedback)
	verifReached("done")
}

func verif_C19_dfb_Dot11DataQOSDataCFAckPoll() {
	in := verifBytes("in", 32)
	n := verifInt("n", 0, 32)
	var l Dot11DataQOSDataCFAckPoll
	_ = l.DecodeFromBytes(in[:n], gopacket.NilDecodeFeedback)
	verifReached("done")
}

func verif_C19_dfb_Dot11DataQOSDataCFPoll() {
	in := verifBytes("in", 32)
	n := verifInt("n", 0, 32)
	var l Dot11DataQOSDataCFPoll
	_ = l.DecodeFromBytes(in[:n], gopacket.NilDecodeFeedback)
	verifReached("done")
}

func verif_C19_dfb_Dot11DataQOSNull() {
	in := verifBytes("in", 32)
	n := verifInt("n", 0, 32)
	var l Dot11DataQOSNull
	_ = l.DecodeFromBytes(in[:n], gopacket.NilDecodeFeedback)
	verifReached("done")
}

func verif_C19_dfb_Dot11InformationElement() {
	in := verifBytes("in", 32)
	n := verifInt("n", 0, 32)
	var l Dot11InformationElement
	_ = l.DecodeFromBytes(in[:n], gopacket.NilDecodeFeedback)
	verifReached("done")
}

func verif_C19_dfb_Dot11Mgmt() {
	in := verifBytes("in", 32)
	n := verifInt("n", 0, 32)
	var l Dot11Mgmt
	_ = l.DecodeFromBytes(in[:n], gopacket.NilDecodeFeedback)
	verifReached("done")
}

func verif_C19_dfb_Dot11MgmtATIM() {
	in := verifBytes("in", 32)
	n := verifInt("n", 0, 32)
	var l Dot11MgmtATIM
	_ = l.DecodeFromBytes(in[:n], gopacket.NilDecodeFeedback)
	verifReached("done")
}

func verif_C19_dfb_Dot11MgmtAction() {
	in := verifBytes("in", 32)
	n := verifInt("n", 0, 32)
	var l Dot11MgmtAction
	_ = l.DecodeFromBytes(in[:n], gopacket.NilDecodeFeedback)
	verifReached("done")
}

func verif_C19_dfb_Dot11MgmtActionNoAck() {
	in := verifBytes("in", 32)
	n := verifInt("n", 0, 32)
	var l Dot11MgmtActionNoAck
	_ = l.DecodeFromBytes(in[:n], gopacket.NilDecodeFeedback)
	verifReached("done")
}

func verif_C19_dfb_Dot11MgmtArubaWLAN() {
	in := verifBytes("in", 32)
	n := verifInt("n", 0, 32)
	var l Dot11MgmtArubaWLAN
	_ = l.DecodeFromBytes(in[:n], gopacket.NilDecodeFeedback)
	verifReached("done")
}

func verif_C19_dfb_Dot11MgmtAssociationReq() {
	in := verifBytes("in", 32)
	n := verifInt("n", 0, 32)
	var l Dot11MgmtAssociationReq
	_ = l.DecodeFromBytes(in[:n], gopacket.NilDecodeFeedback)
	verifReached("done")
}

func verif_C19_dfb_Dot11MgmtAssociationResp() {
	in := verifBytes("in", 32)
	n := verifInt("n", 0, 32)
	var l Dot11MgmtAssociationResp
	_ = l.DecodeFromBytes(in[:n], gopacket.NilDecodeFeedback)
	verifReached("done")
}

func verif_C19_dfb_Dot11MgmtAuthentication() {
	in := verifBytes("in", 32)
	n := verifInt("n", 0, 32)
	var l Dot11MgmtAuthentication
	_ = l.DecodeFromBytes(in[:n], gopacket.NilDecodeFeedback)
	verifReached("done")
}

func verif_C19_dfb_Dot11MgmtBeacon() {
	in := verifBytes("in", 32)
	n := verifInt("n", 0, 32)
	var l Dot11MgmtBeacon
	_ = l.DecodeFromBytes(in[:n], gopacket.NilDecodeFeedback)
	verifReached("done")
}

func verif_C19_dfb_Dot11MgmtDeauthentication() {
	in := verifBytes("in", 32)
	n := verifInt("n", 0, 32)
	var l Dot11MgmtDeauthentication
	_ = l.DecodeFromBytes(in[:n], gopacket.NilDecodeFeedback)
	verifReached("done")
}

func verif_C19_dfb_Dot11MgmtDisassociation() {
	in := verifBytes("in", 32)
	n := verifInt("n", 0, 32)
	var l Dot11MgmtDisassociation
	_ = l.DecodeFromBytes(in[:n], gopacket.NilDecodeFeedback)
	verifReached("done")
}

func verif_C19_dfb_Dot11MgmtMeasurementPilot() {
	in := verifBytes("in", 32)
	n := verifInt("n", 0, 32)
	var l Dot11MgmtMeasurementPilot
	_ = l.DecodeFromBytes(in[:n], gopacket.NilDecodeFeedback)
	verifReached("done")
}

func verif_C19_dfb_Dot11MgmtProbeReq() {
	in := verifBytes("in", 32)
	n := verifInt("n", 0, 32)
	var l Dot11MgmtProbeReq
	_ = l.DecodeFromBytes(in[:n], gopacket.NilDecodeFeedback)
	verifReached("done")
}

func verif_C19_dfb_Dot11MgmtProbeResp() {
	in := verifBytes("in", 32)
	n := verifInt("n", 0, 32)
	var l Dot11MgmtProbeResp
	_ = l.DecodeFromBytes(in[:n], gopacket.NilDecodeFeedback)
	verifReached("done")
}

func verif_C19_dfb_Dot11MgmtReassociationReq() {
	in := verifBytes("in", 32)
	n := verifInt("n", 0, 32)
	var l Dot11MgmtReassociationReq
	_ = l.DecodeFromBytes(in[:n], gopacket.NilDecodeFeedback)
	verifReached("done")
}

func verif_C19_dfb_Dot11MgmtReassociationResp() {
	in := verifBytes("in", 32)
	n := verifInt("n", 0, 32)
	var l Dot11MgmtReassociationResp
	_ = l.DecodeFromBytes(in[:n], gopacket.NilDecodeFeedback)
	verifReached("done")
}

func verif_C19_dfb_Dot11WEP() {
	in := verifBytes("in", 32)
	n := verifInt("n", 0, 32)
	var l Dot11WEP
	_ = l.DecodeFromBytes(in[:n], gopacket.NilDecodeFeedback)
	verifReached("done")
}

func verif_C19_dfb_Dot1Q() {
	in := verifBytes("in", 32)
	n := verifInt("n", 0, 32)
	var l Dot1Q
	_ = l.DecodeFromBytes(in[:n], gopacket.NilDecodeFeedback)
	verifReached("done")
}

func verif_C19_dfb_EAP() {
	in := verifBytes("in", 32)
	n := verifInt("n", 0, 32)
	var l EAP
	_ = l.DecodeFromBytes(in[:n], gopacket.NilDecodeFeedback)
	verifReached("done")
}

func verif_C19_dfb_EAPOL() {
	in := verifBytes("in", 32)
	n := verifInt("n", 0, 32)
	var l EAPOL
	_ = l.DecodeFromBytes(in[:n], gopacket.NilDecodeFeedback)
	verifReached("done")
}

func verif_C19_dfb_EAPOLKey() {
	in := verifBytes("in", 32)
	n := verifInt("n", 0, 32)
	var l EAPOLKey
	_ = l.DecodeFromBytes(in[:n], gopacket.NilDecodeFeedback)
	verifReached("done")
}

func verif_C19_dfb_ENIP() {
	in := verifBytes("in", 32)
	n := verifInt("n", 0, 32)
	var l ENIP
	_ = l.DecodeFromBytes(in[:n], gopacket.NilDecodeFeedback)
	verifReached("done")
}

func verif_C19_dfb_ERSPANII() {
	in := verifBytes("in", 32)
	n := verifInt("n", 0, 32)
	var l ERSPANII
	_ = l.DecodeFromBytes(in[:n], gopacket.NilDecodeFeedback)
	verifReached("done")
}

func verif_C19_dfb_EtherIP() {
	in := verifBytes("in", 32)
	n := verifInt("n", 0, 32)
	var l EtherIP
	_ = l.DecodeFromBytes(in[:n], gopacket.NilDecodeFeedback)
	verifReached("done")
}

func verif_C19_dfb_Ethernet() {
	in := verifBytes("in", 32)
	n := verifInt("n", 0, 32)
	var l Ethernet
	_ = l.DecodeFromBytes(in[:n], gopacket.NilDecodeFeedback)
	verifReached("done")
}

func verif_C19_dfb_GRE() {
	in := verifBytes("in", 32)
	n := verifInt("n", 0, 32)
	var l GRE
	_ = l.DecodeFromBytes(in[:n], gopacket.NilDecodeFeedback)
	verifReached("done")
}

func verif_C19_dfb_GTPv1U() {
	in := verifBytes("in", 32)
	n := verifInt("n", 0, 32)
	var l GTPv1U
	_ = l.DecodeFromBytes(in[:n], gopacket.NilDecodeFeedback)
	verifReached("done")
}

func verif_C19_dfb_GTPv2() {
	in := verifBytes("in", 32)
	n := verifInt("n", 0, 32)
	var l GTPv2
	_ = l.DecodeFromBytes(in[:n], gopacket.NilDecodeFeedback)
	verifReached("done")
}

func verif_C19_dfb_Geneve() {
	in := verifBytes("in", 32)
	n := verifInt("n", 0, 32)
	var l Geneve
	_ = l.DecodeFromBytes(in[:n], gopacket.NilDecodeFeedback)
	verifReached("done")
}

func verif_C19_dfb_ICMPv4() {
	in := verifBytes("in", 32)
	n := verifInt("n", 0, 32)
	var l ICMPv4
	_ = l.DecodeFromBytes(in[:n], gopacket.NilDecodeFeedback)
	verifReached("done")
}

func verif_C19_dfb_ICMPv6() {
	in := verifBytes("in", 32)
	n := verifInt("n", 0, 32)
	var l ICMPv6
	_ = l.DecodeFromBytes(in[:n], gopacket.NilDecodeFeedback)
	verifReached("done")
}

func verif_C19_dfb_ICMPv6Echo() {
	in := verifBytes("in", 32)
	n := verifInt("n", 0, 32)
	var l ICMPv6Echo
	_ = l.DecodeFromBytes(in[:n], gopacket.NilDecodeFeedback)
	verifReached("done")
}

func verif_C19_dfb_ICMPv6NeighborAdvertisement() {
	in := verifBytes("in", 32)
	n := verifInt("n", 0, 32)
	var l ICMPv6NeighborAdvertisement
	_ = l.DecodeFromBytes(in[:n], gopacket.NilDecodeFeedback)
	verifReached("done")
}

func verif_C19_dfb_ICMPv6NeighborSolicitation() {
	in := verifBytes("in", 32)
	n := verifInt("n", 0, 32)
	var l ICMPv6NeighborSolicitation
	_ = l.DecodeFromBytes(in[:n], gopacket.NilDecodeFeedback)
	verifReached("done")
}

func verif_C19_dfb_ICMPv6Redirect() {
	in := verifBytes("in", 32)
	n := verifInt("n", 0, 32)
	var l ICMPv6Redirect
	_ = l.DecodeFromBytes(in[:n], gopacket.NilDecodeFeedback)
	verifReached("done")
}

func verif_C19_dfb_ICMPv6RouterAdvertisement() {
	in := verifBytes("in", 32)
	n := verifInt("n", 0, 32)
	var l ICMPv6RouterAdvertisement
	_ = l.DecodeFromBytes(in[:n], gopacket.NilDecodeFeedback)
	verifReached("done")
}

func verif_C19_dfb_ICMPv6RouterSolicitation() {
	in := verifBytes("in", 32)
	n := verifInt("n", 0, 32)
	var l ICMPv6RouterSolicitation
	_ = l.DecodeFromBytes(in[:n], gopacket.NilDecodeFeedback)
	verifReached("done")
}

func verif_C19_dfb_IGMP() {
	in := verifBytes("in", 32)
	n := verifInt("n", 0, 32)
	var l IGMP
	_ = l.DecodeFromBytes(in[:n], gopacket.NilDecodeFeedback)
	verifReached("done")
}

func verif_C19_dfb_IGMPv1or2() {
	in := verifBytes("in", 32)
	n := verifInt("n", 0, 32)
	var l IGMPv1or2
	_ = l.DecodeFromBytes(in[:n], gopacket.NilDecodeFeedback)
	verifReached("done")
}

func verif_C19_dfb_IPSecAH() {
	in := verifBytes("in", 32)
	n := verifInt("n", 0, 32)
	var l IPSecAH
	_ = l.DecodeFromBytes(in[:n], gopacket.NilDecodeFeedback)
	verifReached("done")
}

func verif_C19_dfb_IPSecESP() {
	in := verifBytes("in", 32)
	n := verifInt("n", 0, 32)
	var l IPSecESP
	_ = l.DecodeFromBytes(in[:n], gopacket.NilDecodeFeedback)
	verifReached("done")
}

func verif_C19_dfb_IPv4() {
	in := verifBytes("in", 32)
	n := verifInt("n", 0, 32)
	var l IPv4
	_ = l.DecodeFromBytes(in[:n], gopacket.NilDecodeFeedback)
	verifReached("done")
}

func verif_C19_dfb_IPv6() {
	in := verifBytes("in", 32)
	n := verifInt("n", 0, 32)
	var l IPv6
	_ = l.DecodeFromBytes(in[:n], gopacket.NilDecodeFeedback)
	verifReached("done")
}

func verif_C19_dfb_IPv6Destination() {
	in := verifBytes("in", 32)
	n := verifInt("n", 0, 32)
	var l IPv6Destination
	_ = l.DecodeFromBytes(in[:n], gopacket.NilDecodeFeedback)
	verifReached("done")
}

func verif_C19_dfb_IPv6ExtensionSkipper() {
	in := verifBytes("in", 32)
	n := verifInt("n", 0, 32)
	var l IPv6ExtensionSkipper
	_ = l.DecodeFromBytes(in[:n], gopacket.NilDecodeFeedback)
	verifReached("done")
}

func verif_C19_dfb_IPv6HopByHop() {
	in := verifBytes("in", 32)
	n := verifInt("n", 0, 32)
	var l IPv6HopByHop
	_ = l.DecodeFromBytes(in[:n], gopacket.NilDecodeFeedback)
	verifReached("done")
}

func verif_C19_dfb_LCM() {
	in := verifBytes("in", 32)
	n := verifInt("n", 0, 32)
	var l LCM
	_ = l.DecodeFromBytes(in[:n], gopacket.NilDecodeFeedback)
	verifReached("done")
}

func verif_C19_dfb_LLC() {
	in := verifBytes("in", 32)
	n := verifInt("n", 0, 32)
	var l LLC
	_ = l.DecodeFromBytes(in[:n], gopacket.NilDecodeFeedback)
	verifReached("done")
}

func verif_C19_dfb_LinuxSLL() {
	in := verifBytes("in", 32)
	n := verifInt("n", 0, 32)
	var l LinuxSLL
	_ = l.DecodeFromBytes(in[:n], gopacket.NilDecodeFeedback)
	verifReached("done")
}

func verif_C19_dfb_LinuxSLL2() {
	in := verifBytes("in", 32)
	n := verifInt("n", 0, 32)
	var l LinuxSLL2
	_ = l.DecodeFromBytes(in[:n], gopacket.NilDecodeFeedback)
	verifReached("done")
}

func verif_C19_dfb_Loopback() {
	in := verifBytes("in", 32)
	n := verifInt("n", 0, 32)
	var l Loopback
	_ = l.DecodeFromBytes(in[:n], gopacket.NilDecodeFeedback)
	verifReached("done")
}

func verif_C19_dfb_MDP() {
	in := verifBytes("in", 32)
	n := verifInt("n", 0, 32)
	var l MDP
	_ = l.DecodeFromBytes(in[:n], gopacket.NilDecodeFeedback)
	verifReached("done")
}

func verif_C19_dfb_MLDv1Message() {
	in := verifBytes("in", 32)
	n := verifInt("n", 0, 32)
	var l MLDv1Message
	_ = l.DecodeFromBytes(in[:n], gopacket.NilDecodeFeedback)
	verifReached("done")
}

func verif_C19_dfb_MLDv1MulticastListenerDoneMessage() {
	in := verifBytes("in", 32)
	n := verifInt("n", 0, 32)
	var l MLDv1MulticastListenerDoneMessage
	_ = l.DecodeFromBytes(in[:n], gopacket.NilDecodeFeedback)
	verifReached("done")
}

func verif_C19_dfb_MLDv1MulticastListenerQueryMessage() {
	in := verifBytes("in", 32)
	n := verifInt("n", 0, 32)
	var l MLDv1MulticastListenerQueryMessage
	_ = l.DecodeFromBytes(in[:n], gopacket.NilDecodeFeedback)
	verifReached("done")
}

func verif_C19_dfb_MLDv1MulticastListenerReportMessage() {
	in := verifBytes("in", 32)
	n := verifInt("n", 0, 32)
	var l MLDv1MulticastListenerReportMessage
	_ = l.DecodeFromBytes(in[:n], gopacket.NilDecodeFeedback)
	verifReached("done")
}

func verif_C19_dfb_MLDv2MulticastListenerQueryMessage() {
	in := verifBytes("in", 32)
	n := verifInt("n", 0, 32)
	var l MLDv2MulticastListenerQueryMessage
	_ = l.DecodeFromBytes(in[:n], gopacket.NilDecodeFeedback)
	verifReached("done")
}

func verif_C19_dfb_MLDv2MulticastListenerReportMessage() {
	in := verifBytes("in", 32)
	n := verifInt("n", 0, 32)
	var l MLDv2MulticastListenerReportMessage
	_ = l.DecodeFromBytes(in[:n], gopacket.NilDecodeFeedback)
	verifReached("done")
}

func verif_C19_dfb_Modbus() {
	in := verifBytes("in", 32)
	n := verifInt("n", 0, 32)
	var l Modbus
	_ = l.DecodeFromBytes(in[:n], gopacket.NilDecodeFeedback)
	verifReached("done")
}

func verif_C19_dfb_ModbusTCP() {
	in := verifBytes("in", 32)
	n := verifInt("n", 0, 32)
	var l ModbusTCP
	_ = l.DecodeFromBytes(in[:n], gopacket.NilDecodeFeedback)
	verifReached("done")
}

func verif_C19_dfb_NTP() {
	in := verifBytes("in", 32)
	n := verifInt("n", 0, 32)
	var l NTP
	_ = l.DecodeFromBytes(in[:n], gopacket.NilDecodeFeedback)
	verifReached("done")
}

func verif_C19_dfb_OSPFv2() {
	in := verifBytes("in", 32)
	n := verifInt("n", 0, 32)
	var l OSPFv2
	_ = l.DecodeFromBytes(in[:n], gopacket.NilDecodeFeedback)
	verifReached("done")
}

func verif_C19_dfb_OSPFv3() {
	in := verifBytes("in", 32)
	n := verifInt("n", 0, 32)
	var l OSPFv3
	_ = l.DecodeFromBytes(in[:n], gopacket.NilDecodeFeedback)
	verifReached("done")
}

func verif_C19_dfb_PFLog() {
	in := verifBytes("in", 32)
	n := verifInt("n", 0, 32)
	var l PFLog
	_ = l.DecodeFromBytes(in[:n], gopacket.NilDecodeFeedback)
	verifReached("done")
}

func verif_C19_dfb_PktapV1() {
	in := verifBytes("in", 32)
	n := verifInt("n", 0, 32)
	var l PktapV1
	_ = l.DecodeFromBytes(in[:n], gopacket.NilDecodeFeedback)
	verifReached("done")
}

func verif_C19_dfb_PrismHeader() {
	in := verifBytes("in", 32)
	n := verifInt("n", 0, 32)
	var l PrismHeader
	_ = l.DecodeFromBytes(in[:n], gopacket.NilDecodeFeedback)
	verifReached("done")
}

func verif_C19_dfb_RADIUS() {
	in := verifBytes("in", 32)
	n := verifInt("n", 0, 32)
	var l RADIUS
	_ = l.DecodeFromBytes(in[:n], gopacket.NilDecodeFeedback)
	verifReached("done")
}

func verif_C19_dfb_RMCP() {
	in := verifBytes("in", 32)
	n := verifInt("n", 0, 32)
	var l RMCP
	_ = l.DecodeFromBytes(in[:n], gopacket.NilDecodeFeedback)
	verifReached("done")
}

func verif_C19_dfb_RadioTap() {
	in := verifBytes("in", 32)
	n := verifInt("n", 0, 32)
	var l RadioTap
	_ = l.DecodeFromBytes(in[:n], gopacket.NilDecodeFeedback)
	verifReached("done")
}

func verif_C19_dfb_SCTP() {
	in := verifBytes("in", 32)
	n := verifInt("n", 0, 32)
	var l SCTP
	_ = l.DecodeFromBytes(in[:n], gopacket.NilDecodeFeedback)
	verifReached("done")
}

func verif_C19_dfb_SFlowDatagram() {
	in := verifBytes("in", 32)
	n := verifInt("n", 0, 32)
	var l SFlowDatagram
	_ = l.DecodeFromBytes(in[:n], gopacket.NilDecodeFeedback)
	verifReached("done")
}

func verif_C19_dfb_SIP() {
	in := verifBytes("in", 16)
	n := verifInt("n", 0, 16)
	var l SIP
	_ = l.DecodeFromBytes(in[:n], gopacket.NilDecodeFeedback)
	verifReached("done")
}

func verif_C19_dfb_SNAP() {
	in := verifBytes("in", 32)
	n := verifInt("n", 0, 32)
	var l SNAP
	_ = l.DecodeFromBytes(in[:n], gopacket.NilDecodeFeedback)
	verifReached("done")
}

func verif_C19_dfb_STP() {
	in := verifBytes("in", 32)
	n := verifInt("n", 0, 32)
	var l STP
	_ = l.DecodeFromBytes(in[:n], gopacket.NilDecodeFeedback)
	verifReached("done")
}

func verif_C19_dfb_TCP() {
	in := verifBytes("in", 32)
	n := verifInt("n", 0, 32)
	var l TCP
	_ = l.DecodeFromBytes(in[:n], gopacket.NilDecodeFeedback)
	verifReached("done")
}

func verif_C19_dfb_TLS() {
	in := verifBytes("in", 32)
	n := verifInt("n", 0, 32)
	var l TLS
	_ = l.DecodeFromBytes(in[:n], gopacket.NilDecodeFeedback)
	verifReached("done")
}

func verif_C19_dfb_UDP() {
	in := verifBytes("in", 32)
	n := verifInt("n", 0, 32)
	var l UDP
	_ = l.DecodeFromBytes(in[:n], gopacket.NilDecodeFeedback)
	verifReached("done")
}

func verif_C19_dfb_USB() {
	in := verifBytes("in", 32)
	n := verifInt("n", 0, 32)
	var l USB
	_ = l.DecodeFromBytes(in[:n], gopacket.NilDecodeFeedback)
	verifReached("done")
}

func verif_C19_dfb_USBBulk() {
	in := verifBytes("in", 32)
	n := verifInt("n", 0, 32)
	var l USBBulk
	_ = l.DecodeFromBytes(in[:n], gopacket.NilDecodeFeedback)
	verifReached("done")
}

func verif_C19_dfb_USBControl() {
	in := verifBytes("in", 32)
	n := verifInt("n", 0, 32)
	var l USBControl
	_ = l.DecodeFromBytes(in[:n], gopacket.NilDecodeFeedback)
	verifReached("done")
}

func verif_C19_dfb_USBInterrupt() {
	in := verifBytes("in", 32)
	n := verifInt("n", 0, 32)
	var l USBInterrupt
	_ = l.DecodeFromBytes(in[:n], gopacket.NilDecodeFeedback)
	verifReached("done")
}

func verif_C19_dfb_USBRequestBlockSetup() {
	in := verifBytes("in", 32)
	n := verifInt("n", 0, 32)
	var l USBRequestBlockSetup
	_ = l.DecodeFromBytes(in[:n], gopacket.NilDecodeFeedback)
	verifReached("done")
}

func verif_C19_dfb_VRRPv2() {
	in := verifBytes("in", 32)
	n := verifInt("n", 0, 32)
	var l VRRPv2
	_ = l.DecodeFromBytes(in[:n], gopacket.NilDecodeFeedback)
	verifReached("done")
}

func verif_C19_dfb_VXLAN() {
	in := verifBytes("in", 32)
	n := verifInt("n", 0, 32)
	var l VXLAN
	_ = l.DecodeFromBytes(in[:n], gopacket.NilDecodeFeedback)
	verifReached("done")
}
