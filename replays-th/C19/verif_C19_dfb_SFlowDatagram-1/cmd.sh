#!/bin/sh
export PATH=/opt/veriftools/go1.26.8/bin:$PATH GOTOOLCHAIN=local GOFLAGS=-mod=mod GOPROXY=off GOSUMDB=off
cd /repo && VERIF_REPLAY_PARAMS='' VERIF_REPLAY_UNIT=verif_C19_dfb_SFlowDatagram VERIF_REPLAY_INPUTS=/verif/replays-th/C19/verif_C19_dfb_SFlowDatagram-1/inputs.json go test -vet=off -count=1 -timeout 30s -overlay /verif/replays-th/C19/verif_C19_dfb_SFlowDatagram-1/overlay.json -run '^TestVerifReplay$' -v ./layers
