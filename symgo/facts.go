package main

// Path facts: terms decided on the current path and unsigned ranges refined
// from them.  Conditions implied by these facts are decided without a solver
// query.  Everything here is a deterministic function of the decisions taken
// so far, so first execution and replay agree.

type Facts struct {
	tt    *TermTable
	known map[*Term]bool
	ov    map[*Term]rng
	memo  map[*Term]rng
	Hits  int
}

func newFacts(tt *TermTable) *Facts {
	return &Facts{tt: tt, known: map[*Term]bool{}, ov: map[*Term]rng{}, memo: map[*Term]rng{}}
}

func (f *Facts) reset() {
	f.known = map[*Term]bool{}
	f.ov = map[*Term]rng{}
	f.memo = map[*Term]rng{}
}

// rangeOf: refined unsigned range of a bit-vector term.
func (f *Facts) rangeOf(t *Term) rng {
	if t.op == OpConst {
		return rng{t.k, t.k}
	}
	if len(f.ov) == 0 {
		return rng{t.lo, t.hi}
	}
	if r, ok := f.memo[t]; ok {
		return r
	}
	f.memo[t] = rng{t.lo, t.hi} // cycle/depth guard value (sound)
	var ra, rb, rc rng
	if t.a != nil && t.a.w > 0 {
		ra = f.rangeOf(t.a)
	}
	if t.b != nil && t.b.w > 0 {
		rb = f.rangeOf(t.b)
	}
	if t.c != nil && t.c.w > 0 {
		rc = f.rangeOf(t.c)
	}
	r := rng{t.lo, t.hi}
	if t.op != OpVar {
		x := rangeXfer(t, ra, rb, rc)
		if t.op == OpIte {
			// the condition may be known
			if v, ok := f.lookup(t.a); ok {
				if v {
					x = rb
				} else {
					x = rc
				}
			}
		}
		if x.lo > r.lo {
			r.lo = x.lo
		}
		if x.hi < r.hi {
			r.hi = x.hi
		}
	}
	if o, ok := f.ov[t]; ok {
		if o.lo > r.lo {
			r.lo = o.lo
		}
		if o.hi < r.hi {
			r.hi = o.hi
		}
	}
	if r.lo > r.hi { // contradictory facts can only arise on infeasible paths
		r = rng{t.lo, t.hi}
	}
	f.memo[t] = r
	return r
}

func (f *Facts) lookup(c *Term) (bool, bool) {
	neg := false
	for c.op == OpBNot {
		c = c.a
		neg = !neg
	}
	if c.IsConst() {
		return (c.k != 0) != neg, true
	}
	if v, ok := f.known[c]; ok {
		return v != neg, true
	}
	return false, false
}

func (f *Facts) narrow(t *Term, lo, hi uint64) {
	if t.op == OpConst || t.w == 0 {
		return
	}
	cur, ok := f.ov[t]
	if !ok {
		cur = rng{0, mask(t.w)}
	}
	changed := false
	if lo > cur.lo {
		cur.lo = lo
		changed = true
	}
	if hi < cur.hi {
		cur.hi = hi
		changed = true
	}
	if changed || !ok {
		f.ov[t] = cur
		f.memo = map[*Term]rng{}
	}
	// look through zero extension
	if t.op == OpZExt {
		m := mask(t.a.w)
		h := hi
		if h > m {
			h = m
		}
		f.narrow(t.a, lo, h)
	}
}

// learn records that c has value v on this path.
func (f *Facts) learn(c *Term, v bool) {
	for c.op == OpBNot {
		c = c.a
		v = !v
	}
	if c.IsConst() {
		return
	}
	if _, ok := f.known[c]; ok {
		return
	}
	f.known[c] = v
	switch c.op {
	case OpBAnd:
		if v {
			f.learn(c.a, true)
			f.learn(c.b, true)
		}
	case OpBOr:
		if !v {
			f.learn(c.a, false)
			f.learn(c.b, false)
		}
	case OpUlt:
		ra, rb := f.rangeOf(c.a), f.rangeOf(c.b)
		if v { // a < b
			if rb.hi > 0 {
				f.narrow(c.a, 0, rb.hi-1)
			}
			if ra.lo < ^uint64(0) {
				f.narrow(c.b, ra.lo+1, mask(c.b.w))
			}
		} else { // a >= b
			f.narrow(c.a, rb.lo, mask(c.a.w))
			f.narrow(c.b, 0, ra.hi)
		}
	case OpEq:
		if c.a.w == 0 {
			return
		}
		ra, rb := f.rangeOf(c.a), f.rangeOf(c.b)
		if v {
			f.narrow(c.a, rb.lo, rb.hi)
			f.narrow(c.b, ra.lo, ra.hi)
		} else {
			if rb.lo == rb.hi {
				if ra.lo == rb.lo && ra.lo < mask(c.a.w) {
					f.narrow(c.a, ra.lo+1, mask(c.a.w))
				} else if ra.hi == rb.lo && ra.hi > 0 {
					f.narrow(c.a, 0, ra.hi-1)
				}
			}
		}
	case OpSlt:
		ra, rb := f.rangeOf(c.a), f.rangeOf(c.b)
		sm := mask(c.a.w) >> 1
		if ra.hi <= sm && rb.hi <= sm {
			if v {
				if rb.hi > 0 {
					f.narrow(c.a, 0, rb.hi-1)
				}
				f.narrow(c.b, ra.lo+1, sm)
			} else {
				f.narrow(c.a, rb.lo, sm)
				f.narrow(c.b, 0, ra.hi)
			}
		}
	}
}

// decide tries to settle c from the facts alone.
func (f *Facts) decide(c *Term) (val bool, ok bool) {
	if v, ok := f.lookup(c); ok {
		return v, true
	}
	neg := false
	for c.op == OpBNot {
		c = c.a
		neg = !neg
	}
	switch c.op {
	case OpUlt:
		ra, rb := f.rangeOf(c.a), f.rangeOf(c.b)
		if ra.hi < rb.lo {
			return !neg, true
		}
		if ra.lo >= rb.hi {
			return neg, true
		}
	case OpEq:
		if c.a.w == 0 {
			va, oka := f.decide(c.a)
			vb, okb := f.decide(c.b)
			if oka && okb {
				return (va == vb) != neg, true
			}
			return false, false
		}
		ra, rb := f.rangeOf(c.a), f.rangeOf(c.b)
		if ra.hi < rb.lo || rb.hi < ra.lo {
			return neg, true
		}
		if ra.lo == ra.hi && rb.lo == rb.hi && ra.lo == rb.lo {
			return !neg, true
		}
	case OpSlt:
		ra, rb := f.rangeOf(c.a), f.rangeOf(c.b)
		sm := mask(c.a.w) >> 1
		if ra.hi <= sm && rb.hi <= sm {
			if ra.hi < rb.lo {
				return !neg, true
			}
			if ra.lo >= rb.hi {
				return neg, true
			}
		}
	case OpBAnd:
		va, oka := f.decide(c.a)
		vb, okb := f.decide(c.b)
		if (oka && !va) || (okb && !vb) {
			return neg, true
		}
		if oka && okb {
			return !neg, true
		}
	case OpBOr:
		va, oka := f.decide(c.a)
		vb, okb := f.decide(c.b)
		if (oka && va) || (okb && vb) {
			return !neg, true
		}
		if oka && okb {
			return neg, true
		}
	}
	return false, false
}
