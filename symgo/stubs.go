package main

import (
	"fmt"
	"go/types"
	"strconv"
	"strings"

	"golang.org/x/tools/go/ssa"
)

type stubFn func(it *Interp, fr *frame, fn *ssa.Function, args []Value, site ssa.Instruction) Value

var intrinsics = map[string]stubFn{}

var stubTable map[string]stubFn

func init() {
	stubTable = map[string]stubFn{
		"fmt.Errorf":                 stubErrorf,
		"fmt.Sprintf":                stubOpaqueStr,
		"fmt.Sprint":                 stubOpaqueStr,
		"fmt.Sprintln":               stubOpaqueStr,
		"fmt.Printf":                 stubNIntErr,
		"fmt.Println":                stubNIntErr,
		"fmt.Print":                  stubNIntErr,
		"fmt.Fprintf":                stubNIntErr,
		"fmt.Fprintln":               stubNIntErr,
		"fmt.Fprint":                 stubNIntErr,
		"log.Printf":                 stubNil,
		"log.Println":                stubNil,
		"log.Print":                  stubNil,
		"(*log.Logger).Printf":       stubNil,
		"(*log.Logger).Println":      stubNil,
		"encoding/hex.EncodeToString": stubOpaqueStr,
		"encoding/hex.Dump":          stubOpaqueStr,
		"strconv.Itoa":               stubItoa,
		"strconv.FormatInt":          stubOpaqueStr,
		"strconv.FormatUint":         stubOpaqueStr,
		"strconv.Quote":              stubOpaqueStr,
		"(net.IP).String":            stubOpaqueStr,
		"(net.HardwareAddr).String":  stubOpaqueStr,
		"(*net.IPNet).String":        stubOpaqueStr,
		"(time.Time).String":         stubOpaqueStr,
		"(time.Time).Format":         stubOpaqueStr,
		"(time.Duration).String":     stubOpaqueStr,
		"runtime/debug.Stack":        stubEmptyBytes,
		"runtime.Gosched":            stubYield,
		"time.Sleep":                 stubYield,
		"time.Now":                   stubTimeNow,
		"time.Unix":                  stubTimeUnix,
		"flag.Bool":                  stubFlagVal,
		"flag.Int":                   stubFlagVal,
		"flag.String":                stubFlagVal,
		"flag.Duration":              stubFlagVal,
		"errors.Is":                  stubErrorsIs,
		"errors.As":                  stubErrorsAs,
		"net/netip.AddrFromSlice":    stubAddrFromSlice,
		"(net/netip.Addr).BitLen":    stubAddrBitLen,
		"(net/netip.Addr).Is4":       stubNondetBool,
		"(net/netip.Addr).Is6":       stubNondetBool,
		"(net/netip.Addr).IsValid":   stubNondetBool,
		"(net/netip.Addr).String":    stubOpaqueStr,
		"strings.Contains":           stubStringsContains,
		"strings.Index":              stubStringsIndex,
		"strings.HasPrefix":          nil,
		"bytes.Equal":                stubBytesEqual,
		"bytes.Compare":              stubBytesCompare,
		"internal/bytealg.IndexByte":       stubIndexByte,
		"internal/bytealg.IndexByteString": stubIndexByte,
		"internal/bytealg.Equal":           stubBytesEqual,
		"internal/bytealg.Compare":         stubBytesCompare,
		"internal/bytealg.Count":           nil,
		"(*sync.Mutex).Lock":         stubMutexLock,
		"(*sync.Mutex).Unlock":       stubMutexUnlock,
		"(*sync.Mutex).TryLock":      nil,
		"(*sync.RWMutex).Lock":       stubRWLock,
		"(*sync.RWMutex).Unlock":     stubRWUnlock,
		"(*sync.RWMutex).RLock":      stubRWRLock,
		"(*sync.RWMutex).RUnlock":    stubRWRUnlock,
		"(*sync.Pool).Get":           stubPoolGet,
		"(*sync.Pool).Put":           stubPoolPut,
		"(*sync.Once).Do":            stubOnceDo,
		"sync/atomic.AddInt32":       stubAtomicAdd,
		"sync/atomic.AddInt64":       stubAtomicAdd,
		"sync/atomic.AddUint32":      stubAtomicAdd,
		"sync/atomic.AddUint64":      stubAtomicAdd,
		"sync/atomic.LoadInt32":      stubAtomicLoad,
		"sync/atomic.LoadInt64":      stubAtomicLoad,
		"sync/atomic.LoadUint32":     stubAtomicLoad,
		"sync/atomic.LoadUint64":     stubAtomicLoad,
		"sync/atomic.StoreInt32":     stubAtomicStore,
		"sync/atomic.StoreInt64":     stubAtomicStore,
		"sync/atomic.StoreUint32":    stubAtomicStore,
		"sync/atomic.StoreUint64":    stubAtomicStore,
		"math/bits.Len64":            nil,
	}
}

func (it *Interp) lookupStub(fn *ssa.Function) stubFn {
	name := fn.String()
	if s, ok := stubTable[name]; ok && s != nil {
		return s
	}
	if strings.HasPrefix(fn.Name(), "verif") && fn.Pkg != nil && fn.Blocks == nil {
		if s, ok := verifStubs[fn.Name()]; ok {
			return s
		}
		// generic instantiations: verifAny[T]
		if i := strings.Index(fn.Name(), "["); i > 0 {
			if s, ok := verifStubs[fn.Name()[:i]]; ok {
				return s
			}
		}
	}
	return nil
}

func stubNil(it *Interp, fr *frame, fn *ssa.Function, args []Value, site ssa.Instruction) Value {
	return nil
}
func stubNIntErr(it *Interp, fr *frame, fn *ssa.Function, args []Value, site ssa.Instruction) Value {
	return TupleV{it.tt.Const(64, 0), &IfaceV{}}
}
func stubOpaqueStr(it *Interp, fr *frame, fn *ssa.Function, args []Value, site ssa.Instruction) Value {
	it.touchFmtArgs(fr, args)
	return &StrV{opaque: true}
}
func stubEmptyBytes(it *Interp, fr *frame, fn *ssa.Function, args []Value, site ssa.Instruction) Value {
	return &SliceV{}
}
func stubYield(it *Interp, fr *frame, fn *ssa.Function, args []Value, site ssa.Instruction) Value {
	it.yield(fr)
	return nil
}
func stubItoa(it *Interp, fr *frame, fn *ssa.Function, args []Value, site ssa.Instruction) Value {
	if t, ok := args[0].(*Term); ok && t.IsConst() {
		return &StrV{s: strconv.FormatInt(sext(t.k, t.w), 10)}
	}
	return &StrV{opaque: true}
}

// touchFmtArgs models what fmt does with its operands that can fail: calling
// String()/Error() on Stringer/error operands (nil receivers, etc.) is NOT
// modelled here (formatting is opaque); operands are already evaluated.
func (it *Interp) touchFmtArgs(fr *frame, args []Value) {}

func (it *Interp) namedType(pkg, name string) types.Type {
	p := it.sh.prog.ImportedPackage(pkg)
	if p == nil {
		it.unsupported("package %s not loaded", pkg)
	}
	m := p.Members[name]
	if m == nil {
		it.unsupported("type %s.%s not found", pkg, name)
	}
	return m.(*ssa.Type).Type()
}

func (it *Interp) newError(msg *StrV) Value {
	t := it.namedType("errors", "errorString")
	o := it.newObject(&StructV{f: []Value{msg}}, "error")
	return &IfaceV{t: types.NewPointer(t), v: &PtrV{obj: o}}
}

func stubErrorf(it *Interp, fr *frame, fn *ssa.Function, args []Value, site ssa.Instruction) Value {
	format, _ := args[0].(*StrV)
	if format != nil && format.b == nil && !format.opaque && strings.Contains(format.s, "%w") {
		// wrap the first error operand
		va := args[1].(*SliceV)
		if va.base != nil {
			n := int(it.ex.concretize(va.len))
			for i := 0; i < n; i++ {
				e := it.loadElem(fr, va, it.tt.Const(64, uint64(i))).(*IfaceV)
				if e.t != nil && it.implements(e.t, errorIface) {
					t := it.namedType("fmt", "wrapError")
					o := it.newObject(&StructV{f: []Value{&StrV{opaque: true}, e}}, "wrapError")
					return &IfaceV{t: types.NewPointer(t), v: &PtrV{obj: o}}
				}
			}
		}
	}
	if format != nil && format.b == nil && !format.opaque && !strings.Contains(format.s, "%") {
		return it.newError(format)
	}
	return it.newError(&StrV{opaque: true})
}

var errorIface = types.Universe.Lookup("error").Type().Underlying().(*types.Interface)

func stubErrorsIs(it *Interp, fr *frame, fn *ssa.Function, args []Value, site ssa.Instruction) Value {
	err, target := args[0].(*IfaceV), args[1].(*IfaceV)
	for depth := 0; depth < 16; depth++ {
		if err.t == nil || target.t == nil {
			return it.tt.Bool(err.t == nil && target.t == nil)
		}
		if types.Identical(err.t, target.t) && types.Comparable(err.t) {
			c := it.eqValues(err.v, target.v)
			if c.IsTrue() || (!c.IsFalse() && it.ex.branch(c, true)) {
				return it.tt.tru
			}
		}
		// Unwrap() error
		sel := it.sh.prog.MethodSets.MethodSet(err.t).Lookup(nil, "Unwrap")
		if sel == nil {
			return it.tt.fls
		}
		m := it.sh.prog.MethodValue(sel)
		if m == nil || m.Signature.Results().Len() != 1 || !types.Identical(m.Signature.Results().At(0).Type(), types.Universe.Lookup("error").Type()) {
			return it.tt.fls
		}
		next := it.callFunction(fr, m, []Value{err.v}, nil, site).(*IfaceV)
		err = next
	}
	return it.tt.fls
}

func stubFlagVal(it *Interp, fr *frame, fn *ssa.Function, args []Value, site ssa.Instruction) Value {
	o := it.newObject(args[1], "flag "+valString(args[0]))
	return &PtrV{obj: o}
}

func stubTimeNow(it *Interp, fr *frame, fn *ssa.Function, args []Value, site ssa.Instruction) Value {
	// time.Time{wall: nsec, ext: sec since year 1, loc: nil}; non-decreasing
	it.timeNow++
	sec := it.tt.Var(fmt.Sprintf("now%d.sec", it.timeNow), 64)
	if !it.ex.assume(it.tt.Ult(sec, it.tt.Const(64, 1<<40))) {
		panic(abortRun{"infeasible"})
	}
	if it.lastTime != nil {
		if !it.ex.assume(it.tt.Ule(it.lastTime, sec)) {
			panic(abortRun{"infeasible"})
		}
	}
	it.lastTime = sec
	return &StructV{f: []Value{it.tt.Const(64, 0), sec, &PtrV{}}}
}

// ---- bytes ----

func (it *Interp) asBytes(fr *frame, v Value) (elems []*Term, n *Term) {
	switch s := v.(type) {
	case *StrV:
		b := it.strBytes(s)
		return b, it.tt.Const(64, uint64(len(b)))
	case *SliceV:
		if s.base == nil {
			return nil, it.tt.Const(64, 0)
		}
		nmax := it.lenBound(s.len, it.arrayOf(s.base).n)
		vals := it.readElems(fr, s, it.tt.Const(64, 0), nmax)
		out := make([]*Term, len(vals))
		for i, x := range vals {
			out[i] = x.(*Term)
		}
		return out, s.len
	}
	panic("asBytes")
}

func stubBytesEqual(it *Interp, fr *frame, fn *ssa.Function, args []Value, site ssa.Instruction) Value {
	tt := it.tt
	a, la := it.asBytes(fr, args[0])
	b, lb := it.asBytes(fr, args[1])
	r := tt.Eq(la, lb)
	n := len(a)
	if len(b) < n {
		n = len(b)
	}
	for k := 0; k < n; k++ {
		in := tt.Ult(tt.Const(64, uint64(k)), la)
		r = tt.BAnd(r, tt.BOr(tt.BNot(in), tt.Eq(a[k], b[k])))
	}
	return r
}

func stubBytesCompare(it *Interp, fr *frame, fn *ssa.Function, args []Value, site ssa.Instruction) Value {
	tt := it.tt
	a, la := it.asBytes(fr, args[0])
	b, lb := it.asBytes(fr, args[1])
	n := len(a)
	if len(b) < n {
		n = len(b)
	}
	neg1, zero, one := tt.Const(64, ^uint64(0)), tt.Const(64, 0), tt.Const(64, 1)
	// result when all common bytes equal
	res := tt.Ite(tt.Ult(la, lb), neg1, tt.Ite(tt.Ult(lb, la), one, zero))
	for k := n - 1; k >= 0; k-- {
		kk := tt.Const(64, uint64(k))
		inBoth := tt.BAnd(tt.Ult(kk, la), tt.Ult(kk, lb))
		here := tt.Ite(tt.Ult(a[k], b[k]), neg1, tt.Ite(tt.Ult(b[k], a[k]), one, res))
		res = tt.Ite(inBoth, here, res)
	}
	return res
}

func stubIndexByte(it *Interp, fr *frame, fn *ssa.Function, args []Value, site ssa.Instruction) Value {
	tt := it.tt
	a, la := it.asBytes(fr, args[0])
	c := args[1].(*Term)
	res := tt.Const(64, ^uint64(0))
	for k := len(a) - 1; k >= 0; k-- {
		kk := tt.Const(64, uint64(k))
		hit := tt.BAnd(tt.Ult(kk, la), tt.Eq(a[k], c))
		res = tt.Ite(hit, kk, res)
	}
	return res
}

// ---- sync (single goroutine semantics; the scheduler adds blocking) ----

func (it *Interp) lockWord(fr *frame, p *PtrV) *PtrV {
	// the mutex object itself: use a hidden side table keyed by address
	return p
}

func stubAtomicAdd(it *Interp, fr *frame, fn *ssa.Function, args []Value, site ssa.Instruction) Value {
	p := args[0].(*PtrV)
	if p.isNil() {
		it.rtPanic(fr, "nil", "nil pointer dereference")
	}
	v := it.tt.Add(it.load(fr, p).(*Term), args[1].(*Term))
	it.store(fr, p, v)
	return v
}
func stubAtomicLoad(it *Interp, fr *frame, fn *ssa.Function, args []Value, site ssa.Instruction) Value {
	p := args[0].(*PtrV)
	if p.isNil() {
		it.rtPanic(fr, "nil", "nil pointer dereference")
	}
	return it.load(fr, p)
}
func stubAtomicStore(it *Interp, fr *frame, fn *ssa.Function, args []Value, site ssa.Instruction) Value {
	p := args[0].(*PtrV)
	if p.isNil() {
		it.rtPanic(fr, "nil", "nil pointer dereference")
	}
	it.store(fr, p, args[1])
	return nil
}

func stubOnceDo(it *Interp, fr *frame, fn *ssa.Function, args []Value, site ssa.Instruction) Value {
	p := args[0].(*PtrV)
	key := ptrKey(p)
	if it.onceDone == nil {
		it.onceDone = map[string]bool{}
	}
	if it.onceDone[key] {
		return nil
	}
	it.onceDone[key] = true
	it.callValue(fr, args[1], nil, site)
	return nil
}

func ptrKey(p *PtrV) string {
	var sb strings.Builder
	keyString(p, &sb)
	return sb.String()
}

// time.Unix without branching: normalisation by term arithmetic.
func stubTimeUnix(it *Interp, fr *frame, fn *ssa.Function, args []Value, site ssa.Instruction) Value {
	tt := it.tt
	sec, nsec := args[0].(*Term), args[1].(*Term)
	e9 := tt.Const(64, 1000000000)
	if !(nsec.hi < 1000000000) {
		n := tt.SDiv(nsec, e9)
		r := tt.Sub(nsec, tt.Mul(n, e9))
		neg := tt.Slt(r, tt.Const(64, 0))
		sec = tt.Sub(tt.Add(sec, n), tt.Ite(neg, tt.Const(64, 1), tt.Const(64, 0)))
		nsec = tt.Add(r, tt.Ite(neg, e9, tt.Const(64, 0)))
	}
	var loc Value = &PtrV{}
	if p := it.sh.prog.ImportedPackage("time"); p != nil {
		if g := p.Var("Local"); g != nil {
			if o := it.sh.globals[g]; o != nil {
				loc = it.rootR(o)
			}
		}
	}
	const unixToInternal = 62135596800
	return &StructV{f: []Value{nsec, tt.Add(sec, tt.Const(64, unixToInternal)), loc}}
}

func (it *Interp) unwrapErr(fr *frame, err *IfaceV, site ssa.Instruction) *IfaceV {
	sel := it.sh.prog.MethodSets.MethodSet(err.t).Lookup(nil, "Unwrap")
	if sel == nil {
		return nil
	}
	m := it.sh.prog.MethodValue(sel)
	if m == nil || m.Signature.Results().Len() != 1 || !types.Identical(m.Signature.Results().At(0).Type(), types.Universe.Lookup("error").Type()) {
		return nil
	}
	return it.callFunction(fr, m, []Value{err.v}, nil, site).(*IfaceV)
}

func stubErrorsAs(it *Interp, fr *frame, fn *ssa.Function, args []Value, site ssa.Instruction) Value {
	err, target := args[0].(*IfaceV), args[1].(*IfaceV)
	if target.t == nil {
		it.rtPanic(fr, "explicit", "errors: target cannot be nil")
	}
	pt, ok := target.t.Underlying().(*types.Pointer)
	if !ok {
		it.rtPanic(fr, "explicit", "errors: target must be a non-nil pointer")
	}
	et := pt.Elem()
	for depth := 0; depth < 16 && err != nil && err.t != nil; depth++ {
		match := false
		if iface, isI := et.Underlying().(*types.Interface); isI {
			match = it.implements(err.t, iface)
			if match {
				it.store(fr, target.v.(*PtrV), err)
				return it.tt.tru
			}
		} else if types.Identical(err.t, et) {
			it.store(fr, target.v.(*PtrV), err.v)
			return it.tt.tru
		}
		err = it.unwrapErr(fr, err, site)
	}
	return it.tt.fls
}

func stubStringsContains(it *Interp, fr *frame, fn *ssa.Function, args []Value, site ssa.Instruction) Value {
	a, b := args[0].(*StrV), args[1].(*StrV)
	if a.opaque || b.opaque {
		// formatted (opaque) text: content unknown, either answer possible
		return it.tt.Var(it.freshName("contains?"), 0)
	}
	if a.b != nil || b.b != nil {
		it.unsupported("strings.Contains on symbolic strings")
	}
	return it.tt.Bool(strings.Contains(a.s, b.s))
}

func stubStringsIndex(it *Interp, fr *frame, fn *ssa.Function, args []Value, site ssa.Instruction) Value {
	a, b := args[0].(*StrV), args[1].(*StrV)
	if a.opaque || b.opaque || a.b != nil || b.b != nil {
		it.unsupported("strings.Index on symbolic strings")
	}
	return it.tt.Const(64, uint64(int64(strings.Index(a.s, b.s))))
}

// netip.AddrFromSlice: the address value is opaque to the properties checked
// (it is stored, never inspected); ok iff the slice has 4 or 16 bytes.
func stubAddrFromSlice(it *Interp, fr *frame, fn *ssa.Function, args []Value, site ssa.Instruction) Value {
	sl := args[0].(*SliceV)
	n := it.sliceLen(sl)
	ok := it.tt.BOr(it.tt.Eq(n, it.tt.Const(64, 4)), it.tt.Eq(n, it.tt.Const(64, 16)))
	return TupleV{it.zero(fn.Signature.Results().At(0).Type()), ok}
}

// nondeterministic boolean: the modelled value is opaque, both answers are explored
func stubNondetBool(it *Interp, fr *frame, fn *ssa.Function, args []Value, site ssa.Instruction) Value {
	return it.tt.Var(it.freshName("nondet."+fn.Name()), 0)
}

func stubAddrBitLen(it *Interp, fr *frame, fn *ssa.Function, args []Value, site ssa.Instruction) Value {
	a := it.tt.Var(it.freshName("nondet.BitLen.is4"), 0)
	b := it.tt.Var(it.freshName("nondet.BitLen.is6"), 0)
	return it.tt.Ite(a, it.tt.Const(64, 32), it.tt.Ite(b, it.tt.Const(64, 128), it.tt.Const(64, 0)))
}
