package main

// Symbolic interpreter for go/ssa.  Guest calls are host recursion; guest
// panics are host panics of type *guestPanic.

import (
	"time"
	"fmt"
	"regexp"
	"go/constant"
	"go/token"
	"go/types"
	"os"
	"strings"
	"sync"

	"golang.org/x/tools/go/ssa"
	"golang.org/x/tools/go/types/typeutil"
)

type guestPanic struct {
	val  Value // value passed to panic (an *IfaceV)
	kind string
	msg  string
	site string
	key  string
}

type deferred struct {
	fn   Value
	args []Value
	call *ssa.CallCommon
	site ssa.Instruction
}

type frame struct {
	it        *Interp
	g         *G
	fn        *ssa.Function
	env       map[ssa.Value]Value
	block     *ssa.BasicBlock
	prev      *ssa.BasicBlock
	defers    []deferred
	panicking *guestPanic
	result    Value
	caller    *frame
	loopCount map[ssa.Instruction]int
	cur       ssa.Instruction
}

// Shared is the read-only state common to all workers.
type Shared struct {
	prog      *ssa.Program
	fset      *token.FileSet
	sizes     types.Sizes
	globals   map[*ssa.Global]*Object
	baseTT    *TermTable
	baseObjs  int
	srcMu     sync.Mutex
	srcLines  map[string][]string
	methMu    sync.Mutex
	methCache map[methKey]*ssa.Function
	pkgs      map[string]*ssa.Package
	initDone  map[*ssa.Package]bool
	initPart  map[string]string // package path -> why partially initialised
	taint     bool
	lazyGlobals []string
}

type methKey struct {
	t    types.Type
	name string
}

type Interp struct {
	sh        *Shared
	tt        *TermTable
	ex        *Explorer
	overlay   map[*Object]Value
	nextObj   int
	steps     int64
	stepLimit int64
	unwind    int
	depth     int
	zeroCache typeutil.Map
	concrete  bool // init mode: no explorer
	nameCount map[string]int
	sched     *Sched
	cfg       *RunCfg
	allocs    []*Term // size terms of symbolic makes (C15)
	baseWrites []string
	inputObjs []*Object
	barrier   bool
	stats     map[string]int
	pools     map[*Object]*poolState
	timeNow   int
	mainDeferFr *frame
	deqSkip *regexp.Regexp
	frozenObjs []*Object
	params map[string]int
	callStack []*frame
	panicStack []string
	onceDone  map[string]bool
	funcsSeen map[*ssa.Function]bool
	lastTime  *Term
}

type RunCfg struct {
	Unwind    int
	StepLimit int64
	MaxDepth  int
}

func (it *Interp) site(instr ssa.Instruction) string {
	if instr == nil {
		return "?"
	}
	fn := instr.Parent()
	pos := instr.Pos()
	if !pos.IsValid() {
		// find nearest instruction with a position in the block
		for _, in := range instr.Block().Instrs {
			if in.Pos().IsValid() {
				pos = in.Pos()
				if in == instr {
					break
				}
			}
		}
	}
	p := it.sh.fset.Position(pos)
	f := p.Filename
	if i := strings.Index(f, "/repo/"); i >= 0 {
		f = f[i+6:]
	}
	return fmt.Sprintf("%s %s:%d", fn.String(), f, p.Line)
}

func (it *Interp) srcLine(instr ssa.Instruction) string {
	pos := instr.Pos()
	if !pos.IsValid() {
		return instr.String()
	}
	p := it.sh.fset.Position(pos)
	it.sh.srcMu.Lock()
	defer it.sh.srcMu.Unlock()
	lines, ok := it.sh.srcLines[p.Filename]
	if !ok {
		b, err := os.ReadFile(p.Filename)
		if err == nil {
			lines = strings.Split(string(b), "\n")
		}
		it.sh.srcLines[p.Filename] = lines
	}
	if p.Line-1 < len(lines) && p.Line >= 1 {
		return strings.TrimSpace(lines[p.Line-1])
	}
	return instr.String()
}

func (it *Interp) newObject(root Value, label string) *Object {
	it.nextObj++
	return &Object{id: it.nextObj, root: root, label: label, base: it.concrete}
}

func (it *Interp) rootR(o *Object) Value {
	if o.base && !it.concrete {
		if v, ok := it.overlay[o]; ok {
			return v
		}
	}
	return o.root
}

// rootW returns the mutable root of o (copy-on-write for base objects).
func (it *Interp) rootW(o *Object) Value {
	if o.base && !it.concrete {
		if v, ok := it.overlay[o]; ok {
			return v
		}
		v := cloneValue(o.root)
		it.overlay[o] = v
		if it.barrier {
			it.baseWrites = append(it.baseWrites, o.label)
		}
		return v
	}
	return o.root
}

func (it *Interp) setRoot(o *Object, v Value) {
	if o.base && !it.concrete {
		it.overlay[o] = v
		if it.barrier {
			it.baseWrites = append(it.baseWrites, o.label)
		}
		return
	}
	o.root = v
}

// ---- panics ----

func (it *Interp) rtPanic(fr *frame, kind, msg string) {
	instr := fr.cur
	gp := &guestPanic{kind: kind, msg: msg, site: it.site(instr)}
	// attribute to the innermost frame inside the module under test
	ki := instr
	cs := it.sched.cur.callStack
	for i := len(cs) - 1; i >= 0; i-- {
		f := cs[i]
		if f.fn.Pkg != nil && strings.HasPrefix(f.fn.Pkg.Pkg.Path(), modPath) && f.cur != nil {
			ki = f.cur
			break
		}
	}
	if ki != instr {
		gp.site = it.site(ki) + " (in " + instr.Parent().String() + ")"
	}
	gp.key = ki.Parent().String() + "|" + kind + "|" + it.srcLine(ki)
	gp.val = &IfaceV{t: rtErrType, v: &StrV{s: "runtime error: " + msg}}
	panic(gp)
}

var traceOn = os.Getenv("SYMGO_TRACE") != ""

var rtErrType types.Type // set at load: runtime.Error-ish marker type

func (it *Interp) unsupported(format string, a ...interface{}) {
	panic(unsupported{fmt.Sprintf(format, a...)})
}

// ---- operand evaluation ----

func (fr *frame) get(v ssa.Value) Value {
	switch v := v.(type) {
	case *ssa.Const:
		return fr.it.constValue(v)
	case *ssa.Global:
		o := fr.it.sh.globals[v]
		if o == nil {
			if fr.it.concrete {
				t := v.Type().Underlying().(*types.Pointer).Elem()
				o = fr.it.newObject(fr.it.zero(t), v.String())
				fr.it.sh.globals[v] = o
				fr.it.sh.lazyGlobals = append(fr.it.sh.lazyGlobals, v.String())
			} else {
				fr.it.unsupported("global %s of a package that is not initialised by the engine", v)
			}
		}
		if why, bad := fr.it.sh.initPart[v.Pkg.Pkg.Path()]; bad && !fr.it.concrete {
			fr.it.unsupported("read of global %s of partially initialised package (%s)", v, why)
		}
		return &PtrV{obj: o}
	case *ssa.Function:
		return &FuncV{fn: v}
	case *ssa.Builtin:
		return &FuncV{builtin: "builtin:" + v.Name()}
	}
	if x, ok := fr.env[v]; ok {
		return x
	}
	panic(fmt.Sprintf("no value for %s (%T) in %s", v.Name(), v, fr.fn))
}

func (it *Interp) width(t types.Type) uint8 {
	switch b := t.Underlying().(type) {
	case *types.Basic:
		switch b.Kind() {
		case types.Bool, types.UntypedBool:
			return 0
		case types.Int8, types.Uint8:
			return 8
		case types.Int16, types.Uint16:
			return 16
		case types.Int32, types.Uint32, types.UntypedRune:
			return 32
		case types.Int, types.Uint, types.Int64, types.Uint64, types.Uintptr, types.UntypedInt:
			return 64
		}
	}
	panic("width of " + t.String())
}

func isSigned(t types.Type) bool {
	b, ok := t.Underlying().(*types.Basic)
	return ok && b.Info()&types.IsInteger != 0 && b.Info()&types.IsUnsigned == 0
}
func isInteger(t types.Type) bool {
	b, ok := t.Underlying().(*types.Basic)
	return ok && b.Info()&types.IsInteger != 0
}
func isBool(t types.Type) bool {
	b, ok := t.Underlying().(*types.Basic)
	return ok && b.Info()&types.IsBoolean != 0
}
func isString(t types.Type) bool {
	b, ok := t.Underlying().(*types.Basic)
	return ok && b.Info()&types.IsString != 0
}
func isFloat(t types.Type) bool {
	b, ok := t.Underlying().(*types.Basic)
	return ok && b.Info()&(types.IsFloat|types.IsComplex) != 0
}

func (it *Interp) constValue(c *ssa.Const) Value {
	t := c.Type()
	if c.Value == nil {
		return it.zero(t)
	}
	switch u := t.Underlying().(type) {
	case *types.Basic:
		switch {
		case u.Info()&types.IsBoolean != 0:
			return it.tt.Bool(constant.BoolVal(c.Value))
		case u.Info()&types.IsInteger != 0:
			if isSigned(t) {
				return it.tt.Const(it.width(t), uint64(c.Int64()))
			}
			return it.tt.Const(it.width(t), c.Uint64())
		case u.Info()&types.IsString != 0:
			return &StrV{s: constant.StringVal(c.Value)}
		case u.Info()&types.IsFloat != 0:
			return &FloatV{f: c.Float64()}
		case u.Info()&types.IsComplex != 0:
			return &OpaqueV{"complex"}
		case u.Kind() == types.UnsafePointer:
			return &PtrV{}
		}
	case *types.TypeParam:
		it.unsupported("const of type param")
	}
	// constants of other types (zero values of aggregates in newer go/ssa)
	return it.zero(t)
}

func (it *Interp) zero(t types.Type) Value {
	if v := it.zeroCache.At(t); v != nil {
		if needsClone(v) {
			return cloneValue(v)
		}
		return v
	}
	v := it.mkZero(t)
	it.zeroCache.Set(t, v)
	if needsClone(v) {
		return cloneValue(v)
	}
	return v
}

func (it *Interp) mkZero(t types.Type) Value {
	switch u := t.Underlying().(type) {
	case *types.Basic:
		switch {
		case u.Info()&types.IsBoolean != 0:
			return it.tt.fls
		case u.Info()&types.IsInteger != 0:
			return it.tt.Const(it.width(t), 0)
		case u.Info()&types.IsString != 0:
			return &StrV{}
		case u.Info()&types.IsFloat != 0:
			return &FloatV{}
		case u.Info()&types.IsComplex != 0:
			return &OpaqueV{"complex"}
		case u.Kind() == types.UnsafePointer:
			return &PtrV{}
		case u.Kind() == types.UntypedNil:
			return &IfaceV{}
		case u.Kind() == types.Invalid:
			return nil
		}
	case *types.Struct:
		s := &StructV{f: make([]Value, u.NumFields())}
		for i := range s.f {
			s.f[i] = it.mkZero(u.Field(i).Type())
		}
		return s
	case *types.Array:
		et := u.Elem()
		return newArray(int(u.Len()), func() Value { return it.mkZero(et) })
	case *types.Pointer:
		return &PtrV{}
	case *types.Slice:
		return &SliceV{}
	case *types.Interface:
		return &IfaceV{}
	case *types.Signature:
		return &FuncV{}
	case *types.Map:
		return &MapV{}
	case *types.Chan:
		return &ChanV{}
	case *types.Tuple:
		tv := make(TupleV, u.Len())
		for i := range tv {
			tv[i] = it.mkZero(u.At(i).Type())
		}
		return tv
	}
	it.unsupported("zero value of %s", t)
	return nil
}

// ---- calls ----

func (it *Interp) callValue(caller *frame, fv Value, args []Value, site ssa.Instruction) Value {
	f, ok := fv.(*FuncV)
	if !ok {
		it.unsupported("call of non-function %T", fv)
	}
	if f.fn == nil && f.builtin == "" {
		it.rtPanic(caller, "nil", "invalid memory address or nil pointer dereference (nil func)")
	}
	if f.builtin != "" {
		return it.callIntrinsic(caller, f, args, site)
	}
	if len(f.env) > 0 || f.fn.Signature.Recv() == nil {
		// closure or plain
	}
	return it.callFunction(caller, f.fn, args, f.env, site)
}

func (it *Interp) callFunction(caller *frame, fn *ssa.Function, args []Value, env []Value, site ssa.Instruction) (ret Value) {
	if stub := it.lookupStub(fn); stub != nil {
		return stub(it, caller, fn, args, site)
	}
	if fn.Synthetic == "package initializer" {
		if it.concrete {
			it.runPkgInit(caller, fn)
		}
		return nil
	}
	return it.callFunctionBody(caller, fn, args, env, site)
}

func (it *Interp) callFunctionBody(caller *frame, fn *ssa.Function, args []Value, env []Value, site ssa.Instruction) (ret Value) {
	if fn.Blocks == nil {
		if it.concrete {
			return it.opaqueResults(fn)
		}
		it.unsupported("function without body: %s", fn)
	}
	if !it.funcsSeen[fn] {
		it.funcsSeen[fn] = true
	}
	it.depth++
	if it.depth > it.cfg.MaxDepth {
		it.depth--
		it.ex.UnwindFails++
		it.ex.Truncated = "call depth bound reached in " + fn.String()
		panic(abortRun{"call depth"})
	}
	fr := &frame{it: it, fn: fn, env: make(map[ssa.Value]Value, len(fn.Params)+8), caller: caller}
	if caller != nil {
		fr.g = caller.g
	}
	for i, p := range fn.Params {
		fr.env[p] = args[i]
	}
	for i, fv := range fn.FreeVars {
		fr.env[fv] = env[i]
	}
	myG := it.sched.cur
	myG.callStack = append(myG.callStack, fr)
	it.callStack = myG.callStack
	defer func() {
		it.depth--
		r := recover()
		if r != nil && it.panicStack == nil {
			for _, f := range myG.callStack {
				it.panicStack = append(it.panicStack, it.site(f.cur))
			}
		}
		myG.callStack = myG.callStack[:len(myG.callStack)-1]
		it.callStack = myG.callStack
		if r == nil && len(fr.defers) == 0 {
			return
		}
		if r != nil {
			gp, ok := r.(*guestPanic)
			if !ok {
				panic(r) // abort / unsupported / internal error
			}
			fr.panicking = gp
		}
		// run deferred calls (LIFO); they may recover
		it.runDefers(fr)
		if fr.panicking != nil {
			panic(fr.panicking)
		}
		if r != nil {
			// recovered: resume at the Recover block
			if fn.Recover != nil {
				fr.block, fr.prev = fn.Recover, nil
				ret = it.runBlocks(fr)
			} else {
				ret = it.zeroResults(fn)
			}
		}
	}()
	fr.block = fn.Blocks[0]
	ret = it.runBlocks(fr)
	return ret
}

func (it *Interp) opaqueResults(fn *ssa.Function) Value {
	return it.opaqueSig(fn.Signature)
}

func (it *Interp) opaqueSig(sig *types.Signature) Value {
	fn := sig
	res := sig.Results()
	switch res.Len() {
	case 0:
		return nil
	case 1:
		return &OpaqueV{fn.String()}
	}
	tv := make(TupleV, res.Len())
	for i := range tv {
		tv[i] = &OpaqueV{fn.String()}
	}
	return tv
}

func (it *Interp) zeroResults(fn *ssa.Function) Value {
	res := fn.Signature.Results()
	switch res.Len() {
	case 0:
		return nil
	case 1:
		return it.zero(res.At(0).Type())
	}
	return it.zero(res)
}

func (it *Interp) runDefers(fr *frame) {
	for len(fr.defers) > 0 {
		d := fr.defers[len(fr.defers)-1]
		fr.defers = fr.defers[:len(fr.defers)-1]
		func() {
			defer func() {
				if r := recover(); r != nil {
					gp, ok := r.(*guestPanic)
					if !ok {
						panic(r)
					}
					fr.panicking = gp // a deferred call panicked: replaces
				}
			}()
			fr.cur = d.site
			it.invoke(fr, d.call, d.fn, d.args, d.site, true)
		}()
	}
}

// invoke performs a call described by cc with pre-evaluated fn/args.
func (it *Interp) invoke(fr *frame, cc *ssa.CallCommon, fv Value, args []Value, site ssa.Instruction, isDefer bool) Value {
	if o, ok := fv.(*OpaqueV); ok && it.concrete {
		_ = o
		if cc != nil {
			return it.opaqueSig(cc.Signature())
		}
		return o
	}
	if cc != nil && cc.IsInvoke() {
		recv := fv.(*IfaceV)
		if recv.t == nil {
			it.rtPanic(fr, "nil", "invalid memory address or nil pointer dereference (method call on nil interface)")
		}
		fn := it.lookupMethod(recv.t, cc.Method)
		if fn == nil {
			it.unsupported("method %s not found on %s", cc.Method.Name(), recv.t)
		}
		return it.callDeferAware(fr, fn, append([]Value{recv.v}, args...), nil, site, isDefer)
	}
	f, ok := fv.(*FuncV)
	if !ok {
		it.unsupported("call of %T", fv)
	}
	if f.builtin != "" {
		return it.callIntrinsicDefer(fr, f, args, site, isDefer)
	}
	if f.fn == nil {
		it.rtPanic(fr, "nil", "invalid memory address or nil pointer dereference (nil func)")
	}
	return it.callDeferAware(fr, f.fn, args, f.env, site, isDefer)
}

// callDeferAware: recover() inside a deferred function must see the panic of
// the frame that is running defers.
func (it *Interp) callDeferAware(fr *frame, fn *ssa.Function, args []Value, env []Value, site ssa.Instruction, isDefer bool) Value {
	if isDefer {
		saved := it.deferFrame()
		it.setDeferFrame(fr)
		defer it.setDeferFrame(saved)
		return it.callFunction(fr, fn, args, env, site)
	}
	saved := it.deferFrame()
	it.setDeferFrame(nil)
	defer it.setDeferFrame(saved)
	return it.callFunction(fr, fn, args, env, site)
}

func (it *Interp) deferFrame() *frame {
	if it.sched != nil && it.sched.cur != nil {
		return it.sched.cur.deferFr
	}
	return it.mainDeferFr
}
func (it *Interp) setDeferFrame(f *frame) {
	if it.sched != nil && it.sched.cur != nil {
		it.sched.cur.deferFr = f
		return
	}
	it.mainDeferFr = f
}

func (it *Interp) lookupMethod(t types.Type, m *types.Func) *ssa.Function {
	key := methKey{t, m.Name()}
	it.sh.methMu.Lock()
	defer it.sh.methMu.Unlock()
	if fn, ok := it.sh.methCache[key]; ok {
		return fn
	}
	fn := it.sh.prog.LookupMethod(t, m.Pkg(), m.Name())
	it.sh.methCache[key] = fn
	return fn
}

// ---- block execution ----

func (it *Interp) runBlocks(fr *frame) Value {
	for {
		blk := fr.block
		var next *ssa.BasicBlock
		for idx, instr := range blk.Instrs {
			it.steps++
			if it.steps&0xfff == 0 && !it.ex.Deadline.IsZero() && time.Now().After(it.ex.Deadline) {
				it.ex.Truncated = "time budget reached"
				panic(abortRun{"deadline"})
			}
			if it.steps > it.stepLimit {
				it.ex.UnwindFails++
				it.ex.Truncated = "step budget exhausted at " + it.site(instr)
				// possible non-termination: reported only if the native replay hangs too
				it.ex.report("unwind", fr.fn.String(), "step budget exhausted (possible non-termination)")
				if n := len(it.ex.Violations); n > 0 && it.ex.Violations[n-1].Kind == "unwind" {
					it.ex.Violations[n-1].Key = "unwind|" + fr.fn.String() + "|step budget"
				}
				panic(abortRun{"step budget"})
			}
			fr.cur = instr
			switch in := instr.(type) {
			case *ssa.Phi:
				// phis of a block are evaluated simultaneously
				if idx == 0 || !isPhi(blk.Instrs[idx-1]) {
					pi := 0
					for i, p := range blk.Preds {
						if p == fr.prev {
							pi = i
							break
						}
					}
					var tmp []Value
					for j := idx; j < len(blk.Instrs); j++ {
						ph, ok := blk.Instrs[j].(*ssa.Phi)
						if !ok {
							break
						}
						tmp = append(tmp, fr.get(ph.Edges[pi]))
					}
					for j, v := range tmp {
						fr.env[blk.Instrs[idx+j].(*ssa.Phi)] = v
					}
				}
				_ = in
				continue
			case *ssa.If:
				c := fr.get(in.Cond).(*Term)
				var d bool
				if c.IsConst() {
					d = c.k != 0
				} else {
					if fr.loopCount == nil {
						fr.loopCount = map[ssa.Instruction]int{}
					}
					fr.loopCount[in]++
					if fr.loopCount[in] > it.unwind {
						it.ex.UnwindFails++
						it.ex.report("unwind", it.site(in), "loop/branch bound exceeded")
						it.ex.Truncated = "unwinding bound exceeded at " + it.site(in)
						panic(abortRun{"unwind"})
					}
					d = it.ex.branch(c, true)
				}
				if d {
					next = blk.Succs[0]
				} else {
					next = blk.Succs[1]
				}
			case *ssa.Jump:
				next = blk.Succs[0]
			case *ssa.Return:
				switch len(in.Results) {
				case 0:
					return nil
				case 1:
					return fr.get(in.Results[0])
				}
				tv := make(TupleV, len(in.Results))
				for i, r := range in.Results {
					tv[i] = fr.get(r)
				}
				return tv
			case *ssa.Panic:
				v := fr.get(in.X)
				gp := &guestPanic{val: v, kind: "explicit", site: it.site(in), msg: it.panicMsg(v)}
				gp.key = in.Parent().String() + "|explicit|" + it.srcLine(in)
				panic(gp)
			case *ssa.RunDefers:
				it.runDefers(fr)
				if fr.panicking != nil {
					panic(fr.panicking)
				}
			default:
				it.exec(fr, instr)
				if traceOn {
					if v, ok := instr.(ssa.Value); ok {
						fmt.Fprintf(os.Stderr, "%*s%s: %s = %s  => %s\n", it.depth, "", fr.fn.Name(), v.Name(), instr.String(), valString(fr.env[v]))
					} else {
						fmt.Fprintf(os.Stderr, "%*s%s: %s\n", it.depth, "", fr.fn.Name(), instr.String())
					}
				}
			}
		}
		fr.prev = blk
		fr.block = next
		if next == nil {
			panic("fell off block " + blk.String() + " in " + fr.fn.String())
		}
	}
}

func isPhi(i ssa.Instruction) bool {
	_, ok := i.(*ssa.Phi)
	return ok
}

func (it *Interp) panicMsg(v Value) string {
	if iv, ok := v.(*IfaceV); ok && iv.t != nil {
		if s, ok := iv.v.(*StrV); ok && !s.opaque && s.b == nil {
			return s.s
		}
		return "panic(" + iv.t.String() + ")"
	}
	return "panic"
}

func (it *Interp) exec(fr *frame, instr ssa.Instruction) {
	switch in := instr.(type) {
	case *ssa.DebugRef:
	case *ssa.Alloc:
		t := in.Type().Underlying().(*types.Pointer).Elem()
		o := it.newObject(it.zero(t), in.Comment)
		fr.env[in] = &PtrV{obj: o}
	case *ssa.UnOp:
		fr.env[in] = it.unop(fr, in)
	case *ssa.BinOp:
		fr.env[in] = it.binop(fr, in.Op, in.X.Type(), fr.get(in.X), fr.get(in.Y), in.Y.Type())
	case *ssa.Call:
		fr.env[in] = it.doCall(fr, in.Common(), in)
	case *ssa.Store:
		p := fr.get(in.Addr).(*PtrV)
		it.store(fr, p, fr.get(in.Val))
	case *ssa.FieldAddr:
		p := fr.get(in.X).(*PtrV)
		if p.isNil() {
			it.rtPanic(fr, "nil", "invalid memory address or nil pointer dereference")
		}
		np := &PtrV{obj: p.obj, path: append(append(make([]PathElem, 0, len(p.path)+1), p.path...), PathElem{i: in.Field})}
		fr.env[in] = np
	case *ssa.Field:
		s := fr.get(in.X).(*StructV)
		fr.env[in] = s.f[in.Field]
	case *ssa.IndexAddr:
		fr.env[in] = it.indexAddr(fr, in)
	case *ssa.Index:
		fr.env[in] = it.indexValue(fr, in)
	case *ssa.Slice:
		fr.env[in] = it.sliceOp(fr, in)
	case *ssa.MakeSlice:
		fr.env[in] = it.makeSlice(fr, in.Type(), it.toIndex(fr.get(in.Len), in.Len.Type()), it.toIndex(fr.get(in.Cap), in.Cap.Type()))
	case *ssa.MakeInterface:
		fr.env[in] = &IfaceV{t: in.X.Type(), v: fr.get(in.X)}
	case *ssa.MakeClosure:
		f := &FuncV{fn: in.Fn.(*ssa.Function)}
		for _, b := range in.Bindings {
			f.env = append(f.env, fr.get(b))
		}
		fr.env[in] = f
	case *ssa.MakeMap:
		mt := in.Type().Underlying().(*types.Map)
		o := it.newObject(&MapData{index: map[string]int{}, kt: mt.Key()}, "map")
		fr.env[in] = &MapV{obj: o}
	case *ssa.MakeChan:
		sz := fr.get(in.Size).(*Term)
		if !sz.IsConst() {
			it.unsupported("symbolic channel size")
		}
		o := it.newObject(&ChanData{cap: int(sz.k)}, "chan")
		fr.env[in] = &ChanV{obj: o}
	case *ssa.ChangeType:
		fr.env[in] = fr.get(in.X)
	case *ssa.ChangeInterface:
		fr.env[in] = fr.get(in.X)
	case *ssa.Convert:
		fr.env[in] = it.convert(fr, in.X.Type(), in.Type(), fr.get(in.X))
	case *ssa.MultiConvert:
		fr.env[in] = it.convert(fr, in.X.Type(), in.Type(), fr.get(in.X))
	case *ssa.Extract:
		fr.env[in] = fr.get(in.Tuple).(TupleV)[in.Index]
	case *ssa.TypeAssert:
		fr.env[in] = it.typeAssert(fr, in)
	case *ssa.Lookup:
		fr.env[in] = it.lookup(fr, in)
	case *ssa.MapUpdate:
		m := fr.get(in.Map).(*MapV)
		if m.obj == nil {
			it.rtPanic(fr, "nilmap", "assignment to entry in nil map")
		}
		it.mapUpdate(fr, m, fr.get(in.Key), fr.get(in.Value))
	case *ssa.Range:
		fr.env[in] = it.rangeInit(fr, in)
	case *ssa.Next:
		fr.env[in] = it.rangeNext(fr, in)
	case *ssa.Defer:
		cc := in.Common()
		fv, args := it.prepareCall(fr, cc)
		fr.defers = append(fr.defers, deferred{fn: fv, args: args, call: cc, site: in})
	case *ssa.Go:
		cc := in.Common()
		fv, args := it.prepareCall(fr, cc)
		it.goStmt(fr, cc, fv, args, in)
	case *ssa.Send:
		it.chanSend(fr, fr.get(in.Chan).(*ChanV), fr.get(in.X))
	case *ssa.Select:
		fr.env[in] = it.selectOp(fr, in)
	case *ssa.SliceToArrayPointer:
		s := fr.get(in.X).(*SliceV)
		at := in.Type().Underlying().(*types.Pointer).Elem().Underlying().(*types.Array)
		n := it.tt.Const(64, uint64(at.Len()))
		if it.ex.branch(it.tt.Ult(s.len, n), false) {
			it.rtPanic(fr, "slice", "cannot convert slice to array pointer: length too short")
		}
		if s.base == nil {
			fr.env[in] = &PtrV{}
		} else {
			// modelled as a read-only snapshot (exact for the [N]T(slice)
			// conversion, which dereferences at once); stores through it are
			// reported as unsupported
			vals := it.readElems(fr, s, it.tt.Const(64, 0), int(at.Len()))
			arr := &ArrayV{n: int(at.Len()), dense: vals}
			o := it.newObject(arr, "slice-to-array snapshot")
			o.frozen = true
			fr.env[in] = &PtrV{obj: o}
		}
	default:
		it.unsupported("instruction %T: %s", instr, instr)
	}
}

func (it *Interp) prepareCall(fr *frame, cc *ssa.CallCommon) (Value, []Value) {
	args := make([]Value, len(cc.Args))
	for i, a := range cc.Args {
		args[i] = fr.get(a)
	}
	return fr.get(cc.Value), args
}

func (it *Interp) doCall(fr *frame, cc *ssa.CallCommon, site ssa.Instruction) Value {
	fv, args := it.prepareCall(fr, cc)
	return it.invoke(fr, cc, fv, args, site, false)
}

// ---- type assertions ----

func (it *Interp) implements(dyn types.Type, iface *types.Interface) bool {
	m, _ := types.MissingMethod(dyn, iface, true)
	return m == nil
}

func (it *Interp) typeAssert(fr *frame, in *ssa.TypeAssert) Value {
	x := fr.get(in.X).(*IfaceV)
	ok := false
	var res Value
	if x.t != nil {
		if ai, isI := in.AssertedType.Underlying().(*types.Interface); isI {
			ok = it.implements(x.t, ai)
			res = x
		} else {
			ok = types.Identical(x.t, in.AssertedType)
			res = x.v
		}
	}
	if !ok {
		if _, isI := in.AssertedType.Underlying().(*types.Interface); isI {
			res = &IfaceV{}
		} else {
			res = it.zero(in.AssertedType)
		}
	}
	if in.CommaOk {
		return TupleV{res, it.tt.Bool(ok)}
	}
	if !ok {
		it.rtPanic(fr, "typeassert", fmt.Sprintf("interface conversion: %v is not %v", x.t, in.AssertedType))
	}
	return res
}
