package main

// Hash-consed bit-vector / boolean terms with constant folding, light
// normalisation, syntactic unsigned ranges, SMT-LIB2 printing and evaluation
// under a model.  Width 0 means Bool; widths 1..64 are bit-vectors.

import (
	"fmt"
	"math/bits"
	"strings"
)

type Op uint8

const (
	OpConst Op = iota
	OpVar
	OpNot // bvnot
	OpNeg
	OpAdd
	OpSub
	OpMul
	OpUDiv
	OpSDiv
	OpURem
	OpSRem
	OpAnd
	OpOr
	OpXor
	OpShl
	OpLShr
	OpAShr
	OpExtract // k = hi<<8|lo
	OpZExt
	OpSExt
	OpConcat
	OpIte
	// boolean-valued
	OpEq
	OpUlt
	OpUle
	OpSlt
	OpSle
	OpBNot
	OpBAnd
	OpBOr
)

var opNames = map[Op]string{OpNot: "bvnot", OpNeg: "bvneg", OpAdd: "bvadd", OpSub: "bvsub", OpMul: "bvmul", OpUDiv: "bvudiv", OpSDiv: "bvsdiv", OpURem: "bvurem", OpSRem: "bvsrem", OpAnd: "bvand", OpOr: "bvor", OpXor: "bvxor", OpShl: "bvshl", OpLShr: "bvlshr", OpAShr: "bvashr", OpConcat: "concat", OpIte: "ite", OpEq: "=", OpUlt: "bvult", OpUle: "bvule", OpSlt: "bvslt", OpSle: "bvsle", OpBNot: "not", OpBAnd: "and", OpBOr: "or"}

type Term struct {
	op      Op
	w       uint8 // 0 = Bool
	a, b, c *Term
	k       uint64 // const value / extract hi,lo / var index
	id      int32
	name    string // vars
	lo, hi  uint64 // unsigned range (bv only)
	evalEp  int32
	evalV   uint64
}

type termKey struct {
	op      Op
	w       uint8
	a, b, c int32
	k       uint64
}

type TermTable struct {
	tab   map[termKey]*Term
	all   []*Term
	vars  []*Term
	vmap  map[string]*Term
	tru   *Term
	fls   *Term
	epoch int32
	active map[int32]bool // variables introduced on the current path
}

func NewTermTable() *TermTable {
	tt := &TermTable{tab: map[termKey]*Term{}, vmap: map[string]*Term{}, active: map[int32]bool{}}
	tt.fls = tt.mk(OpConst, 0, nil, nil, nil, 0)
	tt.tru = tt.mk(OpConst, 0, nil, nil, nil, 1)
	return tt
}

func mask(w uint8) uint64 {
	if w >= 64 {
		return ^uint64(0)
	}
	return (uint64(1) << w) - 1
}

func tid(t *Term) int32 {
	if t == nil {
		return -1
	}
	return t.id
}

func (tt *TermTable) mk(op Op, w uint8, a, b, c *Term, k uint64) *Term {
	key := termKey{op, w, tid(a), tid(b), tid(c), k}
	if t, ok := tt.tab[key]; ok {
		return t
	}
	t := &Term{op: op, w: w, a: a, b: b, c: c, k: k, id: int32(len(tt.all))}
	tt.all = append(tt.all, t)
	tt.tab[key] = t
	if w > 0 {
		tt.computeRange(t)
	}
	return t
}

func (t *Term) IsConst() bool { return t.op == OpConst }
func (t *Term) IsTrue() bool  { return t.op == OpConst && t.w == 0 && t.k == 1 }
func (t *Term) IsFalse() bool { return t.op == OpConst && t.w == 0 && t.k == 0 }

func (tt *TermTable) Const(w uint8, v uint64) *Term {
	if w == 0 {
		if v != 0 {
			return tt.tru
		}
		return tt.fls
	}
	return tt.mk(OpConst, w, nil, nil, nil, v&mask(w))
}
func (tt *TermTable) Bool(b bool) *Term {
	if b {
		return tt.tru
	}
	return tt.fls
}

func (tt *TermTable) Var(name string, w uint8) *Term {
	key := fmt.Sprintf("%s/%d", name, w)
	if t, ok := tt.vmap[key]; ok {
		tt.active[t.id] = true
		return t
	}
	t := tt.mk(OpVar, w, nil, nil, nil, uint64(len(tt.vars)))
	t.name = name
	tt.vars = append(tt.vars, t)
	tt.vmap[key] = t
	tt.active[t.id] = true
	return t
}

func sext(v uint64, w uint8) int64 {
	if w >= 64 {
		return int64(v)
	}
	sh := 64 - uint(w)
	return int64(v<<sh) >> sh
}

type rng struct{ lo, hi uint64 }

func (tt *TermTable) computeRange(t *Term) {
	var ra, rb, rc rng
	if t.a != nil {
		ra = rng{t.a.lo, t.a.hi}
	}
	if t.b != nil {
		rb = rng{t.b.lo, t.b.hi}
	}
	if t.c != nil {
		rc = rng{t.c.lo, t.c.hi}
	}
	r := rangeXfer(t, ra, rb, rc)
	t.lo, t.hi = r.lo, r.hi
}

// rangeXfer computes a sound unsigned range of t from ranges of its children.
func rangeXfer(t *Term, ra, rb, rc rng) rng {
	m := mask(t.w)
	lo, hi := uint64(0), m
	switch t.op {
	case OpConst:
		lo, hi = t.k, t.k
	case OpZExt:
		lo, hi = ra.lo, ra.hi
	case OpExtract:
		h, l := uint8(t.k>>8), uint8(t.k&0xff)
		if l == 0 && ra.hi <= mask(h+1) {
			lo, hi = ra.lo, ra.hi
		}
	case OpAdd:
		h, c1 := bits.Add64(ra.hi, rb.hi, 0)
		if c1 == 0 && h <= m {
			lo, hi = ra.lo+rb.lo, h
		}
	case OpSub:
		if ra.lo >= rb.hi {
			lo, hi = ra.lo-rb.hi, ra.hi-rb.lo
		}
	case OpMul:
		h, l := bits.Mul64(ra.hi, rb.hi)
		if h == 0 && l <= m {
			lo, hi = ra.lo*rb.lo, l
		}
	case OpAnd:
		hi = ra.hi
		if rb.hi < hi {
			hi = rb.hi
		}
	case OpOr, OpXor:
		mx := ra.hi
		if rb.hi > mx {
			mx = rb.hi
		}
		n := bits.Len64(mx)
		if n < 64 {
			hi = (uint64(1) << n) - 1
		}
		if hi > m {
			hi = m
		}
		if t.op == OpOr {
			lo = ra.lo
			if rb.lo > lo {
				lo = rb.lo
			}
		}
	case OpLShr:
		hi = ra.hi
		if t.b.IsConst() {
			if t.b.k >= uint64(t.w) {
				lo, hi = 0, 0
			} else {
				lo, hi = ra.lo>>t.b.k, ra.hi>>t.b.k
			}
		}
	case OpShl:
		if t.b.IsConst() && t.b.k < 64 {
			if bits.Len64(ra.hi)+int(t.b.k) <= int(t.w) {
				lo, hi = ra.lo<<t.b.k, ra.hi<<t.b.k
			}
		}
	case OpUDiv:
		if rb.lo > 0 {
			lo, hi = ra.lo/rb.hi, ra.hi/rb.lo
		}
	case OpURem:
		if rb.lo > 0 {
			hi = rb.hi - 1
			if ra.hi < hi {
				hi = ra.hi
			}
		}
	case OpConcat:
		lo = ra.lo<<t.b.w | rb.lo
		hi = ra.hi<<t.b.w | rb.hi
	case OpIte:
		lo, hi = rb.lo, rb.hi
		if rc.lo < lo {
			lo = rc.lo
		}
		if rc.hi > hi {
			hi = rc.hi
		}
	}
	return rng{lo, hi}
}

// ---- constructors with simplification ----

func (tt *TermTable) Not(a *Term) *Term {
	if a.IsConst() {
		return tt.Const(a.w, ^a.k)
	}
	if a.op == OpNot {
		return a.a
	}
	return tt.mk(OpNot, a.w, a, nil, nil, 0)
}
func (tt *TermTable) Neg(a *Term) *Term {
	if a.IsConst() {
		return tt.Const(a.w, -a.k)
	}
	return tt.mk(OpNeg, a.w, a, nil, nil, 0)
}

func (tt *TermTable) order(a, b *Term) (*Term, *Term) {
	// constants last, otherwise by id
	if a.IsConst() && !b.IsConst() {
		return b, a
	}
	if !a.IsConst() && b.IsConst() {
		return a, b
	}
	if a.id > b.id {
		return b, a
	}
	return a, b
}

func (tt *TermTable) Add(a, b *Term) *Term {
	if a.w != b.w {
		panic("Add width")
	}
	if a.IsConst() && b.IsConst() {
		return tt.Const(a.w, a.k+b.k)
	}
	a, b = tt.order(a, b)
	if b.IsConst() {
		if b.k == 0 {
			return a
		}
		if a.op == OpAdd && a.b.IsConst() {
			return tt.Add(a.a, tt.Const(a.w, a.b.k+b.k))
		}
	}
	return tt.mk(OpAdd, a.w, a, b, nil, 0)
}
func (tt *TermTable) Sub(a, b *Term) *Term {
	if a.w != b.w {
		panic("Sub width")
	}
	if a.IsConst() && b.IsConst() {
		return tt.Const(a.w, a.k-b.k)
	}
	if a == b {
		return tt.Const(a.w, 0)
	}
	if b.IsConst() {
		if b.k == 0 {
			return a
		}
		// keep small subtractions as Sub for range analysis; fold nested
		if a.op == OpSub && a.b.IsConst() {
			s := a.b.k + b.k
			if s >= a.b.k && s <= mask(a.w) { // no overflow of the constant
				return tt.Sub(a.a, tt.Const(a.w, s))
			}
		}
		if a.op == OpAdd && a.b.IsConst() {
			if a.b.k >= b.k {
				return tt.Add(a.a, tt.Const(a.w, a.b.k-b.k))
			}
			return tt.Sub(a.a, tt.Const(a.w, b.k-a.b.k))
		}
	}
	// (x + y) - x
	if a.op == OpAdd {
		if a.a == b {
			return a.b
		}
		if a.b == b {
			return a.a
		}
	}
	return tt.mk(OpSub, a.w, a, b, nil, 0)
}
func (tt *TermTable) Mul(a, b *Term) *Term {
	if a.IsConst() && b.IsConst() {
		return tt.Const(a.w, a.k*b.k)
	}
	a, b = tt.order(a, b)
	if b.IsConst() {
		if b.k == 0 {
			return b
		}
		if b.k == 1 {
			return a
		}
		if b.k&(b.k-1) == 0 {
			return tt.Shl(a, tt.Const(a.w, uint64(bits.TrailingZeros64(b.k))))
		}
	}
	return tt.mk(OpMul, a.w, a, b, nil, 0)
}
func (tt *TermTable) UDiv(a, b *Term) *Term {
	if a.IsConst() && b.IsConst() && b.k != 0 {
		return tt.Const(a.w, a.k/b.k)
	}
	if b.IsConst() && b.k == 1 {
		return a
	}
	if b.IsConst() && b.k != 0 && b.k&(b.k-1) == 0 {
		return tt.LShr(a, tt.Const(a.w, uint64(bits.TrailingZeros64(b.k))))
	}
	return tt.mk(OpUDiv, a.w, a, b, nil, 0)
}
func (tt *TermTable) URem(a, b *Term) *Term {
	if a.IsConst() && b.IsConst() && b.k != 0 {
		return tt.Const(a.w, a.k%b.k)
	}
	if b.IsConst() && b.k != 0 && b.k&(b.k-1) == 0 {
		return tt.And(a, tt.Const(a.w, b.k-1))
	}
	return tt.mk(OpURem, a.w, a, b, nil, 0)
}
func (tt *TermTable) SDiv(a, b *Term) *Term {
	if a.IsConst() && b.IsConst() && b.k != 0 {
		x, y := sext(a.k, a.w), sext(b.k, a.w)
		if !(y == -1 && x == sext(uint64(1)<<(a.w-1), a.w)) {
			return tt.Const(a.w, uint64(x/y))
		}
		return a
	}
	if b.IsConst() && b.k == 1 {
		return a
	}
	// both operands non-negative as signed: same as unsigned
	if a.hi <= mask(a.w)>>1 && b.hi <= mask(a.w)>>1 {
		return tt.UDiv(a, b)
	}
	return tt.mk(OpSDiv, a.w, a, b, nil, 0)
}
func (tt *TermTable) SRem(a, b *Term) *Term {
	if a.IsConst() && b.IsConst() && b.k != 0 {
		x, y := sext(a.k, a.w), sext(b.k, a.w)
		if y == -1 {
			return tt.Const(a.w, 0)
		}
		return tt.Const(a.w, uint64(x%y))
	}
	if a.hi <= mask(a.w)>>1 && b.hi <= mask(a.w)>>1 {
		return tt.URem(a, b)
	}
	return tt.mk(OpSRem, a.w, a, b, nil, 0)
}
func (tt *TermTable) And(a, b *Term) *Term {
	if a.IsConst() && b.IsConst() {
		return tt.Const(a.w, a.k&b.k)
	}
	if a == b {
		return a
	}
	a, b = tt.order(a, b)
	if b.IsConst() {
		if b.k == 0 {
			return b
		}
		if b.k == mask(a.w) {
			return a
		}
		// mask covering the whole range of a
		if b.k&(b.k+1) == 0 && a.hi <= b.k {
			return a
		}
		if a.op == OpAnd && a.b.IsConst() {
			return tt.And(a.a, tt.Const(a.w, a.b.k&b.k))
		}
	}
	return tt.mk(OpAnd, a.w, a, b, nil, 0)
}
func (tt *TermTable) Or(a, b *Term) *Term {
	if a.IsConst() && b.IsConst() {
		return tt.Const(a.w, a.k|b.k)
	}
	if a == b {
		return a
	}
	a, b = tt.order(a, b)
	if b.IsConst() {
		if b.k == 0 {
			return a
		}
		if b.k == mask(a.w) {
			return b
		}
	}
	if r := tt.orAsConcat(a, b); r != nil {
		return r
	}
	if r := tt.orAsConcat(b, a); r != nil {
		return r
	}
	return tt.mk(OpOr, a.w, a, b, nil, 0)
}
// shiftedPart recognises hi = (zext(p) << k) possibly already in concat form
// and returns (p, k).
func (tt *TermTable) shiftedPart(x *Term) (*Term, uint8, bool) {
	if x.op == OpShl && x.b.IsConst() && x.b.k < uint64(x.w) {
		k := uint8(x.b.k)
		in := x.a
		if in.op == OpZExt && uint16(in.a.w)+uint16(k) <= uint16(x.w) {
			return in.a, k, true
		}
		if in.op == OpConcat || in.op == OpExtract || in.op == OpVar {
			// (in << k) keeps bits [w-k-1:0] of in
			if in.hi <= mask(x.w-k) {
				n := uint8(bitsLen(in.hi))
				if n == 0 {
					n = 1
				}
				return tt.Extract(in, n-1, 0), k, true
			}
		}
	}
	if x.op == OpZExt && x.a.op == OpConcat {
		return tt.splitTrailingZeros(x.a)
	}
	if x.op == OpConcat {
		return tt.splitTrailingZeros(x)
	}
	return nil, 0, false
}

// splitTrailingZeros: concat(..., 0:k) -> (prefix, k)
func (tt *TermTable) splitTrailingZeros(x *Term) (*Term, uint8, bool) {
	if x.op != OpConcat {
		return nil, 0, false
	}
	if x.b.IsConst() && x.b.k == 0 {
		return x.a, x.b.w, true
	}
	if x.b.op == OpConcat {
		if p, k, ok := tt.splitTrailingZeros(x.b); ok {
			return tt.Concat(x.a, p), k, true
		}
	}
	return nil, 0, false
}

func bitsLen(v uint64) int { return bits.Len64(v) }

// orAsConcat: (zext(p) << k) | q  with q < 2^k  ==>  zext(concat(p, q[k-1:0]))
func (tt *TermTable) orAsConcat(hiPart, q *Term) *Term {
	p, k, ok := tt.shiftedPart(hiPart)
	if !ok || k == 0 || k >= 64 {
		return nil
	}
	if q.hi > mask(k) {
		return nil
	}
	low := tt.Extract(q, k-1, 0)
	c := tt.Concat(p, low)
	return tt.ZExt(c, hiPart.w)
}

func (tt *TermTable) Xor(a, b *Term) *Term {
	if a.IsConst() && b.IsConst() {
		return tt.Const(a.w, a.k^b.k)
	}
	if a == b {
		return tt.Const(a.w, 0)
	}
	a, b = tt.order(a, b)
	if b.IsConst() && b.k == 0 {
		return a
	}
	if b.IsConst() && b.k == mask(a.w) {
		return tt.Not(a)
	}
	return tt.mk(OpXor, a.w, a, b, nil, 0)
}

// Shifts: b has the same width as a (callers normalise); semantics are SMT's
// (shift >= width gives 0 / sign fill), which is also Go's.
func (tt *TermTable) Shl(a, b *Term) *Term {
	if b.IsConst() {
		if b.k == 0 {
			return a
		}
		if b.k >= uint64(a.w) {
			return tt.Const(a.w, 0)
		}
		if a.IsConst() {
			return tt.Const(a.w, a.k<<b.k)
		}
	}
	if a.IsConst() && a.k == 0 {
		return a
	}
	return tt.mk(OpShl, a.w, a, b, nil, 0)
}
func (tt *TermTable) LShr(a, b *Term) *Term {
	if b.IsConst() {
		if b.k == 0 {
			return a
		}
		if b.k >= uint64(a.w) {
			return tt.Const(a.w, 0)
		}
		if a.IsConst() {
			return tt.Const(a.w, a.k>>b.k)
		}
		if a.hi>>b.k == 0 {
			return tt.Const(a.w, 0)
		}
	}
	if a.IsConst() && a.k == 0 {
		return a
	}
	return tt.mk(OpLShr, a.w, a, b, nil, 0)
}
func (tt *TermTable) AShr(a, b *Term) *Term {
	if b.IsConst() {
		if b.k == 0 {
			return a
		}
		if a.IsConst() {
			s := b.k
			if s > 63 {
				s = 63
			}
			return tt.Const(a.w, uint64(sext(a.k, a.w)>>s))
		}
	}
	if a.hi <= mask(a.w)>>1 {
		return tt.LShr(a, b)
	}
	return tt.mk(OpAShr, a.w, a, b, nil, 0)
}

func (tt *TermTable) Extract(a *Term, hi, lo uint8) *Term {
	w := hi - lo + 1
	if lo == 0 && w == a.w {
		return a
	}
	if a.IsConst() {
		return tt.Const(w, a.k>>lo)
	}
	switch a.op {
	case OpZExt:
		if hi < a.a.w {
			return tt.Extract(a.a, hi, lo)
		}
		if lo >= a.a.w {
			return tt.Const(w, 0)
		}
		if lo == 0 {
			return tt.ZExt(a.a, w)
		}
	case OpSExt:
		if hi < a.a.w {
			return tt.Extract(a.a, hi, lo)
		}
	case OpExtract:
		l0 := uint8(a.k & 0xff)
		return tt.Extract(a.a, hi+l0, lo+l0)
	case OpConcat:
		if hi < a.b.w {
			return tt.Extract(a.b, hi, lo)
		}
		if lo >= a.b.w {
			return tt.Extract(a.a, hi-a.b.w, lo-a.b.w)
		}
	case OpIte:
		if a.b.IsConst() || a.c.IsConst() {
			return tt.Ite(a.a, tt.Extract(a.b, hi, lo), tt.Extract(a.c, hi, lo))
		}
	case OpAnd, OpOr, OpXor:
		if lo == 0 && (a.b.IsConst()) {
			x, y := tt.Extract(a.a, hi, lo), tt.Extract(a.b, hi, lo)
			switch a.op {
			case OpAnd:
				return tt.And(x, y)
			case OpOr:
				return tt.Or(x, y)
			default:
				return tt.Xor(x, y)
			}
		}
	case OpLShr:
		// extract of (x >> c) = extract of x at shifted position
		if a.b.IsConst() && a.b.k < uint64(a.w) {
			c := uint8(a.b.k)
			if uint16(hi)+uint16(c) < uint16(a.w) {
				return tt.Extract(a.a, hi+c, lo+c)
			}
		}
	case OpShl:
		if a.b.IsConst() && a.b.k < uint64(a.w) {
			c := uint8(a.b.k)
			if lo >= c {
				return tt.Extract(a.a, hi-c, lo-c)
			}
			if hi < c {
				return tt.Const(w, 0)
			}
			return tt.Concat(tt.Extract(a.a, hi-c, 0), tt.Const(c-lo, 0))
		}
	}
	return tt.mk(OpExtract, w, a, nil, nil, uint64(hi)<<8|uint64(lo))
}
func (tt *TermTable) ZExt(a *Term, w uint8) *Term {
	if w == a.w {
		return a
	}
	if w < a.w {
		return tt.Extract(a, w-1, 0)
	}
	if a.IsConst() {
		return tt.Const(w, a.k)
	}
	if a.op == OpZExt {
		return tt.ZExt(a.a, w)
	}
	if a.op == OpIte && (a.b.IsConst() && a.c.IsConst()) {
		return tt.Ite(a.a, tt.ZExt(a.b, w), tt.ZExt(a.c, w))
	}
	return tt.mk(OpZExt, w, a, nil, nil, 0)
}
func (tt *TermTable) SExt(a *Term, w uint8) *Term {
	if w == a.w {
		return a
	}
	if w < a.w {
		return tt.Extract(a, w-1, 0)
	}
	if a.IsConst() {
		return tt.Const(w, uint64(sext(a.k, a.w)))
	}
	if a.hi <= mask(a.w)>>1 {
		return tt.ZExt(a, w)
	}
	return tt.mk(OpSExt, w, a, nil, nil, 0)
}
func (tt *TermTable) Concat(a, b *Term) *Term {
	if a.IsConst() && b.IsConst() {
		return tt.Const(a.w+b.w, a.k<<b.w|b.k)
	}
	if a.IsConst() && a.k == 0 {
		return tt.ZExt(b, a.w+b.w)
	}
	// adjacent extracts of the same term
	if a.op == OpExtract {
		ah, al := uint8(a.k>>8), uint8(a.k&0xff)
		if b.op == OpExtract && b.a == a.a {
			bh, bl := uint8(b.k>>8), uint8(b.k&0xff)
			if al == bh+1 {
				return tt.Extract(a.a, ah, bl)
			}
		}
		if b.op == OpConcat && b.a.op == OpExtract && b.a.a == a.a {
			bh, bl := uint8(b.a.k>>8), uint8(b.a.k&0xff)
			if al == bh+1 {
				return tt.Concat(tt.Extract(a.a, ah, bl), b.b)
			}
		}
		// whole low part is the rest of the term
		if b == tt.lowOf(a.a, al) {
			return tt.Extract(a.a, ah, 0)
		}
	}
	// right-associate: concat(concat(x,y),z) = concat(x, concat(y,z))
	if a.op == OpConcat {
		return tt.Concat(a.a, tt.Concat(a.b, b))
	}
	return tt.mk(OpConcat, a.w+b.w, a, b, nil, 0)
}

// lowOf returns the canonical term for x[al-1:0] if al > 0 (else nil)
func (tt *TermTable) lowOf(x *Term, al uint8) *Term {
	if al == 0 {
		return nil
	}
	return tt.Extract(x, al-1, 0)
}

func (tt *TermTable) Ite(c, a, b *Term) *Term {
	if c.IsTrue() {
		return a
	}
	if c.IsFalse() {
		return b
	}
	if a == b {
		return a
	}
	if a.w == 0 {
		if a.IsTrue() && b.IsFalse() {
			return c
		}
		if a.IsFalse() && b.IsTrue() {
			return tt.BNot(c)
		}
		if a.IsTrue() {
			return tt.BOr(c, b)
		}
		if a.IsFalse() {
			return tt.BAnd(tt.BNot(c), b)
		}
		if b.IsTrue() {
			return tt.BOr(tt.BNot(c), a)
		}
		if b.IsFalse() {
			return tt.BAnd(c, a)
		}
		return tt.BOr(tt.BAnd(c, a), tt.BAnd(tt.BNot(c), b))
	}
	if c.op == OpBNot {
		return tt.Ite(c.a, b, a)
	}
	// ite(c, x, ite(c, y, z)) = ite(c, x, z)
	if b.op == OpIte && b.a == c {
		return tt.Ite(c, a, b.c)
	}
	if a.op == OpIte && a.a == c {
		return tt.Ite(c, a.b, b)
	}
	return tt.mk(OpIte, a.w, c, a, b, 0)
}

func (tt *TermTable) Eq(a, b *Term) *Term {
	if a.w != b.w {
		panic(fmt.Sprintf("Eq width %d %d", a.w, b.w))
	}
	if a == b {
		return tt.tru
	}
	if a.IsConst() && b.IsConst() {
		return tt.Bool(a.k == b.k)
	}
	if a.w == 0 {
		if a.IsConst() {
			a, b = b, a
		}
		if b.IsTrue() {
			return a
		}
		if b.IsFalse() {
			return tt.BNot(a)
		}
		a, b = tt.order(a, b)
		return tt.mk(OpEq, 0, a, b, nil, 0)
	}
	if a.hi < b.lo || b.hi < a.lo {
		return tt.fls
	}
	a, b = tt.order(a, b)
	if b.IsConst() {
		switch a.op {
		case OpIte:
			if a.b.IsConst() || a.c.IsConst() {
				return tt.Ite(a.a, tt.Eq(a.b, b), tt.Eq(a.c, b))
			}
		case OpZExt:
			if b.k <= mask(a.a.w) {
				return tt.Eq(a.a, tt.Const(a.a.w, b.k))
			}
			return tt.fls
		case OpAdd:
			if a.b.IsConst() {
				return tt.Eq(a.a, tt.Const(a.w, b.k-a.b.k))
			}
		case OpXor:
			if a.b.IsConst() {
				return tt.Eq(a.a, tt.Const(a.w, b.k^a.b.k))
			}
		}
	}
	return tt.mk(OpEq, 0, a, b, nil, 0)
}
func (tt *TermTable) Ult(a, b *Term) *Term {
	if a.w != b.w {
		panic("Ult width")
	}
	if a == b {
		return tt.fls
	}
	if a.hi < b.lo {
		return tt.tru
	}
	if a.lo >= b.hi {
		return tt.fls
	}
	if a.op == OpZExt && b.op == OpZExt && a.a.w == b.a.w {
		return tt.Ult(a.a, b.a)
	}
	if b.IsConst() && a.op == OpZExt && b.k <= mask(a.a.w) {
		return tt.Ult(a.a, tt.Const(a.a.w, b.k))
	}
	if a.IsConst() && b.op == OpZExt && a.k <= mask(b.a.w) {
		return tt.Ult(tt.Const(b.a.w, a.k), b.a)
	}
	return tt.mk(OpUlt, 0, a, b, nil, 0)
}
func (tt *TermTable) Ule(a, b *Term) *Term { return tt.BNot(tt.Ult(b, a)) }

func signedRangeOK(t *Term) bool { return t.hi <= mask(t.w)>>1 }

func (tt *TermTable) Slt(a, b *Term) *Term {
	if a.w != b.w {
		panic("Slt width")
	}
	if a == b {
		return tt.fls
	}
	if a.IsConst() && b.IsConst() {
		return tt.Bool(sext(a.k, a.w) < sext(b.k, b.w))
	}
	if signedRangeOK(a) && signedRangeOK(b) {
		return tt.Ult(a, b)
	}
	// a nonneg, b const negative => false ; a const negative, b nonneg => true
	if signedRangeOK(a) && b.IsConst() && !signedRangeOK(b) {
		return tt.fls
	}
	if signedRangeOK(b) && a.IsConst() && !signedRangeOK(a) {
		return tt.tru
	}
	return tt.mk(OpSlt, 0, a, b, nil, 0)
}
func (tt *TermTable) Sle(a, b *Term) *Term { return tt.BNot(tt.Slt(b, a)) }

func (tt *TermTable) BNot(a *Term) *Term {
	if a.IsConst() {
		return tt.Bool(a.k == 0)
	}
	if a.op == OpBNot {
		return a.a
	}
	return tt.mk(OpBNot, 0, a, nil, nil, 0)
}
func (tt *TermTable) BAnd(a, b *Term) *Term {
	if a.IsFalse() || b.IsFalse() {
		return tt.fls
	}
	if a.IsTrue() {
		return b
	}
	if b.IsTrue() {
		return a
	}
	if a == b {
		return a
	}
	if (a.op == OpBNot && a.a == b) || (b.op == OpBNot && b.a == a) {
		return tt.fls
	}
	a, b = tt.order(a, b)
	return tt.mk(OpBAnd, 0, a, b, nil, 0)
}
func (tt *TermTable) BOr(a, b *Term) *Term {
	if a.IsTrue() || b.IsTrue() {
		return tt.tru
	}
	if a.IsFalse() {
		return b
	}
	if b.IsFalse() {
		return a
	}
	if a == b {
		return a
	}
	if (a.op == OpBNot && a.a == b) || (b.op == OpBNot && b.a == a) {
		return tt.tru
	}
	a, b = tt.order(a, b)
	return tt.mk(OpBOr, 0, a, b, nil, 0)
}
func (tt *TermTable) Neq(a, b *Term) *Term { return tt.BNot(tt.Eq(a, b)) }

// ---- evaluation under a model ----

type Model struct {
	vals map[int32]uint64 // var term id -> value
}

func (tt *TermTable) NewEpoch() { tt.epoch++ }

// Eval evaluates t under m; variables missing from the model are 0.
func (tt *TermTable) Eval(t *Term, m *Model) uint64 {
	if t.op == OpConst {
		return t.k
	}
	if t.evalEp == tt.epoch {
		return t.evalV
	}
	var v uint64
	switch t.op {
	case OpVar:
		v = m.vals[t.id]
	case OpNot:
		v = ^tt.Eval(t.a, m)
	case OpNeg:
		v = -tt.Eval(t.a, m)
	case OpAdd:
		v = tt.Eval(t.a, m) + tt.Eval(t.b, m)
	case OpSub:
		v = tt.Eval(t.a, m) - tt.Eval(t.b, m)
	case OpMul:
		v = tt.Eval(t.a, m) * tt.Eval(t.b, m)
	case OpUDiv:
		x, y := tt.Eval(t.a, m), tt.Eval(t.b, m)
		if y == 0 {
			v = ^uint64(0)
		} else {
			v = x / y
		}
	case OpURem:
		x, y := tt.Eval(t.a, m), tt.Eval(t.b, m)
		if y == 0 {
			v = x
		} else {
			v = x % y
		}
	case OpSDiv:
		x, y := sext(tt.Eval(t.a, m), t.w), sext(tt.Eval(t.b, m), t.w)
		if y == 0 {
			if x < 0 {
				v = 1
			} else {
				v = ^uint64(0)
			}
		} else if y == -1 {
			v = uint64(-x)
		} else {
			v = uint64(x / y)
		}
	case OpSRem:
		x, y := sext(tt.Eval(t.a, m), t.w), sext(tt.Eval(t.b, m), t.w)
		if y == 0 {
			v = uint64(x)
		} else if y == -1 {
			v = 0
		} else {
			v = uint64(x % y)
		}
	case OpAnd:
		v = tt.Eval(t.a, m) & tt.Eval(t.b, m)
	case OpOr:
		v = tt.Eval(t.a, m) | tt.Eval(t.b, m)
	case OpXor:
		v = tt.Eval(t.a, m) ^ tt.Eval(t.b, m)
	case OpShl:
		s := tt.Eval(t.b, m)
		if s >= uint64(t.w) {
			v = 0
		} else {
			v = tt.Eval(t.a, m) << s
		}
	case OpLShr:
		s := tt.Eval(t.b, m)
		if s >= uint64(t.w) {
			v = 0
		} else {
			v = tt.Eval(t.a, m) >> s
		}
	case OpAShr:
		s := tt.Eval(t.b, m)
		if s > 63 {
			s = 63
		}
		v = uint64(sext(tt.Eval(t.a, m), t.w) >> s)
	case OpExtract:
		v = tt.Eval(t.a, m) >> (t.k & 0xff)
	case OpZExt:
		v = tt.Eval(t.a, m)
	case OpSExt:
		v = uint64(sext(tt.Eval(t.a, m), t.a.w))
	case OpConcat:
		v = tt.Eval(t.a, m)<<t.b.w | tt.Eval(t.b, m)
	case OpIte:
		if tt.Eval(t.a, m) != 0 {
			v = tt.Eval(t.b, m)
		} else {
			v = tt.Eval(t.c, m)
		}
	case OpEq:
		v = b2u(tt.Eval(t.a, m) == tt.Eval(t.b, m))
	case OpUlt:
		v = b2u(tt.Eval(t.a, m) < tt.Eval(t.b, m))
	case OpSlt:
		v = b2u(sext(tt.Eval(t.a, m), t.a.w) < sext(tt.Eval(t.b, m), t.a.w))
	case OpBNot:
		v = 1 - tt.Eval(t.a, m)
	case OpBAnd:
		v = tt.Eval(t.a, m) & tt.Eval(t.b, m)
	case OpBOr:
		v = tt.Eval(t.a, m) | tt.Eval(t.b, m)
	default:
		panic("eval: op")
	}
	if t.w == 0 {
		v &= 1
	} else {
		v &= mask(t.w)
	}
	t.evalEp = tt.epoch
	t.evalV = v
	return v
}

func b2u(b bool) uint64 {
	if b {
		return 1
	}
	return 0
}

// ---- SMT-LIB printing ----

func sortOf(w uint8) string {
	if w == 0 {
		return "Bool"
	}
	return fmt.Sprintf("(_ BitVec %d)", w)
}

func (t *Term) ref() string {
	switch t.op {
	case OpConst:
		if t.w == 0 {
			if t.k != 0 {
				return "true"
			}
			return "false"
		}
		if t.w%4 == 0 {
			return fmt.Sprintf("#x%0*x", int(t.w/4), t.k)
		}
		return fmt.Sprintf("#b%0*b", int(t.w), t.k)
	case OpVar:
		return "v" + fmt.Sprint(t.id)
	}
	return "t" + fmt.Sprint(t.id)
}

func (t *Term) body() string {
	switch t.op {
	case OpExtract:
		return fmt.Sprintf("((_ extract %d %d) %s)", t.k>>8, t.k&0xff, t.a.ref())
	case OpZExt:
		return fmt.Sprintf("((_ zero_extend %d) %s)", t.w-t.a.w, t.a.ref())
	case OpSExt:
		return fmt.Sprintf("((_ sign_extend %d) %s)", t.w-t.a.w, t.a.ref())
	}
	var sb strings.Builder
	sb.WriteByte('(')
	sb.WriteString(opNames[t.op])
	for _, x := range []*Term{t.a, t.b, t.c} {
		if x != nil {
			sb.WriteByte(' ')
			sb.WriteString(x.ref())
		}
	}
	sb.WriteByte(')')
	return sb.String()
}

// String renders a term for humans (bounded depth).
func (t *Term) String() string { return t.str(6) }
func (t *Term) str(d int) string {
	switch t.op {
	case OpConst:
		if t.w == 0 {
			return t.ref()
		}
		return fmt.Sprintf("%d:%d", t.k, t.w)
	case OpVar:
		return t.name
	}
	if d == 0 {
		return "…"
	}
	switch t.op {
	case OpExtract:
		return fmt.Sprintf("%s[%d:%d]", t.a.str(d-1), t.k>>8, t.k&0xff)
	case OpZExt:
		return fmt.Sprintf("zx%d(%s)", t.w, t.a.str(d-1))
	case OpSExt:
		return fmt.Sprintf("sx%d(%s)", t.w, t.a.str(d-1))
	}
	s := "(" + opNames[t.op]
	for _, x := range []*Term{t.a, t.b, t.c} {
		if x != nil {
			s += " " + x.str(d-1)
		}
	}
	return s + ")"
}
