package main

import (
	"math/rand"
	"testing"
)

// Differential test of the simplifying constructors against raw semantics.

type shadow struct {
	t *Term
	f func(m map[string]uint64) uint64
}

func TestSimplifierDifferential(t *testing.T) {
	rng := rand.New(rand.NewSource(12345))
	for round := 0; round < 3000; round++ {
		tt := NewTermTable()
		widths := []uint8{8, 16, 32, 64}
		var pool = map[uint8][]shadow{}
		names := []string{}
		for _, w := range widths {
			for i := 0; i < 3; i++ {
				name := string(rune('a'+i)) + string(rune('0'+w/8))
				names = append(names, name)
				nm, ww := name, w
				pool[w] = append(pool[w], shadow{tt.Var(name, w), func(m map[string]uint64) uint64 { return m[nm] & mask(ww) }})
			}
			for _, c := range []uint64{0, 1, 3, 8, 16, 24, 0xff, 0xffff, 0x80, mask(w), mask(w) >> 1, 1000000000} {
				cc, ww := c&mask(w), w
				pool[w] = append(pool[w], shadow{tt.Const(w, cc), func(m map[string]uint64) uint64 { return cc & mask(ww) }})
			}
		}
		var bools []shadow
		pick := func(w uint8) shadow { p := pool[w]; return p[rng.Intn(len(p))] }
		for step := 0; step < 40; step++ {
			w := widths[rng.Intn(4)]
			a, b := pick(w), pick(w)
			var s shadow
			m := mask(w)
			switch rng.Intn(22) {
			case 0:
				s = shadow{tt.Add(a.t, b.t), func(mm map[string]uint64) uint64 { return (a.f(mm) + b.f(mm)) & m }}
			case 1:
				s = shadow{tt.Sub(a.t, b.t), func(mm map[string]uint64) uint64 { return (a.f(mm) - b.f(mm)) & m }}
			case 2:
				s = shadow{tt.Mul(a.t, b.t), func(mm map[string]uint64) uint64 { return (a.f(mm) * b.f(mm)) & m }}
			case 3:
				s = shadow{tt.And(a.t, b.t), func(mm map[string]uint64) uint64 { return a.f(mm) & b.f(mm) }}
			case 4:
				s = shadow{tt.Or(a.t, b.t), func(mm map[string]uint64) uint64 { return a.f(mm) | b.f(mm) }}
			case 5:
				s = shadow{tt.Xor(a.t, b.t), func(mm map[string]uint64) uint64 { return a.f(mm) ^ b.f(mm) }}
			case 6:
				s = shadow{tt.Shl(a.t, b.t), func(mm map[string]uint64) uint64 {
					if b.f(mm) >= uint64(w) {
						return 0
					}
					return (a.f(mm) << b.f(mm)) & m
				}}
			case 7:
				s = shadow{tt.LShr(a.t, b.t), func(mm map[string]uint64) uint64 {
					if b.f(mm) >= uint64(w) {
						return 0
					}
					return a.f(mm) >> b.f(mm)
				}}
			case 8:
				s = shadow{tt.AShr(a.t, b.t), func(mm map[string]uint64) uint64 {
					sh := b.f(mm)
					if sh > 63 {
						sh = 63
					}
					return uint64(sext(a.f(mm), w)>>sh) & m
				}}
			case 9:
				s = shadow{tt.UDiv(a.t, b.t), func(mm map[string]uint64) uint64 {
					if b.f(mm) == 0 {
						return m
					}
					return a.f(mm) / b.f(mm)
				}}
			case 10:
				s = shadow{tt.URem(a.t, b.t), func(mm map[string]uint64) uint64 {
					if b.f(mm) == 0 {
						return a.f(mm)
					}
					return a.f(mm) % b.f(mm)
				}}
			case 11:
				s = shadow{tt.Not(a.t), func(mm map[string]uint64) uint64 { return ^a.f(mm) & m }}
			case 12:
				s = shadow{tt.Neg(a.t), func(mm map[string]uint64) uint64 { return -a.f(mm) & m }}
			case 13: // extract to smaller width then store in that pool
				if w > 8 {
					nw := widths[rng.Intn(4)]
					if nw < w {
						lo := uint8(rng.Intn(int(w-nw) + 1))
						x := a
						s = shadow{tt.Extract(x.t, lo+nw-1, lo), func(mm map[string]uint64) uint64 { return (x.f(mm) >> lo) & mask(nw) }}
						pool[nw] = append(pool[nw], s)
						continue
					}
				}
				continue
			case 14: // zext
				nw := widths[rng.Intn(4)]
				if nw > w {
					x := a
					s = shadow{tt.ZExt(x.t, nw), func(mm map[string]uint64) uint64 { return x.f(mm) }}
					pool[nw] = append(pool[nw], s)
				}
				continue
			case 15: // sext
				nw := widths[rng.Intn(4)]
				if nw > w {
					x := a
					ww := w
					s = shadow{tt.SExt(x.t, nw), func(mm map[string]uint64) uint64 { return uint64(sext(x.f(mm), ww)) & mask(nw) }}
					pool[nw] = append(pool[nw], s)
				}
				continue
			case 16: // concat
				if w <= 32 {
					nw := w * 2
					x, y := a, b
					ww := w
					s = shadow{tt.Concat(x.t, y.t), func(mm map[string]uint64) uint64 { return x.f(mm)<<ww | y.f(mm) }}
					pool[nw] = append(pool[nw], s)
				}
				continue
			case 17, 18, 19: // comparisons -> bools
				x, y := a, b
				var bs shadow
				switch rng.Intn(4) {
				case 0:
					bs = shadow{tt.Eq(x.t, y.t), func(mm map[string]uint64) uint64 { return b2u(x.f(mm) == y.f(mm)) }}
				case 1:
					bs = shadow{tt.Ult(x.t, y.t), func(mm map[string]uint64) uint64 { return b2u(x.f(mm) < y.f(mm)) }}
				case 2:
					ww := w
					bs = shadow{tt.Slt(x.t, y.t), func(mm map[string]uint64) uint64 { return b2u(sext(x.f(mm), ww) < sext(y.f(mm), ww)) }}
				default:
					bs = shadow{tt.Ule(x.t, y.t), func(mm map[string]uint64) uint64 { return b2u(x.f(mm) <= y.f(mm)) }}
				}
				bools = append(bools, bs)
				continue
			case 20: // ite
				if len(bools) > 0 {
					c := bools[rng.Intn(len(bools))]
					x, y := a, b
					s = shadow{tt.Ite(c.t, x.t, y.t), func(mm map[string]uint64) uint64 {
						if c.f(mm) != 0 {
							return x.f(mm)
						}
						return y.f(mm)
					}}
				} else {
					continue
				}
			case 21: // bool ops
				if len(bools) > 1 {
					c, d := bools[rng.Intn(len(bools))], bools[rng.Intn(len(bools))]
					switch rng.Intn(3) {
					case 0:
						bools = append(bools, shadow{tt.BAnd(c.t, d.t), func(mm map[string]uint64) uint64 { return c.f(mm) & d.f(mm) }})
					case 1:
						bools = append(bools, shadow{tt.BOr(c.t, d.t), func(mm map[string]uint64) uint64 { return c.f(mm) | d.f(mm) }})
					default:
						bools = append(bools, shadow{tt.BNot(c.t), func(mm map[string]uint64) uint64 { return 1 - c.f(mm) }})
					}
				}
				continue
			}
			if s.t != nil {
				pool[w] = append(pool[w], s)
			}
		}
		// check every term under random models, including range soundness
		for trial := 0; trial < 8; trial++ {
			mm := map[string]uint64{}
			model := &Model{vals: map[int32]uint64{}}
			for _, n := range names {
				v := rng.Uint64()
				switch rng.Intn(4) {
				case 0:
					v = uint64(rng.Intn(4))
				case 1:
					v = ^uint64(rng.Intn(4))
				}
				mm[n] = v
			}
			for _, v := range tt.vars {
				model.vals[v.id] = mm[v.name] & mask(v.w)
			}
			tt.NewEpoch()
			check := func(s shadow) {
				got := tt.Eval(s.t, model)
				want := s.f(mm)
				if got != want {
					t.Fatalf("round %d: term %s: eval %x want %x (model %v)", round, s.t, got, want, mm)
				}
				if s.t.w > 0 && (want < s.t.lo || want > s.t.hi) {
					t.Fatalf("round %d: term %s: value %x outside range [%x,%x]", round, s.t, want, s.t.lo, s.t.hi)
				}
			}
			for _, w := range widths {
				for _, s := range pool[w] {
					check(s)
				}
			}
			for _, s := range bools {
				check(s)
			}
		}
	}
}

func TestByteReassembly(t *testing.T) {
	tt := NewTermTable()
	for _, w := range []uint8{16, 32, 64} {
		v := tt.Var("v"+string(rune('0'+w/8)), w)
		n := int(w / 8)
		// serialize big endian: b[i] = byte(v >> (8*(n-1-i)))
		bs := make([]*Term, n)
		for i := 0; i < n; i++ {
			bs[i] = tt.Extract(tt.LShr(v, tt.Const(w, uint64(8*(n-1-i)))), 7, 0)
		}
		// parse like encoding/binary BigEndian: b[n-1] | b[n-2]<<8 | ...
		acc := tt.ZExt(bs[n-1], w)
		for i := n - 2; i >= 0; i-- {
			acc = tt.Or(acc, tt.Shl(tt.ZExt(bs[i], w), tt.Const(w, uint64(8*(n-1-i)))))
		}
		if acc != v {
			t.Fatalf("w=%d: big-endian reassembly not collapsed: %s", w, acc)
		}
		// gopacket style: uint32(b[0])<<24 | uint32(b[1])<<16 | ...
		acc = tt.Shl(tt.ZExt(bs[0], w), tt.Const(w, uint64(8*(n-1))))
		for i := 1; i < n; i++ {
			acc = tt.Or(acc, tt.Shl(tt.ZExt(bs[i], w), tt.Const(w, uint64(8*(n-1-i)))))
		}
		if acc != v {
			t.Fatalf("w=%d: left-to-right reassembly not collapsed: %s", w, acc)
		}
		// little endian
		ls := make([]*Term, n)
		for i := 0; i < n; i++ {
			ls[i] = tt.Extract(tt.LShr(v, tt.Const(w, uint64(8*i))), 7, 0)
		}
		acc = tt.ZExt(ls[0], w)
		for i := 1; i < n; i++ {
			acc = tt.Or(acc, tt.Shl(tt.ZExt(ls[i], w), tt.Const(w, uint64(8*i))))
		}
		if acc != v {
			t.Fatalf("w=%d: little-endian reassembly not collapsed: %s", w, acc)
		}
	}
}
