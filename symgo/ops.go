package main

import (
	"fmt"
	"go/token"
	"go/types"
	"math"

	"golang.org/x/tools/go/ssa"
)

func (it *Interp) unop(fr *frame, in *ssa.UnOp) Value {
	x := fr.get(in.X)
	if o, ok := x.(*OpaqueV); ok && it.concrete {
		return o
	}
	switch in.Op {
	case token.MUL:
		p := x.(*PtrV)
		if p.isNil() {
			it.rtPanic(fr, "nil", "invalid memory address or nil pointer dereference")
		}
		return it.load(fr, p)
	case token.ARROW:
		return it.chanRecv(fr, x.(*ChanV), in.CommaOk, in.Type())
	case token.SUB:
		switch v := x.(type) {
		case *Term:
			return it.tt.Neg(v)
		case *FloatV:
			return &FloatV{-v.f}
		}
	case token.NOT:
		return it.tt.BNot(x.(*Term))
	case token.XOR:
		return it.tt.Not(x.(*Term))
	}
	it.unsupported("unop %s on %T", in.Op, x)
	return nil
}

func (it *Interp) shiftCount(fr *frame, x, y *Term, yt types.Type) (*Term, *Term) {
	// returns (count normalised to x's width, tooBig condition)
	if isSigned(yt) {
		neg := it.tt.Slt(y, it.tt.Const(y.w, 0))
		if it.ex.branch(neg, false) {
			it.rtPanic(fr, "shift", "negative shift amount")
		}
	}
	if y.w == x.w {
		return y, it.tt.fls
	}
	if y.w < x.w {
		return it.tt.ZExt(y, x.w), it.tt.fls
	}
	big := it.tt.BNot(it.tt.Ult(y, it.tt.Const(y.w, uint64(x.w))))
	return it.tt.Extract(y, x.w-1, 0), big
}

func (it *Interp) binop(fr *frame, op token.Token, xt types.Type, x, y Value, yt types.Type) Value {
	tt := it.tt
	if it.concrete {
		if o, ok := x.(*OpaqueV); ok {
			return o
		}
		if o, ok := y.(*OpaqueV); ok {
			return o
		}
	}
	switch a := x.(type) {
	case *Term:
		b, ok := y.(*Term)
		if !ok {
			break
		}
		if a.w == 0 { // bools
			switch op {
			case token.EQL:
				return tt.Eq(a, b)
			case token.NEQ:
				return tt.Neq(a, b)
			case token.AND, token.LAND:
				return tt.BAnd(a, b)
			case token.OR, token.LOR:
				return tt.BOr(a, b)
			}
			break
		}
		signed := isSigned(xt)
		switch op {
		case token.ADD:
			return tt.Add(a, b)
		case token.SUB:
			return tt.Sub(a, b)
		case token.MUL:
			return tt.Mul(a, b)
		case token.QUO, token.REM:
			z := tt.Eq(b, tt.Const(b.w, 0))
			if it.ex.branch(z, false) {
				it.rtPanic(fr, "div", "integer divide by zero")
			}
			if op == token.QUO {
				if signed {
					return tt.SDiv(a, b)
				}
				return tt.UDiv(a, b)
			}
			if signed {
				return tt.SRem(a, b)
			}
			return tt.URem(a, b)
		case token.AND:
			return tt.And(a, b)
		case token.OR:
			return tt.Or(a, b)
		case token.XOR:
			return tt.Xor(a, b)
		case token.AND_NOT:
			return tt.And(a, tt.Not(b))
		case token.SHL:
			c, big := it.shiftCount(fr, a, b, yt)
			return tt.Ite(big, tt.Const(a.w, 0), tt.Shl(a, c))
		case token.SHR:
			c, big := it.shiftCount(fr, a, b, yt)
			if signed {
				fill := tt.AShr(a, tt.Const(a.w, uint64(a.w-1)))
				return tt.Ite(big, fill, tt.AShr(a, c))
			}
			return tt.Ite(big, tt.Const(a.w, 0), tt.LShr(a, c))
		case token.EQL:
			return tt.Eq(a, b)
		case token.NEQ:
			return tt.Neq(a, b)
		case token.LSS:
			if signed {
				return tt.Slt(a, b)
			}
			return tt.Ult(a, b)
		case token.LEQ:
			if signed {
				return tt.Sle(a, b)
			}
			return tt.Ule(a, b)
		case token.GTR:
			if signed {
				return tt.Slt(b, a)
			}
			return tt.Ult(b, a)
		case token.GEQ:
			if signed {
				return tt.Sle(b, a)
			}
			return tt.Ule(b, a)
		}
	case *FloatV:
		b, ok := y.(*FloatV)
		if !ok {
			break
		}
		switch op {
		case token.ADD:
			return &FloatV{a.f + b.f}
		case token.SUB:
			return &FloatV{a.f - b.f}
		case token.MUL:
			return &FloatV{a.f * b.f}
		case token.QUO:
			return &FloatV{a.f / b.f}
		case token.EQL:
			return tt.Bool(a.f == b.f)
		case token.NEQ:
			return tt.Bool(a.f != b.f)
		case token.LSS:
			return tt.Bool(a.f < b.f)
		case token.LEQ:
			return tt.Bool(a.f <= b.f)
		case token.GTR:
			return tt.Bool(a.f > b.f)
		case token.GEQ:
			return tt.Bool(a.f >= b.f)
		}
	case *StrV:
		b, ok := y.(*StrV)
		if !ok {
			break
		}
		switch op {
		case token.ADD:
			return it.strConcat(a, b)
		case token.EQL:
			return it.eqValues(a, b)
		case token.NEQ:
			return tt.BNot(it.eqValues(a, b))
		case token.LSS, token.LEQ, token.GTR, token.GEQ:
			if a.b == nil && b.b == nil && !a.opaque && !b.opaque {
				switch op {
				case token.LSS:
					return tt.Bool(a.s < b.s)
				case token.LEQ:
					return tt.Bool(a.s <= b.s)
				case token.GTR:
					return tt.Bool(a.s > b.s)
				default:
					return tt.Bool(a.s >= b.s)
				}
			}
			lt := it.bytesLess(it.strBytes(a), it.strBytes(b))
			eq := it.eqValues(a, b)
			switch op {
			case token.LSS:
				return lt
			case token.LEQ:
				return tt.BOr(lt, eq)
			case token.GTR:
				return tt.BNot(tt.BOr(lt, eq))
			default:
				return tt.BNot(lt)
			}
		}
	}
	switch op {
	case token.EQL:
		return it.eqValues(x, y)
	case token.NEQ:
		return it.tt.BNot(it.eqValues(x, y))
	}
	it.unsupported("binop %s on %T,%T", op, x, y)
	return nil
}

func (it *Interp) strBytes(s *StrV) []*Term {
	if s.opaque {
		it.unsupported("content of opaque (formatted) string used")
	}
	if s.b != nil {
		return s.b
	}
	out := make([]*Term, len(s.s))
	for i := 0; i < len(s.s); i++ {
		out[i] = it.tt.Const(8, uint64(s.s[i]))
	}
	return out
}

func (it *Interp) strLen(s *StrV) int {
	if s.opaque {
		it.unsupported("length of opaque (formatted) string used")
	}
	if s.b != nil {
		return len(s.b)
	}
	return len(s.s)
}

func (it *Interp) mkStr(b []*Term) *StrV {
	conc := true
	for _, t := range b {
		if !t.IsConst() {
			conc = false
			break
		}
	}
	if conc {
		bs := make([]byte, len(b))
		for i, t := range b {
			bs[i] = byte(t.k)
		}
		return &StrV{s: string(bs)}
	}
	if len(b) == 0 {
		return &StrV{}
	}
	return &StrV{b: b}
}

func (it *Interp) strConcat(a, b *StrV) *StrV {
	if a.opaque || b.opaque {
		return &StrV{opaque: true}
	}
	if a.b == nil && b.b == nil {
		return &StrV{s: a.s + b.s}
	}
	return it.mkStr(append(append([]*Term{}, it.strBytes(a)...), it.strBytes(b)...))
}

// bytesLess: lexicographic a < b for concrete-length term vectors.
func (it *Interp) bytesLess(a, b []*Term) *Term {
	tt := it.tt
	n := len(a)
	if len(b) < n {
		n = len(b)
	}
	res := tt.Bool(len(a) < len(b))
	for i := n - 1; i >= 0; i-- {
		res = tt.BOr(tt.Ult(a[i], b[i]), tt.BAnd(tt.Eq(a[i], b[i]), res))
	}
	return res
}

func (it *Interp) eqValues(x, y Value) *Term {
	tt := it.tt
	switch a := x.(type) {
	case *Term:
		return tt.Eq(a, y.(*Term))
	case *FloatV:
		return tt.Bool(a.f == y.(*FloatV).f)
	case *StrV:
		b := y.(*StrV)
		if a.opaque || b.opaque {
			it.unsupported("comparison of opaque (formatted) string")
		}
		if a.b == nil && b.b == nil {
			return tt.Bool(a.s == b.s)
		}
		ab, bb := it.strBytes(a), it.strBytes(b)
		if len(ab) != len(bb) {
			return tt.fls
		}
		r := tt.tru
		for i := range ab {
			r = tt.BAnd(r, tt.Eq(ab[i], bb[i]))
		}
		return r
	case *PtrV:
		b := y.(*PtrV)
		if a.isNil() || b.isNil() {
			return tt.Bool(a.isNil() && b.isNil())
		}
		if a.obj != b.obj || len(a.path) != len(b.path) {
			return tt.fls
		}
		r := tt.tru
		for i := range a.path {
			pa, pb := a.path[i], b.path[i]
			if pa.t == nil && pb.t == nil {
				if pa.i != pb.i {
					return tt.fls
				}
				continue
			}
			r = tt.BAnd(r, tt.Eq(it.peTerm(pa), it.peTerm(pb)))
		}
		return r
	case *IfaceV:
		b, ok := y.(*IfaceV)
		if !ok {
			it.unsupported("iface compared with %T", y)
		}
		if a.t == nil || b.t == nil {
			return tt.Bool(a.t == nil && b.t == nil)
		}
		if !types.Identical(a.t, b.t) {
			return tt.fls
		}
		if !types.Comparable(a.t) {
			panic(&guestPanic{kind: "uncomparable", msg: "comparing uncomparable type " + a.t.String(), val: &IfaceV{t: rtErrType, v: &StrV{s: "runtime error: comparing uncomparable"}}, site: "?", key: "uncomparable|" + a.t.String()})
		}
		return it.eqValues(a.v, b.v)
	case *StructV:
		b := y.(*StructV)
		r := tt.tru
		for i := range a.f {
			r = tt.BAnd(r, it.eqValues(a.f[i], b.f[i]))
			if r.IsFalse() {
				return r
			}
		}
		return r
	case *ArrayV:
		b := y.(*ArrayV)
		r := tt.tru
		for i := 0; i < a.n; i++ {
			r = tt.BAnd(r, it.eqValues(a.get(i), b.get(i)))
			if r.IsFalse() {
				return r
			}
		}
		return r
	case *SliceV:
		b := y.(*SliceV)
		if a.base == nil || b.base == nil {
			return tt.Bool(a.base == nil && b.base == nil)
		}
		it.unsupported("slice == slice")
	case *MapV:
		b := y.(*MapV)
		return tt.Bool(a.obj == b.obj)
	case *ChanV:
		b := y.(*ChanV)
		return tt.Bool(a.obj == b.obj)
	case *FuncV:
		b := y.(*FuncV)
		an := a.fn == nil && a.builtin == ""
		bn := b.fn == nil && b.builtin == ""
		if an || bn {
			return tt.Bool(an && bn)
		}
		// comparing funcs (only legal against nil in Go; decoders stored in
		// interfaces may be compared by identity in maps)
		return tt.Bool(a.fn == b.fn && len(a.env) == 0 && len(b.env) == 0)
	case *OpaqueV:
		it.unsupported("comparison of opaque value (%s)", a.what)
	}
	it.unsupported("eq on %T", x)
	return nil
}

func (it *Interp) peTerm(p PathElem) *Term {
	if p.t != nil {
		return p.t
	}
	return it.tt.Const(64, uint64(p.i))
}

func (it *Interp) convert(fr *frame, from, to types.Type, x Value) Value {
	tt := it.tt
	fu, tu := from.Underlying(), to.Underlying()
	switch v := x.(type) {
	case *Term:
		if tb, ok := tu.(*types.Basic); ok {
			switch {
			case tb.Info()&types.IsInteger != 0:
				w := it.width(to)
				if v.w == 0 {
					it.unsupported("bool to int")
				}
				if w <= v.w {
					return tt.Extract(v, w-1, 0)
				}
				if isSigned(from) {
					return tt.SExt(v, w)
				}
				return tt.ZExt(v, w)
			case tb.Info()&types.IsFloat != 0:
				if v.IsConst() {
					if isSigned(from) {
						return &FloatV{float64(sext(v.k, v.w))}
					}
					return &FloatV{float64(v.k)}
				}
				it.unsupported("symbolic int to float conversion")
			case tb.Info()&types.IsString != 0:
				if v.IsConst() {
					return &StrV{s: string(rune(sext(v.k, v.w)))}
				}
				it.unsupported("symbolic rune to string")
			case tb.Kind() == types.UnsafePointer:
				if it.concrete {
					return &OpaqueV{"unsafe.Pointer"}
				}
				it.unsupported("unsafe.Pointer conversion")
			case tb.Info()&types.IsBoolean != 0:
				return v
			}
		}
	case *FloatV:
		if tb, ok := tu.(*types.Basic); ok {
			switch {
			case tb.Info()&types.IsInteger != 0:
				w := it.width(to)
				if isSigned(to) {
					return tt.Const(w, uint64(int64(v.f)))
				}
				if v.f < 0 {
					return tt.Const(w, uint64(int64(v.f)))
				}
				if v.f >= math.MaxInt64 {
					return tt.Const(w, uint64(v.f))
				}
				return tt.Const(w, uint64(v.f))
			case tb.Info()&types.IsFloat != 0:
				if tb.Kind() == types.Float32 {
					return &FloatV{float64(float32(v.f))}
				}
				return v
			}
		}
	case *StrV:
		if ts, ok := tu.(*types.Slice); ok {
			eb, _ := ts.Elem().Underlying().(*types.Basic)
			if eb != nil && eb.Kind() == types.Uint8 {
				b := it.strBytes(v)
				arr := &ArrayV{n: len(b), dense: make([]Value, len(b))}
				for i, t := range b {
					arr.dense[i] = t
				}
				o := it.newObject(arr, "[]byte(string)")
				n := tt.Const(64, uint64(len(b)))
				return &SliceV{base: &PtrV{obj: o}, off: tt.Const(64, 0), len: n, cap: n}
			}
			if eb != nil && eb.Kind() == types.Int32 {
				if v.b == nil && !v.opaque {
					rs := []rune(v.s)
					arr := &ArrayV{n: len(rs), dense: make([]Value, len(rs))}
					for i, r := range rs {
						arr.dense[i] = tt.Const(32, uint64(r))
					}
					o := it.newObject(arr, "[]rune(string)")
					n := tt.Const(64, uint64(len(rs)))
					return &SliceV{base: &PtrV{obj: o}, off: tt.Const(64, 0), len: n, cap: n}
				}
				it.unsupported("[]rune of symbolic string")
			}
		}
		if isString(to) {
			return v
		}
	case *SliceV:
		if isString(to) {
			fs := fu.(*types.Slice)
			eb, _ := fs.Elem().Underlying().(*types.Basic)
			if eb != nil && eb.Kind() == types.Uint8 {
				return it.bytesToString(fr, v)
			}
			it.unsupported("string(%s)", from)
		}
		if _, ok := tu.(*types.Slice); ok {
			return v
		}
	case *PtrV:
		if _, ok := tu.(*types.Pointer); ok {
			return v
		}
		if tb, ok := tu.(*types.Basic); ok && tb.Kind() == types.UnsafePointer {
			if it.concrete {
				return &OpaqueV{"unsafe.Pointer"}
			}
			it.unsupported("unsafe.Pointer conversion")
		}
	case *OpaqueV:
		return v
	}
	if it.concrete {
		return &OpaqueV{"convert " + from.String() + " -> " + to.String()}
	}
	it.unsupported("convert %s -> %s (%T)", from, to, x)
	return nil
}

func (it *Interp) bytesToString(fr *frame, s *SliceV) *StrV {
	if s.base == nil {
		return &StrV{}
	}
	n := int(it.ex.concretize(s.len))
	out := make([]*Term, n)
	for i := 0; i < n; i++ {
		out[i] = it.loadElem(fr, s, it.tt.Const(64, uint64(i))).(*Term)
	}
	return it.mkStr(out)
}

var _ = fmt.Sprint
