package main

// Depth-first path exploration by re-execution.  A path is the trace of
// decisions taken at symbolic choice points; siblings are explored by
// re-running the harness from the checkpoint following the recorded prefix.

import (
	"fmt"
	"sort"
	"time"
)

type rec struct {
	dir      bool
	forked   bool
	cond     *Term // assertion of the taken side (forked or assume)
	altCond  *Term
	altModel *Model
	altDone  bool
	assume   bool
	val      uint64
	choice   bool
	nAlt     int
}

type Violation struct {
	Kind   string            `json:"kind"`  // panic | assert | deadlock | unwind | race | barrier
	Site   string            `json:"site"`  // function + source position
	Msg    string            `json:"msg"`
	Inputs map[string]uint64 `json:"inputs"`
	Key    string            `json:"key"`
	Choices []int            `json:"choices,omitempty"`
	Stack  []string          `json:"stack,omitempty"`
}

var debugUnsat map[string]int

type abortRun struct{ why string }   // unwinds the interpreter; path ends
type unsupported struct{ why string } // unit cannot be encoded

type Explorer struct {
	tt     *TermTable
	solver *Solver
	trace  []rec
	cp     int
	model  *Model

	Paths        int
	Decisions    int
	Infeasible   int
	Violations   []Violation
	vioKeys      map[string]bool
	Unknowns     int
	UnwindFails  int
	Reached      map[string]int
	AssertSites  map[string]int
	MaxPaths     int
	Deadline     time.Time
	Truncated    string // non-empty: exploration incomplete (why)
	forcedPrefix []bool
	Fallbacks    []string
	UserChoices  []int
	facts        *Facts
	FallbackMs   int
	FallbackQueries, FallbackSolved int
	FallbackTime time.Duration
	Samples      []map[string]uint64
	inputOrder   []string
}

func NewExplorer(tt *TermTable, s *Solver) *Explorer {
	return &Explorer{tt: tt, solver: s, facts: newFacts(tt), model: &Model{vals: map[int32]uint64{}}, vioKeys: map[string]bool{}, Reached: map[string]int{}, AssertSites: map[string]int{}}
}

func (e *Explorer) replaying() bool { return e.cp < len(e.trace) }

// branch decides a symbolic condition. prefer is the side explored first when
// both are feasible.
func (e *Explorer) branch(cond *Term, prefer bool) bool {
	return e.branchOpt(cond, prefer, true)
}

// branchOpt: with useFacts=false a trace record is always produced.
func (e *Explorer) branchOpt(cond *Term, prefer bool, useFacts bool) bool {
	if cond.IsConst() {
		return cond.k != 0
	}
	if useFacts {
		if v, ok := e.facts.decide(cond); ok {
			e.facts.Hits++
			return v
		}
	}
	if e.cp < len(e.trace) {
		r := &e.trace[e.cp]
		e.cp++
		e.facts.learn(cond, r.dir)
		return r.dir
	}
	e.Decisions++
	e.tt.NewEpoch()
	mv := e.tt.Eval(cond, e.model) != 0
	var mvCond, otherCond *Term
	if mv {
		mvCond, otherCond = cond, e.tt.BNot(cond)
	} else {
		mvCond, otherCond = e.tt.BNot(cond), cond
	}
	res, m2 := e.check(otherCond)
	if res == Unknown {
		e.Unknowns++
		// treat the unknown side as unexplored: the run is inconclusive
		e.trace = append(e.trace, rec{dir: mv})
		e.cp++
		e.facts.learn(cond, mv)
		return mv
	}
	if res == Unsat {
		if debugUnsat != nil {
			debugUnsat[cond.str(4)]++
		}
		e.trace = append(e.trace, rec{dir: mv})
		e.cp++
		e.facts.learn(cond, mv)
		return mv
	}
	r := rec{forked: true}
	if prefer == mv {
		r.dir, r.cond, r.altCond, r.altModel = mv, mvCond, otherCond, m2
	} else {
		r.dir, r.cond, r.altCond, r.altModel = !mv, otherCond, mvCond, e.model
		e.model = m2
	}
	e.solver.Push()
	e.solver.Assert(r.cond)
	e.trace = append(e.trace, r)
	e.cp++
	e.facts.learn(cond, r.dir)
	return r.dir
}

// check asks the primary solver, then the fallback back ends on unknown.
func (e *Explorer) check(extra *Term) (Result, *Model) {
	if !e.Deadline.IsZero() && time.Now().After(e.Deadline) {
		e.Truncated = "time budget reached"
		panic(abortRun{"deadline"})
	}
	res, m := e.solver.CheckWith(extra, true)
	if res != Unknown || len(e.solver.Errors) > 0 {
		return res, m
	}
	for _, kind := range e.Fallbacks {
		if !e.Deadline.IsZero() && time.Now().After(e.Deadline) {
			break
		}
		fb, err := newSolver(e.tt, kind, e.FallbackMs, true)
		if err != nil {
			continue
		}
		for _, r := range e.trace {
			if r.cond != nil && (r.forked || (r.assume && r.dir)) {
				fb.Assert(r.cond)
			}
		}
		fb.Assert(extra)
		res, m = fb.Check(true)
		e.FallbackQueries++
		e.FallbackTime += fb.Time
		if len(fb.Errors) > 0 {
			res = Unknown
		}
		fb.Close()
		if res != Unknown {
			e.FallbackSolved++
			return res, m
		}
	}
	return Unknown, nil
}

// assume adds c to the path condition; returns false if the path is infeasible.
func (e *Explorer) assume(c *Term) bool {
	if c.IsConst() {
		return c.k != 0
	}
	if v, ok := e.facts.decide(c); ok {
		return v
	}
	if e.cp < len(e.trace) {
		r := &e.trace[e.cp]
		e.cp++
		if r.dir {
			e.facts.learn(c, true)
		}
		return r.dir
	}
	e.tt.NewEpoch()
	ok := true
	if e.tt.Eval(c, e.model) == 0 {
		res, m2 := e.check(c)
		switch res {
		case Unsat:
			ok = false
		case Unknown:
			e.Unknowns++
			ok = false
		default:
			e.model = m2
		}
	}
	if ok {
		e.solver.Assert(c)
		e.facts.learn(c, true)
	}
	e.trace = append(e.trace, rec{dir: ok, assume: true, cond: c})
	e.cp++
	return ok
}

// concretize forks over the feasible values of t and returns this path's.
func (e *Explorer) concretize(t *Term) uint64 {
	for n := 0; ; n++ {
		if t.IsConst() {
			return t.k
		}
		if r := e.facts.rangeOf(t); r.lo == r.hi {
			return r.lo
		}
		if e.cp < len(e.trace) {
			// every iteration owns exactly one record
			r := &e.trace[e.cp]
			e.cp++
			eq := e.tt.Eq(t, e.tt.Const(t.w, r.val))
			e.facts.learn(eq, r.dir)
			if r.dir {
				return r.val
			}
			continue
		}
		e.tt.NewEpoch()
		cand := e.tt.Eval(t, e.model)
		eq := e.tt.Eq(t, e.tt.Const(t.w, cand))
		if eq.IsConst() {
			if eq.IsTrue() {
				e.trace = append(e.trace, rec{dir: true, val: cand})
				e.cp++
				return cand
			}
			panic("concretize: model value outside syntactic range")
		}
		d := e.branchOpt(eq, true, false)
		e.trace[len(e.trace)-1].val = cand
		if d {
			return cand
		}
		if n > 1<<16 {
			panic(abortRun{"concretize: too many values"})
		}
	}
}

func (e *Explorer) inputs() map[string]uint64 {
	m := map[string]uint64{}
	for _, v := range e.tt.vars {
		if !e.tt.active[v.id] {
			continue
		}
		if val, ok := e.model.vals[v.id]; ok {
			m[v.name] = val
		} else {
			m[v.name] = 0
		}
	}
	return m
}

func (e *Explorer) report(kind, site, msg string) {
	key := kind + "|" + site + "|" + msg
	if e.vioKeys[key] {
		return
	}
	e.vioKeys[key] = true
	e.Violations = append(e.Violations, Violation{Kind: kind, Site: site, Msg: msg, Inputs: e.inputs(), Key: key, Choices: append([]int(nil), e.UserChoices...)})
}

// next prepares the next path; false when the tree is exhausted.
func (e *Explorer) next() bool {
	e.Paths++
	if len(e.Samples) < 3 {
		e.Samples = append(e.Samples, e.inputs())
	}
	for i := len(e.trace) - 1; i >= 0; i-- {
		r := &e.trace[i]
		flip := false
		if r.choice {
			if int(r.val)+1 < r.nAlt {
				flip = true
			}
		} else if r.forked && !r.altDone {
			flip = true
		}
		if !flip {
			continue
		}
		depth := 0
		for j := 0; j < i; j++ {
			if e.trace[j].forked {
				depth++
			}
		}
		e.solver.PopTo(depth)
		if r.choice {
			r.val++
		} else {
			r.dir = !r.dir
			r.cond, r.altCond = r.altCond, r.cond
			r.altDone = true
			e.model = r.altModel
			r.altModel = nil
			e.solver.Push()
			e.solver.Assert(r.cond)
		}
		e.trace = e.trace[:i+1]
		e.cp = 0
		e.facts.reset()
		if e.MaxPaths > 0 && e.Paths >= e.MaxPaths {
			e.Truncated = fmt.Sprintf("path cap %d reached", e.MaxPaths)
			return false
		}
		if !e.Deadline.IsZero() && time.Now().After(e.Deadline) {
			e.Truncated = "time budget reached"
			return false
		}
		return true
	}
	return false
}

// preferModel switches the current model to one that also satisfies c, if any.
func (e *Explorer) preferModel(c *Term) {
	if e.replaying() && false {
		return
	}
	res, m := e.solver.CheckWith(c, true)
	if res == Sat && m != nil {
		e.model = m
	}
}

// maxValue returns the largest feasible value of t (<= limit) under the
// current path condition; the result is recorded for replay.
func (e *Explorer) maxValue(t *Term, limit uint64) uint64 {
	if t.IsConst() {
		return t.k
	}
	if e.cp < len(e.trace) {
		r := &e.trace[e.cp]
		e.cp++
		return r.val
	}
	e.tt.NewEpoch()
	lo := e.tt.Eval(t, e.model)
	hi := t.hi
	if hi > limit {
		hi = limit
	}
	if lo > hi {
		lo = hi
	}
	for lo < hi {
		mid := lo + (hi-lo+1)/2
		res, m2 := e.solver.CheckWith(e.tt.BAnd(e.tt.Ule(e.tt.Const(t.w, mid), t), e.tt.Ule(t, e.tt.Const(t.w, hi))), true)
		switch res {
		case Sat:
			e.tt.NewEpoch()
			lo = e.tt.Eval(t, m2)
			if lo < mid {
				lo = mid
			}
		case Unsat:
			hi = mid - 1
		default:
			lo = hi // unknown: over-approximate
		}
	}
	e.trace = append(e.trace, rec{dir: true, val: lo})
	e.cp++
	return lo
}

func sortedKeys(m map[string]uint64) []string {
	ks := make([]string, 0, len(m))
	for k := range m {
		ks = append(ks, k)
	}
	sort.Strings(ks)
	return ks
}
