package main

import (
	"encoding/json"
	"flag"
	"fmt"
	"go/types"
	"os"
	"path/filepath"
	"regexp"
	"runtime"
	"runtime/debug"
	"runtime/pprof"
	"sort"
	"strings"
	"sync"
	"time"

	"golang.org/x/tools/go/packages"
	"golang.org/x/tools/go/ssa"
	"golang.org/x/tools/go/ssa/ssautil"
)

const modPath = "github.com/gopacket/gopacket"

var initWhitelist = map[string]bool{
	"errors": true, "io": true, "bufio": true, "bytes": true, "encoding/binary": true,
	"container/list": true, "unicode/utf8": true, "sort": true, "strconv": true,
	"math/bits": true, "math": true, "hash/crc32": true, "context": true, "time": true,
	"net": true, "strings": true, "unicode": true, "hash/fnv": true, "internal/byteorder": true,
	"internal/bytealg": true, "slices": true, "cmp": true, "hash": true, "internal/itoa": true,
	"net/netip": true, "internal/stringslite": true, "encoding/hex": true, "compress/gzip": true,
	"io/fs": true, "internal/oserror": true, "sync": true, "sync/atomic": true, "fmt": true,
	"golang.org/x/net/bpf": true, "math/rand": true, "iter": true, "unique": true,
}

func initAllowed(p *ssa.Package) bool {
	path := p.Pkg.Path()
	return strings.HasPrefix(path, modPath) || initWhitelist[path]
}

type UnitResult struct {
	Unit        string              `json:"unit"`
	Paths       int                 `json:"paths"`
	Decisions   int                 `json:"decisions"`
	Queries     int                 `json:"queries"`
	Sat         int                 `json:"sat"`
	Unsat       int                 `json:"unsat"`
	Unknown     int                 `json:"unknown"`
	SolverS     float64             `json:"solver_s"`
	WallS       float64             `json:"wall_s"`
	Violations  []Violation         `json:"violations"`
	UnwindFails int                 `json:"unwind_fails"`
	Infeasible  int                 `json:"infeasible"`
	Truncated   string              `json:"truncated,omitempty"`
	Unsupported string              `json:"unsupported,omitempty"`
	Internal    string              `json:"internal_error,omitempty"`
	Reached     map[string]int      `json:"reached"`
	AssertSites map[string]int      `json:"assert_sites"`
	Funcs       []string            `json:"functions_encoded"`
	Samples     []map[string]uint64 `json:"samples"`
	Steps       int64               `json:"steps"`
	Terms       int                 `json:"terms"`
	SolverErrs  []string            `json:"solver_errors,omitempty"`
	Switches    int                 `json:"sched_switches,omitempty"`
	FallbackQ   int                 `json:"fallback_queries,omitempty"`
	FallbackOK  int                 `json:"fallback_solved,omitempty"`
	FallbackS   float64             `json:"fallback_s,omitempty"`
}

type Options struct {
	Repo     string
	Pkgs     []string
	Harness  string
	Units    string
	J        int
	Unwind   int
	Steps    int64
	MaxPaths int
	Timeout  int
	Solver   string
	QTimeout int
	Out      string
	Verbose  bool
	MaxDepth int
	Fallbacks []string
	FallbackMs int
	RLimit int
	Params string
}

func loadProgram(opt *Options) (*ssa.Program, []*ssa.Package, error) {
	overlay := map[string][]byte{}
	if opt.Harness != "" {
		err := filepath.Walk(opt.Harness, func(p string, info os.FileInfo, err error) error {
			if err != nil || info.IsDir() || !strings.HasSuffix(p, ".go") {
				return err
			}
			rel, _ := filepath.Rel(opt.Harness, p)
			dir, base := filepath.Split(rel)
			if strings.HasSuffix(base, "_native.go") {
				return nil
			}
			b, err := os.ReadFile(p)
			if err != nil {
				return err
			}
			overlay[filepath.Join(opt.Repo, dir, "zz_verif_"+base)] = b
			return nil
		})
		if err != nil {
			return nil, nil, err
		}
	}
	cfg := &packages.Config{Mode: packages.LoadAllSyntax, Dir: opt.Repo, Overlay: overlay, Env: append(os.Environ(), "PATH=/opt/veriftools/go1.26.8/bin:"+os.Getenv("PATH"), "GOTOOLCHAIN=local", "GOFLAGS=-mod=mod", "GOPROXY=off", "GOSUMDB=off")}
	pkgs, err := packages.Load(cfg, opt.Pkgs...)
	if err != nil {
		return nil, nil, err
	}
	nerr := 0
	packages.Visit(pkgs, nil, func(p *packages.Package) {
		for _, e := range p.Errors {
			fmt.Fprintln(os.Stderr, "load error:", e)
			nerr++
		}
	})
	if nerr > 0 {
		return nil, nil, fmt.Errorf("%d package load errors (harness no longer compiles against the tree?)", nerr)
	}
	prog, spkgs := ssautil.AllPackages(pkgs, ssa.InstantiateGenerics)
	prog.Build()
	return prog, spkgs, nil
}

func newShared(prog *ssa.Program) *Shared {
	sh := &Shared{prog: prog, fset: prog.Fset, sizes: types.SizesFor("gc", "amd64"), globals: map[*ssa.Global]*Object{}, srcLines: map[string][]string{}, methCache: map[methKey]*ssa.Function{}, initPart: map[string]string{}, initDone: map[*ssa.Package]bool{}}
	return sh
}

func newInterp(sh *Shared, tt *TermTable, ex *Explorer, opt *Options) *Interp {
	it := &Interp{sh: sh, tt: tt, ex: ex, overlay: map[*Object]Value{}, nameCount: map[string]int{}, stepLimit: opt.Steps, unwind: opt.Unwind, cfg: &RunCfg{Unwind: opt.Unwind, StepLimit: opt.Steps, MaxDepth: opt.MaxDepth}, funcsSeen: map[*ssa.Function]bool{}}
	it.sched = newSched(it)
	return it
}

// runInit executes the package initialisers of the target packages concretely.
func runInit(sh *Shared, opt *Options, targets []*ssa.Package) *Interp {
	tt := NewTermTable()
	ex := NewExplorer(tt, nil)
	it := newInterp(sh, tt, ex, opt)
	it.concrete = true
	it.stepLimit = 1 << 40
	it.unwind = 1 << 30
	// globals of allowed packages
	for _, p := range sh.prog.AllPackages() {
		if !initAllowed(p) {
			continue
		}
		for _, m := range p.Members {
			if g, ok := m.(*ssa.Global); ok {
				func() {
					defer func() {
						if r := recover(); r != nil {
							if _, ok := r.(unsupported); !ok {
								panic(r)
							}
						}
					}()
					t := g.Type().Underlying().(*types.Pointer).Elem()
					o := it.newObject(it.zero(t), g.String())
					sh.globals[g] = o
				}()
			}
		}
	}
	for _, p := range targets {
		if f := p.Func("init"); f != nil {
			it.runPkgInit(nil, f)
		}
	}
	sh.baseTT = tt
	sh.baseObjs = it.nextObj
	return it
}

func (it *Interp) runPkgInit(caller *frame, f *ssa.Function) {
	p := f.Pkg
	if !initAllowed(p) {
		return
	}
	defer func() {
		if r := recover(); r != nil {
			switch e := r.(type) {
			case unsupported:
				it.sh.initPart[p.Pkg.Path()] = e.why
			case *guestPanic:
				it.sh.initPart[p.Pkg.Path()] = "panic in init: " + e.msg + " at " + e.site
			case runtime.Error:
				it.sh.initPart[p.Pkg.Path()] = "engine: " + e.Error() + " @ " + engineSite()
			default:
				it.sh.initPart[p.Pkg.Path()] = fmt.Sprintf("engine: %v @ %s", r, engineSite())
			}
		}
	}()
	it.callFunctionBody(caller, f, nil, nil, nil)
}

type solverCtx struct{}

type unitInst struct {
	fn     *ssa.Function
	params map[string]int
}

func (u unitInst) name() string {
	n := u.fn.Name()
	var ks []string
	for k := range u.params {
		ks = append(ks, k)
	}
	sort.Strings(ks)
	for i, k := range ks {
		if i == 0 {
			n += "@"
		} else {
			n += ","
		}
		n += fmt.Sprintf("%s=%d", k, u.params[k])
	}
	return n
}

func runUnit(sh *Shared, ui unitInst, opt *Options) (res UnitResult) {
	fn := ui.fn
	t0 := time.Now()
	res.Unit = ui.name()
	tt := cloneTable(sh.baseTT)
	solver, err := NewSolver(tt, opt.Solver, opt.QTimeout)
	if err == nil && opt.RLimit > 0 && strings.HasPrefix(opt.Solver, "z3") {
		solver.send(fmt.Sprintf("(set-option :rlimit %d)", opt.RLimit))
	}
	if err != nil {
		res.Internal = err.Error()
		return
	}
	defer solver.Close()
	ex := NewExplorer(tt, solver)
	ex.MaxPaths = opt.MaxPaths
	ex.Fallbacks = opt.Fallbacks
	ex.FallbackMs = opt.FallbackMs
	if opt.Timeout > 0 {
		ex.Deadline = t0.Add(time.Duration(opt.Timeout) * time.Second)
	}
	it := newInterp(sh, tt, ex, opt)
	it.params = ui.params
	defer func() {
		if r := recover(); r != nil {
			res.Internal = fmt.Sprintf("%v\n%s", r, debug.Stack())
		}
		res.Paths, res.Decisions = ex.Paths, ex.Decisions
		res.Queries, res.Sat, res.Unsat, res.Unknown = solver.Queries, solver.NSat, solver.NUnsat, ex.Unknowns
		res.SolverS = solver.Time.Seconds()
		res.WallS = time.Since(t0).Seconds()
		res.Violations = ex.Violations
		res.UnwindFails, res.Infeasible, res.Truncated = ex.UnwindFails, ex.Infeasible, ex.Truncated
		res.Reached, res.AssertSites = ex.Reached, ex.AssertSites
		res.Samples = ex.Samples
		res.Steps = it.steps
		res.FallbackQ, res.FallbackOK, res.FallbackS = ex.FallbackQueries, ex.FallbackSolved, ex.FallbackTime.Seconds()
		res.Terms = len(tt.all)
		res.SolverErrs = solver.Errors
		if len(res.SolverErrs) > 5 {
			res.SolverErrs = res.SolverErrs[:5]
		}
		for f := range it.funcsSeen {
			if f.Pkg != nil && strings.HasPrefix(f.Pkg.Pkg.Path(), modPath) && !strings.HasPrefix(f.Name(), "verif") {
				res.Funcs = append(res.Funcs, f.String())
			}
		}
		sort.Strings(res.Funcs)
	}()
	totalSteps := int64(0)
	for {
		stop := it.runPath(fn, &res)
		if ex.Truncated == "time budget reached" {
			stop = true
		}
		totalSteps += it.steps
		res.Switches += it.sched.Switches
		if stop {
			break
		}
		if !ex.next() {
			break
		}
	}
	it.steps = totalSteps
	return
}

// runPath executes one path; returns true if exploration must stop.
func (it *Interp) runPath(fn *ssa.Function, res *UnitResult) (stop bool) {
	it.overlay = map[*Object]Value{}
	it.nextObj = it.sh.baseObjs
	it.nameCount = map[string]int{}
	it.steps = 0
	it.depth = 0
	it.allocs = nil
	it.baseWrites = nil
	it.barrier = false
	it.lastTime = nil
	it.timeNow = 0
	it.onceDone = nil
	it.mainDeferFr = nil
	it.sched = newSched(it)
	it.callStack = nil
	for _, o := range it.frozenObjs {
		o.nowrite = false
	}
	it.frozenObjs = nil
	it.tt.active = map[int32]bool{}
	it.ex.UserChoices = nil
	it.panicStack = nil
	defer func() {
		it.sched.shutdown()
		if r := recover(); r != nil {
			switch e := r.(type) {
			case abortRun:
				if e.why == "unwind" || e.why == "step budget" || e.why == "call depth" {
					// exploration continues on other paths; result is marked truncated
				}
			case unsupported:
				res.Unsupported = e.why
				stop = true
			case *guestPanic:
				n0 := len(it.ex.Violations)
				it.ex.report("panic", e.site, e.kind+": "+e.msg)
				if len(it.ex.Violations) > n0 {
					it.ex.Violations[n0].Key = "panic|" + e.key
					it.ex.Violations[n0].Stack = it.panicStack
				}
			case runtime.Error:
				if os.Getenv("SYMGO_DEBUG") != "" {
					fmt.Fprintf(os.Stderr, "ENGINE PANIC %v\n%s\nGUEST STACK:\n%s\n", r, debug.Stack(), strings.Join(it.panicStack, "\n"))
				}
				res.Unsupported = "engine: " + e.Error() + " @ " + engineSite()
				stop = true
			case mergeFail:
				res.Unsupported = "engine: values of different shape meet at a symbolic index/guard (merge) @ " + engineSite()
				stop = true
			default:
				if os.Getenv("SYMGO_DEBUG") != "" {
					fmt.Fprintf(os.Stderr, "ENGINE PANIC %v\n%s\n", r, debug.Stack())
				}
				res.Unsupported = fmt.Sprintf("engine: %v @ %s", r, engineSite())
				stop = true
			}
		}
	}()
	it.callFunction(nil, fn, nil, nil, nil)
	return false
}

func cloneTable(b *TermTable) *TermTable {
	tt := &TermTable{tab: make(map[termKey]*Term, len(b.tab)+1024), vmap: map[string]*Term{}, tru: b.tru, fls: b.fls, active: map[int32]bool{}}
	for k, v := range b.tab {
		tt.tab[k] = v
	}
	tt.all = append([]*Term(nil), b.all...)
	return tt
}

func main() {
	if len(os.Args) < 2 {
		fmt.Fprintln(os.Stderr, "usage: symgo run|list ...")
		os.Exit(2)
	}
	cmd := os.Args[1]
	fs := flag.NewFlagSet(cmd, flag.ExitOnError)
	opt := &Options{}
	var pkgs string
	fs.StringVar(&opt.Repo, "repo", "/repo", "")
	fs.StringVar(&pkgs, "pkgs", modPath, "comma-separated import paths")
	fs.StringVar(&opt.Harness, "harness", "", "harness directory mirroring repo layout")
	fs.StringVar(&opt.Units, "units", ".*", "regexp of harness function names")
	fs.IntVar(&opt.J, "j", 16, "")
	fs.IntVar(&opt.Unwind, "unwind", 80, "")
	fs.Int64Var(&opt.Steps, "steps", 20_000_000, "")
	fs.IntVar(&opt.MaxPaths, "maxpaths", 0, "")
	fs.IntVar(&opt.Timeout, "timeout", 0, "per-unit seconds")
	fs.StringVar(&opt.Solver, "solver", "z3-new", "")
	fs.IntVar(&opt.QTimeout, "qtimeout", 10000, "per-query ms")
	fs.StringVar(&opt.Out, "out", "", "")
	fs.BoolVar(&opt.Verbose, "v", false, "")
	fs.IntVar(&opt.MaxDepth, "maxdepth", 400, "")
	fs.StringVar(&opt.Params, "params", "", "unit-regexp:name=lo..hi[;...] instantiates matching units once per value")
	fs.IntVar(&opt.RLimit, "rlimit", 0, "z3 resource limit per query (deterministic unknowns)")
	var fallbacks string
	fs.StringVar(&fallbacks, "fallback", "cvc5-int,z3", "solvers tried when the primary answers unknown")
	fs.IntVar(&opt.FallbackMs, "fbtimeout", 60000, "fallback per-query ms")
	var cpuprof string
	fs.StringVar(&cpuprof, "cpuprofile", "", "")
	fs.Parse(os.Args[2:])
	if cpuprof != "" {
		f, _ := os.Create(cpuprof)
		pprof.StartCPUProfile(f)
		defer pprof.StopCPUProfile()
	}
	if fallbacks != "" {
		opt.Fallbacks = strings.Split(fallbacks, ",")
	}
	opt.Pkgs = strings.Split(pkgs, ",")
	debug.SetMaxStack(1 << 30)
	if os.Getenv("SYMGO_DEBUG_UNSAT") != "" {
		debugUnsat = map[string]int{}
	}
	os.Setenv("PATH", "/opt/veriftools/go1.26.8/bin:"+os.Getenv("PATH"))
	os.Setenv("GOTOOLCHAIN", "local")
	os.Setenv("GOFLAGS", "-mod=mod")
	os.Setenv("GOPROXY", "off")
	os.Setenv("GOSUMDB", "off")

	t0 := time.Now()
	prog, spkgs, err := loadProgram(opt)
	if err != nil {
		fmt.Fprintln(os.Stderr, "LOAD-ERROR:", err)
		os.Exit(3)
	}
	sh := newShared(prog)
	var targets []*ssa.Package
	for _, p := range spkgs {
		if p != nil {
			targets = append(targets, p)
		}
	}
	switch cmd {
	case "enum":
		doEnum(prog, targets)
		return
	}
	setupRTErr(prog)
	runInit(sh, opt, targets)
	loadS := time.Since(t0).Seconds()
	if opt.Verbose {
		fmt.Fprintf(os.Stderr, "loaded+init in %.1fs; base terms %d; partial inits: %v\n", loadS, len(sh.baseTT.all), sh.initPart)
	}
	re := regexp.MustCompile("^(" + opt.Units + ")$")
	var units []*ssa.Function
	for _, p := range targets {
		for _, m := range p.Members {
			if f, ok := m.(*ssa.Function); ok && strings.HasPrefix(f.Name(), "verif_") && re.MatchString(f.Name()) && f.Blocks != nil {
				units = append(units, f)
			}
		}
	}
	sort.Slice(units, func(i, j int) bool { return units[i].Name() < units[j].Name() })
	var insts []unitInst
	for _, u := range units {
		insts = append(insts, expandParams(u, opt.Params)...)
	}
	results := make([]UnitResult, len(insts))
	var wg sync.WaitGroup
	ch := make(chan int)
	var mu sync.Mutex
	for w := 0; w < opt.J; w++ {
		wg.Add(1)
		go func() {
			defer wg.Done()
			for i := range ch {
				r := runUnit(sh, insts[i], opt)
				results[i] = r
				if opt.Verbose {
					mu.Lock()
					fmt.Fprintf(os.Stderr, "unit %-40s paths=%d q=%d vio=%d unk=%d unw=%d %.1fs %s %s\n", r.Unit, r.Paths, r.Queries, len(r.Violations), r.Unknown, r.UnwindFails, r.WallS, r.Truncated, firstLine(r.Unsupported+r.Internal))
					mu.Unlock()
				}
			}
		}()
	}
	for i := range insts {
		ch <- i
	}
	close(ch)
	wg.Wait()
	if debugUnsat != nil {
		type kv struct {
			k string
			n int
		}
		var l []kv
		for k, n := range debugUnsat {
			l = append(l, kv{k, n})
		}
		sort.Slice(l, func(i, j int) bool { return l[i].n > l[j].n })
		for i := 0; i < len(l) && i < 40; i++ {
			fmt.Fprintf(os.Stderr, "%6d %s\n", l[i].n, l[i].k)
		}
	}
	out := map[string]interface{}{"units": results, "load_s": loadS, "wall_s": time.Since(t0).Seconds(), "init_partial": sh.initPart, "solver": opt.Solver, "unwind": opt.Unwind}
	b, _ := json.MarshalIndent(out, "", " ")
	if opt.Out != "" {
		os.WriteFile(opt.Out, b, 0644)
	} else {
		os.Stdout.Write(b)
	}
}

func engineSite() string {
	st := string(debug.Stack())
	lines := strings.Split(st, "\n")
	var out []string
	for _, l := range lines {
		l = strings.TrimSpace(l)
		if strings.HasPrefix(l, "/verif/symgo/") {
			if i := strings.Index(l, " "); i > 0 {
				l = l[:i]
			}
			out = append(out, strings.TrimPrefix(l, "/verif/symgo/"))
			if len(out) >= 4 {
				break
			}
		}
	}
	return strings.Join(out, " < ")
}

// expandParams: spec "regexp:name=lo..hi;regexp2:name=lo..hi"
func expandParams(fn *ssa.Function, spec string) []unitInst {
	if spec != "" {
		for _, part := range strings.Split(spec, ";") {
			i := strings.LastIndex(part, ":")
			if i < 0 {
				continue
			}
			re := regexp.MustCompile("^(" + part[:i] + ")$")
			if !re.MatchString(fn.Name()) {
				continue
			}
			out := []unitInst{{fn: fn, params: map[string]int{}}}
			for _, one := range strings.Split(part[i+1:], ",") {
				var lo, hi int
				step := 1
				kv := strings.SplitN(one, "=", 2)
				name := kv[0]
				if n, _ := fmt.Sscanf(kv[1], "%d..%d/%d", &lo, &hi, &step); n < 3 {
					step = 1
					fmt.Sscanf(kv[1], "%d..%d", &lo, &hi)
				}
				var nxt []unitInst
				for _, base := range out {
					for v := lo; v <= hi; v += step {
						m := map[string]int{}
						for k, x := range base.params {
							m[k] = x
						}
						m[name] = v
						nxt = append(nxt, unitInst{fn: fn, params: m})
					}
				}
				out = nxt
			}
			return out
		}
	}
	return []unitInst{{fn: fn}}
}

func firstLine(s string) string {
	if i := strings.Index(s, "\n"); i >= 0 {
		return s[:i]
	}
	return s
}

func setupRTErr(prog *ssa.Program) {
	// dynamic type used for runtime-error panic values: runtime.Error-like
	if p := prog.ImportedPackage("runtime"); p != nil {
		if m, ok := p.Members["errorString"]; ok {
			rtErrType = m.(*ssa.Type).Type()
			return
		}
	}
	rtErrType = types.Typ[types.String]
}

func doEnum(prog *ssa.Program, targets []*ssa.Package) {
	type ent struct {
		Pkg, Name           string
		Decode, Serialize   bool
		NextLayerType, CanDecode bool
		DecodeSig, SerializeSig string
		SetNet bool
	}
	var out []ent
	for _, p := range targets {
		for name, m := range p.Members {
			t, ok := m.(*ssa.Type)
			if !ok {
				continue
			}
			if _, isStruct := t.Type().Underlying().(*types.Struct); !isStruct {
				continue
			}
			ms := prog.MethodSets.MethodSet(types.NewPointer(t.Type()))
			e := ent{Pkg: p.Pkg.Path(), Name: name}
			for i := 0; i < ms.Len(); i++ {
				switch ms.At(i).Obj().Name() {
				case "DecodeFromBytes":
					e.Decode = true
					e.DecodeSig = ms.At(i).Type().String()
				case "SerializeTo":
					e.Serialize = true
					e.SerializeSig = ms.At(i).Type().String()
				case "SetNetworkLayerForChecksum":
					e.SetNet = true
				case "NextLayerType":
					e.NextLayerType = true
				case "CanDecode":
					e.CanDecode = true
				}
			}
			if e.Decode || e.Serialize {
				out = append(out, e)
			}
		}
	}
	sort.Slice(out, func(i, j int) bool { return out[i].Pkg+out[i].Name < out[j].Pkg+out[j].Name })
	var lts []string
	for _, p := range targets {
		for name, m := range p.Members {
			if g, ok := m.(*ssa.Global); ok {
				t := g.Type().Underlying().(*types.Pointer).Elem()
				if nt, ok := t.(*types.Named); ok && nt.Obj().Name() == "LayerType" && nt.Obj().Pkg() != nil && nt.Obj().Pkg().Path() == modPath && strings.HasPrefix(name, "LayerType") {
					lts = append(lts, name)
				}
			}
		}
	}
	sort.Strings(lts)
	b, _ := json.MarshalIndent(map[string]interface{}{"types": out, "layertypes": lts}, "", " ")
	os.Stdout.Write(b)
}
