package main

import (
	"fmt"
	"go/types"
	"strings"

	"golang.org/x/tools/go/ssa"
)

// Value is one of:
//   *Term (bool/int scalars), *FloatV, *StrV, *StructV, *ArrayV, *PtrV,
//   *SliceV, *IfaceV, *FuncV, *MapV, *ChanV, TupleV, *OpaqueV
type Value interface{}

type FloatV struct{ f float64 }

// StrV: concrete string s, or symbolic bytes b (concrete length), or opaque.
type StrV struct {
	s      string
	b      []*Term // non-nil => symbolic content (len(b) is the length)
	opaque bool
}

type StructV struct{ f []Value }

// ArrayV is a mutable array cell block when it lives inside an Object and an
// immutable snapshot when it lives in an SSA register (copied on load/store).
type ArrayV struct {
	n      int
	dense  []Value       // len n when non-nil
	sparse map[int]Value // used when dense == nil
	def    Value         // default element for sparse (shared, never mutated)
}

type PathElem struct {
	i int
	t *Term // non-nil: symbolic array index (64-bit)
}

type Object struct {
	id    int
	root  Value
	base  bool // allocated before the checkpoint (copy-on-write per path)
	label string
	input bool // harness input buffer (C02/C04 write barrier)
	frozen bool // read-only snapshot (SliceToArrayPointer)
	nowrite bool // verifFreeze: stores are barrier violations
}

type PtrV struct {
	obj  *Object
	path []PathElem
}

type SliceV struct {
	base          *PtrV // pointer to the backing ArrayV; nil => nil slice
	off, len, cap *Term // 64-bit
}

type IfaceV struct {
	t types.Type // nil => nil interface
	v Value
}

type FuncV struct {
	fn      *ssa.Function
	env     []Value
	builtin string // intrinsic name for synthetic funcs
	recv    Value  // for intrinsic bound methods
}

type MapV struct{ obj *Object }

type MapData struct {
	keys  []Value
	vals  []Value
	index map[string]int // concrete keys only
	kt    types.Type
}

type ChanV struct{ obj *Object }

type TupleV []Value

// OpaqueV stands for a value the engine does not model (result of a stub);
// it may be passed around and stored, nothing else.
type OpaqueV struct{ what string }

func (p *PtrV) isNil() bool { return p == nil || p.obj == nil }

func (a *ArrayV) get(i int) Value {
	if a.dense != nil {
		return a.dense[i]
	}
	if v, ok := a.sparse[i]; ok {
		return v
	}
	return a.def
}
func (a *ArrayV) set(i int, v Value) {
	if a.dense != nil {
		a.dense[i] = v
		return
	}
	a.sparse[i] = v
}

const denseLimit = 1 << 13

func newArray(n int, zero func() Value) *ArrayV {
	if n <= denseLimit {
		a := &ArrayV{n: n, dense: make([]Value, n)}
		if n > 0 {
			z := zero()
			_, scalar := z.(*Term)
			for i := range a.dense {
				if scalar || i == 0 {
					a.dense[i] = z
				} else {
					a.dense[i] = cloneValue(z)
				}
			}
		}
		return a
	}
	return &ArrayV{n: n, sparse: map[int]Value{}, def: zero()}
}

// cloneValue deep-copies the inline (value-semantics) part of v.
func cloneValue(v Value) Value {
	switch x := v.(type) {
	case *StructV:
		n := &StructV{f: make([]Value, len(x.f))}
		for i, f := range x.f {
			n.f[i] = cloneValue(f)
		}
		return n
	case *ArrayV:
		n := &ArrayV{n: x.n, def: x.def}
		if x.dense != nil {
			n.dense = make([]Value, len(x.dense))
			for i, e := range x.dense {
				n.dense[i] = cloneValue(e)
			}
		} else {
			n.sparse = make(map[int]Value, len(x.sparse))
			for i, e := range x.sparse {
				n.sparse[i] = cloneValue(e)
			}
		}
		return n
	case *MapData:
		n := &MapData{keys: append([]Value(nil), x.keys...), vals: append([]Value(nil), x.vals...), kt: x.kt}
		if x.index != nil {
			n.index = make(map[string]int, len(x.index))
			for k, i := range x.index {
				n.index[k] = i
			}
		}
		return n
	case *ChanData:
		n := *x
		n.buf = append([]Value(nil), x.buf...)
		return &n
	case TupleV:
		n := make(TupleV, len(x))
		for i, e := range x {
			n[i] = cloneValue(e)
		}
		return n
	}
	return v
}

// needsClone reports whether v has inline mutable parts.
func needsClone(v Value) bool {
	switch v.(type) {
	case *StructV, *ArrayV, TupleV:
		return true
	}
	return false
}

func valString(v Value) string {
	switch x := v.(type) {
	case nil:
		return "<nil>"
	case *Term:
		return x.String()
	case *StrV:
		if x.opaque {
			return "str?"
		}
		if x.b != nil {
			return fmt.Sprintf("symstr[%d]", len(x.b))
		}
		return fmt.Sprintf("%q", x.s)
	case *StructV:
		var sb strings.Builder
		sb.WriteString("{")
		for i, f := range x.f {
			if i > 0 {
				sb.WriteString(", ")
			}
			if i > 8 {
				sb.WriteString("…")
				break
			}
			sb.WriteString(valString(f))
		}
		sb.WriteString("}")
		return sb.String()
	case *ArrayV:
		return fmt.Sprintf("array[%d]", x.n)
	case *PtrV:
		if x.isNil() {
			return "nilptr"
		}
		return fmt.Sprintf("&obj%d%v", x.obj.id, x.path)
	case *SliceV:
		if x.base == nil {
			return "nilslice"
		}
		return fmt.Sprintf("slice(obj%d off=%v len=%v cap=%v)", x.base.obj.id, x.off, x.len, x.cap)
	case *IfaceV:
		if x.t == nil {
			return "niliface"
		}
		return fmt.Sprintf("iface(%s: %s)", x.t, valString(x.v))
	case *FuncV:
		if x.fn != nil {
			return "func " + x.fn.String()
		}
		if x.builtin != "" {
			return "builtin " + x.builtin
		}
		return "nilfunc"
	case *MapV:
		return "map"
	case *ChanV:
		return "chan"
	case TupleV:
		s := "("
		for i, e := range x {
			if i > 0 {
				s += ", "
			}
			s += valString(e)
		}
		return s + ")"
	case *FloatV:
		return fmt.Sprint(x.f)
	case *OpaqueV:
		return "opaque(" + x.what + ")"
	}
	return fmt.Sprintf("%T", v)
}
