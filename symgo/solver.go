package main

// One live solver process (z3 -in, z3-new -in or cvc5 --incremental) driven
// through SMT-LIB2 with push/pop.  Every term is introduced once by a global
// define-fun; any "(error" line makes the answer inconclusive.

import (
	"bufio"
	"fmt"
	"io"
	"os"
	"os/exec"
	"strconv"
	"strings"
	"time"
)

type Result int

const (
	Unsat Result = iota
	Sat
	Unknown
)

func (r Result) String() string { return [...]string{"unsat", "sat", "unknown"}[r] }

type Solver struct {
	tt       *TermTable
	kind     string
	cmd      *exec.Cmd
	in       io.WriteCloser
	out      *bufio.Reader
	defined  []bool
	depth    int
	Queries  int
	NSat     int
	NUnsat   int
	NUnknown int
	Time     time.Duration
	Errors   []string
	logf     *os.File
	timeoutMs int
}

func NewSolver(tt *TermTable, kind string, timeoutMs int) (*Solver, error) {
	return newSolver(tt, kind, timeoutMs, false)
}

// newSolver: oneShot processes answer a single query and get a hard
// process-level time limit as well (z3 4.8.12 does not always honour the
// soft :timeout option).
func newSolver(tt *TermTable, kind string, timeoutMs int, oneShot bool) (*Solver, error) {
	var cmd *exec.Cmd
	hard := []string{}
	if oneShot {
		hard = []string{fmt.Sprintf("-T:%d", timeoutMs/1000+2)}
	}
	switch kind {
	case "z3":
		cmd = exec.Command("z3", append([]string{"-in", "-memory:6000"}, hard...)...)
	case "z3-new":
		cmd = exec.Command("z3-new", append([]string{"-in", "-memory:6000"}, hard...)...)
	case "cvc5":
		cmd = exec.Command("cvc5", "--incremental", "--lang=smt2", "--produce-models", fmt.Sprintf("--tlimit-per=%d", timeoutMs))
	case "cvc5-int":
		cmd = exec.Command("cvc5", "--incremental", "--lang=smt2", "--produce-models", "--solve-bv-as-int=sum", fmt.Sprintf("--tlimit-per=%d", timeoutMs))
	default:
		return nil, fmt.Errorf("unknown solver %q", kind)
	}
	in, err := cmd.StdinPipe()
	if err != nil {
		return nil, err
	}
	outp, err := cmd.StdoutPipe()
	if err != nil {
		return nil, err
	}
	cmd.Stderr = nil
	if err := cmd.Start(); err != nil {
		return nil, err
	}
	s := &Solver{tt: tt, kind: kind, cmd: cmd, in: in, out: bufio.NewReaderSize(outp, 1<<16), timeoutMs: timeoutMs}
	if p := os.Getenv("SYMGO_SMTLOG"); p != "" {
		s.logf, _ = os.Create(fmt.Sprintf("%s.%d.smt2", p, time.Now().UnixNano()))
	}
	s.send("(set-option :global-declarations true)")
	s.send("(set-option :produce-models true)")
	if strings.HasPrefix(kind, "z3") {
		s.send(fmt.Sprintf("(set-option :timeout %d)", timeoutMs))
	}
	s.send("(set-logic QF_BV)")
	return s, nil
}

func (s *Solver) Close() {
	if s.cmd != nil {
		s.in.Close()
		s.cmd.Process.Kill()
		s.cmd.Wait()
		s.cmd = nil
	}
	if s.logf != nil {
		s.logf.Close()
	}
}

func (s *Solver) send(line string) {
	if s.logf != nil {
		fmt.Fprintln(s.logf, line)
	}
	io.WriteString(s.in, line)
	io.WriteString(s.in, "\n")
}

// define makes sure t and all its sub-terms are known to the solver.
func (s *Solver) define(t *Term) {
	if t.op == OpConst {
		return
	}
	for int(t.id) >= len(s.defined) {
		s.defined = append(s.defined, make([]bool, 1024)...)
	}
	if s.defined[t.id] {
		return
	}
	// iterative post-order to avoid deep recursion
	type item struct {
		t *Term
		x bool
	}
	stack := []item{{t, false}}
	for len(stack) > 0 {
		it := stack[len(stack)-1]
		stack = stack[:len(stack)-1]
		u := it.t
		if u.op == OpConst {
			continue
		}
		for int(u.id) >= len(s.defined) {
			s.defined = append(s.defined, make([]bool, 1024)...)
		}
		if s.defined[u.id] {
			continue
		}
		if u.op == OpVar {
			s.send(fmt.Sprintf("(declare-const %s %s)", u.ref(), sortOf(u.w)))
			s.defined[u.id] = true
			continue
		}
		if it.x {
			s.send(fmt.Sprintf("(define-fun %s () %s %s)", u.ref(), sortOf(u.w), u.body()))
			s.defined[u.id] = true
			continue
		}
		stack = append(stack, item{u, true})
		for _, c := range []*Term{u.a, u.b, u.c} {
			if c != nil && c.op != OpConst && !s.defined[c.id] {
				stack = append(stack, item{c, false})
			}
		}
	}
}

func (s *Solver) Push() {
	s.send("(push 1)")
	s.depth++
}
func (s *Solver) Pop() {
	s.send("(pop 1)")
	s.depth--
}
func (s *Solver) PopTo(d int) {
	for s.depth > d {
		s.Pop()
	}
}
func (s *Solver) Assert(t *Term) {
	if t.IsTrue() {
		return
	}
	s.define(t)
	s.send("(assert " + t.ref() + ")")
}

func (s *Solver) readLine() string {
	line, err := s.out.ReadString('\n')
	if err != nil {
		s.Errors = append(s.Errors, "solver closed: "+err.Error())
		return "(error \"eof\")"
	}
	return strings.TrimSpace(line)
}

// Check runs check-sat; on Sat it fetches values for all declared variables.
func (s *Solver) Check(wantModel bool) (Result, *Model) {
	t0 := time.Now()
	s.Queries++
	// watchdog: a back end that ignores its soft limit is killed; the read
	// below then sees EOF and the query counts as unknown
	if s.cmd != nil && s.timeoutMs > 0 {
		proc := s.cmd.Process
		wd := time.AfterFunc(time.Duration(2*s.timeoutMs+5000)*time.Millisecond, func() { proc.Kill() })
		defer wd.Stop()
	}
	s.send("(check-sat)")
	var r Result
	for {
		line := s.readLine()
		if line == "" {
			continue
		}
		if strings.HasPrefix(line, "(error") {
			s.Errors = append(s.Errors, line)
			if strings.Contains(line, "eof") {
				s.Time += time.Since(t0)
				s.NUnknown++
				return Unknown, nil
			}
			continue
		}
		switch line {
		case "sat":
			r = Sat
		case "unsat":
			r = Unsat
		default:
			r = Unknown
		}
		break
	}
	if len(s.Errors) > 0 {
		r = Unknown
	}
	var m *Model
	if r == Sat && wantModel {
		m = s.getModel()
		if m == nil {
			r = Unknown
		}
	}
	s.Time += time.Since(t0)
	switch r {
	case Sat:
		s.NSat++
	case Unsat:
		s.NUnsat++
	default:
		s.NUnknown++
	}
	return r, m
}

func (s *Solver) getModel() *Model {
	m := &Model{vals: map[int32]uint64{}}
	var names []string
	for _, v := range s.tt.vars {
		if int(v.id) < len(s.defined) && s.defined[v.id] {
			names = append(names, v.ref())
		}
	}
	if len(names) == 0 {
		return m
	}
	s.send("(get-value (" + strings.Join(names, " ") + "))")
	// read until parens balance
	var sb strings.Builder
	depth := 0
	started := false
	for {
		line := s.readLine()
		if strings.HasPrefix(line, "(error") {
			s.Errors = append(s.Errors, line)
			return nil
		}
		sb.WriteString(line)
		sb.WriteByte(' ')
		for _, ch := range line {
			if ch == '(' {
				depth++
				started = true
			} else if ch == ')' {
				depth--
			}
		}
		if started && depth == 0 {
			break
		}
	}
	txt := sb.String()
	// tokens: (vN VALUE)
	toks := strings.FieldsFunc(txt, func(r rune) bool { return r == '(' || r == ')' || r == ' ' })
	for i := 0; i+1 < len(toks); i++ {
		name := toks[i]
		if len(name) < 2 || name[0] != 'v' {
			continue
		}
		id, err := strconv.Atoi(name[1:])
		if err != nil {
			continue
		}
		val := toks[i+1]
		var u uint64
		switch {
		case strings.HasPrefix(val, "#x"):
			u, _ = strconv.ParseUint(val[2:], 16, 64)
		case strings.HasPrefix(val, "#b"):
			u, _ = strconv.ParseUint(val[2:], 2, 64)
		case val == "true":
			u = 1
		case val == "false":
			u = 0
		case val == "_": // (_ bvN w)
			if i+2 < len(toks) && strings.HasPrefix(toks[i+2], "bv") {
				u, _ = strconv.ParseUint(toks[i+2][2:], 10, 64)
			}
		default:
			continue
		}
		m.vals[int32(id)] = u
		i++
	}
	return m
}

// CheckWith pushes, asserts extra, checks, pops.
func (s *Solver) CheckWith(extra *Term, wantModel bool) (Result, *Model) {
	if extra.IsFalse() {
		return Unsat, nil
	}
	s.Push()
	s.Assert(extra)
	r, m := s.Check(wantModel)
	s.Pop()
	return r, m
}
