package main

import (
	"fmt"
	"go/types"

	"golang.org/x/tools/go/ssa"
)

func (it *Interp) callIntrinsicDefer(fr *frame, f *FuncV, args []Value, site ssa.Instruction, isDefer bool) Value {
	if f.builtin == "builtin:recover" {
		// recover() called directly by a deferred function is handled in
		// callIntrinsic through deferFrame; a `defer recover()` is a no-op.
		if isDefer {
			return &IfaceV{}
		}
	}
	return it.callIntrinsic(fr, f, args, site)
}

func (it *Interp) sliceLen(s *SliceV) *Term {
	if s.base == nil {
		return it.tt.Const(64, 0)
	}
	return s.len
}
func (it *Interp) sliceCap(s *SliceV) *Term {
	if s.base == nil {
		return it.tt.Const(64, 0)
	}
	return s.cap
}

func (it *Interp) arrayOf(p *PtrV) *ArrayV {
	a, ok := it.nav(it.rootR(p.obj), p.path).(*ArrayV)
	if !ok {
		panic("slice base is not an array")
	}
	return a
}

// lenBound gives a concrete upper bound for a symbolic element count.
func (it *Interp) lenBound(n *Term, capN int) int {
	if n.IsConst() {
		return int(n.k)
	}
	b := n.hi
	if b > uint64(capN) {
		b = uint64(capN)
	}
	if b > 64 {
		b = it.ex.maxValue(n, b)
	}
	return int(b)
}

// readElems snapshots up to nmax elements of src starting at srcStart.
func (it *Interp) readElems(fr *frame, src Value, start *Term, nmax int) []Value {
	out := make([]Value, 0, nmax)
	switch s := src.(type) {
	case *StrV:
		b := it.strBytes(s)
		if !start.IsConst() {
			it.unsupported("symbolic start in string copy")
		}
		for k := 0; k < nmax && int(start.k)+k < len(b); k++ {
			out = append(out, b[int(start.k)+k])
		}
	case *SliceV:
		if s.base == nil {
			return out
		}
		arr := it.arrayOf(s.base)
		for k := 0; k < nmax; k++ {
			idx := it.tt.Add(it.tt.Add(s.off, start), it.tt.Const(64, uint64(k)))
			if idx.IsConst() && idx.k >= uint64(arr.n) {
				break
			}
			out = append(out, it.load(fr, it.elemPtr(s.base, idx)))
		}
	}
	return out
}

// writeElems stores vals[k] at dst[start+k] for k < n (n symbolic).
func (it *Interp) writeElems(fr *frame, dst *SliceV, start *Term, vals []Value, n *Term) {
	if len(vals) == 0 {
		return
	}
	if o := dst.base.obj; (o.nowrite || (o.input && it.barrier)) && !n.IsConst() {
		// protected target: separate the "nothing written" case so that a
		// reported store comes with a model in which it really happens
		if it.ex.branch(it.tt.Eq(n, it.tt.Const(64, 0)), false) {
			return
		}
		// prefer a witness that writes several bytes: the native race detector
		// does not flag a one-byte self-copy
		it.ex.preferModel(it.tt.Ult(it.tt.Const(64, 3), n))
	}
	arr := it.arrayOf(dst.base)
	for k, v := range vals {
		idx := it.tt.Add(it.tt.Add(dst.off, start), it.tt.Const(64, uint64(k)))
		if idx.IsConst() && idx.k >= uint64(arr.n) {
			break
		}
		g := it.tt.Ult(it.tt.Const(64, uint64(k)), n)
		if g.IsFalse() {
			break
		}
		p := it.elemPtr(dst.base, idx)
		if g.IsTrue() {
			it.store(fr, p, v)
		} else {
			old := it.load(fr, p)
			it.store(fr, p, it.mergeOrFork(g, v, old))
		}
	}
}

func (it *Interp) srcLen(v Value) *Term {
	switch s := v.(type) {
	case *StrV:
		return it.tt.Const(64, uint64(it.strLen(s)))
	case *SliceV:
		return it.sliceLen(s)
	}
	panic("srcLen")
}

func (it *Interp) builtinCopy(fr *frame, dst *SliceV, src Value) Value {
	tt := it.tt
	ld, ls := it.sliceLen(dst), it.srcLen(src)
	n := tt.Ite(tt.Ult(ld, ls), ld, ls)
	if n.IsConst() && n.k == 0 {
		return n
	}
	if dst.base == nil {
		return n
	}
	capN := it.arrayOf(dst.base).n
	nmax := it.lenBound(n, capN)
	vals := it.readElems(fr, src, tt.Const(64, 0), nmax)
	it.writeElems(fr, dst, tt.Const(64, 0), vals, n)
	return n
}

func (it *Interp) builtinAppend(fr *frame, st types.Type, s *SliceV, add Value) Value {
	tt := it.tt
	n := it.srcLen(add)
	if n.IsConst() && n.k == 0 {
		return s
	}
	ls, cs := it.sliceLen(s), it.sliceCap(s)
	newLen := tt.Add(ls, n)
	fits := tt.Ule(newLen, cs)
	var srcCap int
	switch a := add.(type) {
	case *StrV:
		srcCap = it.strLen(a)
	case *SliceV:
		srcCap = it.arrayOf(a.base).n
	}
	nmax := it.lenBound(n, srcCap)
	vals := it.readElems(fr, add, tt.Const(64, 0), nmax)
	if s.base == nil {
		if it.ex.branch(tt.Eq(n, tt.Const(64, 0)), false) {
			return s
		}
	} else if it.ex.branch(fits, true) {
		it.writeElems(fr, s, ls, vals, n)
		return &SliceV{base: s.base, off: s.off, len: newLen, cap: s.cap}
	}
	// grow: cap' = max(2*cap, newLen)
	dbl := tt.Shl(cs, tt.Const(64, 1))
	newCap := tt.Ite(tt.Ult(newLen, dbl), dbl, newLen)
	et := st.Underlying().(*types.Slice).Elem()
	size := it.sizeBound(fr, newCap, "append")
	arr := newArray(size, func() Value { return it.zero(et) })
	o := it.newObject(arr, "append "+st.String())
	ns := &SliceV{base: &PtrV{obj: o}, off: tt.Const(64, 0), len: newLen, cap: newCap}
	if s.base != nil {
		oldMax := it.lenBound(ls, it.arrayOf(s.base).n)
		old := it.readElems(fr, s, tt.Const(64, 0), oldMax)
		it.writeElems(fr, ns, tt.Const(64, 0), old, ls)
	}
	it.writeElems(fr, ns, ls, vals, n)
	return ns
}

func (it *Interp) callIntrinsic(fr *frame, f *FuncV, args []Value, site ssa.Instruction) Value {
	tt := it.tt
	switch f.builtin {
	case "builtin:len":
		switch x := args[0].(type) {
		case *SliceV:
			return it.sliceLen(x)
		case *StrV:
			if x.opaque {
				// formatted text: its length is unknown; any value 0..65535
				return tt.ZExt(tt.Var(it.freshName("opaque.len"), 16), 64)
			}
			return tt.Const(64, uint64(it.strLen(x)))
		case *MapV:
			if x.obj == nil {
				return tt.Const(64, 0)
			}
			return tt.Const(64, uint64(len(it.rootR(x.obj).(*MapData).keys)))
		case *ArrayV:
			return tt.Const(64, uint64(x.n))
		case *PtrV:
			call := site.(ssa.CallInstruction).Common()
			at := call.Args[0].Type().Underlying().(*types.Pointer).Elem().Underlying().(*types.Array)
			return tt.Const(64, uint64(at.Len()))
		case *ChanV:
			if x.obj == nil {
				return tt.Const(64, 0)
			}
			return tt.Const(64, uint64(len(it.rootR(x.obj).(*ChanData).buf)))
		}
	case "builtin:cap":
		switch x := args[0].(type) {
		case *SliceV:
			return it.sliceCap(x)
		case *ArrayV:
			return tt.Const(64, uint64(x.n))
		case *ChanV:
			if x.obj == nil {
				return tt.Const(64, 0)
			}
			return tt.Const(64, uint64(it.rootR(x.obj).(*ChanData).cap))
		case *PtrV:
			call := site.(ssa.CallInstruction).Common()
			at := call.Args[0].Type().Underlying().(*types.Pointer).Elem().Underlying().(*types.Array)
			return tt.Const(64, uint64(at.Len()))
		}
	case "builtin:append":
		call := site.(ssa.CallInstruction).Common()
		return it.builtinAppend(fr, call.Args[0].Type(), args[0].(*SliceV), args[1])
	case "builtin:copy":
		return it.builtinCopy(fr, args[0].(*SliceV), args[1])
	case "builtin:delete":
		it.mapDelete(fr, args[0].(*MapV), args[1])
		return nil
	case "builtin:recover":
		df := it.deferFrame()
		if df != nil && df.panicking != nil {
			v := df.panicking.val
			df.panicking = nil
			if v == nil {
				return &IfaceV{}
			}
			return v
		}
		return &IfaceV{}
	case "builtin:print", "builtin:println":
		return nil
	case "builtin:close":
		it.chanClose(fr, args[0].(*ChanV))
		return nil
	case "builtin:min", "builtin:max":
		call := site.(ssa.CallInstruction).Common()
		t := call.Args[0].Type()
		res := args[0]
		for _, a := range args[1:] {
			var lt *Term
			x, ok1 := res.(*Term)
			y, ok2 := a.(*Term)
			if !ok1 || !ok2 {
				it.unsupported("min/max on %T", res)
			}
			if isSigned(t) {
				lt = tt.Slt(y, x)
			} else {
				lt = tt.Ult(y, x)
			}
			if f.builtin == "builtin:max" {
				lt = tt.BNot(tt.BOr(lt, tt.Eq(x, y)))
			}
			res = tt.Ite(lt, y, x)
		}
		return res
	case "builtin:clear":
		switch x := args[0].(type) {
		case *MapV:
			if x.obj != nil {
				md := it.rootW(x.obj).(*MapData)
				md.keys, md.vals, md.index = nil, nil, map[string]int{}
			}
			return nil
		}
	case "builtin:SliceData":
		sl := args[0].(*SliceV)
		if sl.base == nil {
			return &PtrV{}
		}
		return it.elemPtr(sl.base, sl.off)
	case "builtin:StringData":
		it.unsupported("unsafe.StringData")
	case "builtin:String":
		p := args[0].(*PtrV)
		n := int(it.ex.concretize(it.toIndex(args[1], site.(ssa.CallInstruction).Common().Args[1].Type())))
		if n == 0 {
			return &StrV{}
		}
		if p.isNil() || len(p.path) == 0 {
			it.unsupported("unsafe.String on nil/odd pointer")
		}
		base := &PtrV{obj: p.obj, path: p.path[:len(p.path)-1]}
		start := it.peTerm(p.path[len(p.path)-1])
		out := make([]*Term, n)
		for i := 0; i < n; i++ {
			out[i] = it.load(fr, it.elemPtr(base, tt.Add(start, tt.Const(64, uint64(i))))).(*Term)
		}
		return it.mkStr(out)
	case "builtin:ssa:wrapnilchk":
		p := args[0].(*PtrV)
		if p.isNil() {
			it.rtPanic(fr, "nil", "value method called using nil pointer")
		}
		return p
	}
	if h, ok := intrinsics[f.builtin]; ok {
		return h(it, fr, nil, args, site)
	}
	it.unsupported("builtin %s(%s)", f.builtin, fmt.Sprintf("%T", args))
	return nil
}
