package main

// Guest goroutines run as host goroutines passing a baton; every
// synchronisation operation is a scheduling point whose pick is a recorded
// decision, so exploring all decision vectors explores all interleavings at
// sync-operation granularity.

import (
	"fmt"
	"go/types"

	"golang.org/x/tools/go/ssa"
)

type waitCase struct {
	ch   *Object
	send bool
	val  Value
}

type G struct {
	id      int
	wake    chan struct{}
	done    bool
	blocked bool
	waiting []waitCase
	lockKey string // waiting for a lock
	lockRd  bool
	fired   int
	recvVal Value
	recvOK  bool
	deferFr *frame
	joinAll bool
	callStack []*frame
	name    string
}

type ChanData struct {
	cap    int
	buf    []Value
	closed bool
}

type lockState struct {
	writer  bool
	readers int
}

type poolState struct {
	items []Value
}

type Sched struct {
	it       *Interp
	gs       []*G
	cur      *G
	aborting bool
	fatal    interface{}
	locks    map[string]*lockState
	pools    map[string]*poolState
	poolND   bool // nondeterministic sync.Pool.Get
	Switches int
	preemptions  int
	settling     *G // goroutine waiting in verifSettle: others run without being preempted
	preemptBound int
}

func newSched(it *Interp) *Sched {
	s := &Sched{it: it, locks: map[string]*lockState{}, pools: map[string]*poolState{}, preemptBound: 2}
	g0 := &G{id: 0, wake: make(chan struct{}, 1), name: "main"}
	s.gs = []*G{g0}
	s.cur = g0
	return s
}

// choose records an n-way nondeterministic choice.
func (e *Explorer) choose(n int) int {
	if n <= 1 {
		return 0
	}
	if e.cp < len(e.trace) {
		r := &e.trace[e.cp]
		e.cp++
		return int(r.val)
	}
	e.Decisions++
	e.trace = append(e.trace, rec{choice: true, nAlt: n, val: 0})
	e.cp++
	return 0
}

func (s *Sched) enabled(g *G) bool {
	if g.done {
		return false
	}
	if !g.blocked {
		return true
	}
	if g.joinAll {
		for _, o := range s.gs {
			if o != g && !o.done {
				return false
			}
		}
		return true
	}
	if g.lockKey != "" {
		ls := s.locks[g.lockKey]
		if ls == nil {
			return true
		}
		if g.lockRd {
			return !ls.writer
		}
		return !ls.writer && ls.readers == 0
	}
	return false // channel waiters are woken explicitly
}

// schedPoint lets the scheduler pick who runs next. self may be blocked.
func (s *Sched) schedPoint() {
	cur := s.cur
	var en []*G
	for _, g := range s.gs {
		if s.enabled(g) {
			en = append(en, g)
		}
	}
	if s.settling != nil && len(en) > 1 {
		// run the others to quiescence first
		var rest []*G
		for _, g := range en {
			if g != s.settling {
				rest = append(rest, g)
			}
		}
		en = rest
		if len(en) > 0 {
			pick := en[0]
			for _, g := range en {
				if g == cur {
					pick = g
				}
			}
			if pick.blocked {
				pick.blocked = false
			}
			s.switchTo(pick)
			return
		}
	}
	if len(en) == 0 {
		live := ""
		for _, g := range s.gs {
			if !g.done {
				live += fmt.Sprintf(" g%d(%s)", g.id, g.name)
			}
		}
		s.it.ex.report("deadlock", "scheduler", "all goroutines blocked:"+live)
		panic(abortRun{"deadlock"})
	}
	// prefer continuing cur (index 0 = cur if enabled) to keep DFS cheap
	idx := 0
	if len(en) > 1 {
		curEnabled := false
		for i, g := range en {
			if g == cur {
				en[0], en[i] = en[i], en[0]
				curEnabled = true
			}
		}
		if curEnabled && s.preemptions >= s.preemptBound {
			idx = 0 // context bound reached: only forced switches from now on
		} else {
			idx = s.it.ex.choose(len(en))
			if curEnabled && idx != 0 {
				s.preemptions++
			}
		}
	}
	next := en[idx]
	if next.blocked { // lock or join became available
		next.blocked = false
	}
	s.switchTo(next)
}

func (s *Sched) switchTo(next *G) {
	cur := s.cur
	if next == cur {
		return
	}
	s.Switches++
	s.cur = next
	next.wake <- struct{}{}
	if cur.done {
		return
	}
	<-cur.wake
	if s.aborting {
		if cur.id == 0 && s.fatal != nil {
			f := s.fatal
			s.fatal = nil
			panic(f)
		}
		panic(abortRun{"abort"})
	}
}

// block parks the current goroutine until woken.
func (s *Sched) block() {
	g := s.cur
	g.blocked = true
	s.schedPoint() // picks someone else (g is not enabled unless lock/join)
	// when we come back we have been switched to
}

// yield (time.Sleep, runtime.Gosched): the caller gives up the processor, so
// if any other goroutine is enabled one of them runs next (a fair schedule:
// a polling loop cannot starve the goroutine it is waiting for).
func (it *Interp) yield(fr *frame) {
	s := it.sched
	if s == nil || len(s.gs) < 2 {
		return
	}
	cur := s.cur
	var others []*G
	for _, g := range s.gs {
		if g != cur && s.enabled(g) {
			others = append(others, g)
		}
	}
	if len(others) == 0 {
		return
	}
	next := others[it.ex.choose(len(others))]
	if next.blocked {
		next.blocked = false
	}
	s.switchTo(next)
}

func (it *Interp) goStmt(fr *frame, cc *ssa.CallCommon, fv Value, args []Value, site ssa.Instruction) {
	s := it.sched
	gname := "go " + site.Parent().String()
	if f, ok := fv.(*FuncV); ok && f.fn != nil {
		gname = "go " + f.fn.String()
	}
	g := &G{id: len(s.gs), wake: make(chan struct{}, 1), name: gname}
	s.gs = append(s.gs, g)
	go func() {
		<-g.wake
		defer func() {
			r := recover()
			g.done = true
			if r != nil {
				if _, ok := r.(abortRun); ok && s.aborting {
					return
				}
				if gp, ok := r.(*guestPanic); ok {
					it.ex.report("panic", gp.site, "goroutine panic: "+gp.msg)
					r = abortRun{"goroutine panic"}
				}
				s.fatal = r
				s.abortAllFrom(g)
				return
			}
			// normal exit: hand the baton on
			defer func() {
				if r2 := recover(); r2 != nil {
					s.fatal = r2
					s.abortAllFrom(g)
				}
			}()
			s.schedPoint()
		}()
		if s.aborting {
			panic(abortRun{"abort"})
		}
		nf := &frame{it: it, g: g}
		_ = nf
		it.invoke(&frame{it: it, g: g, cur: site, fn: fr.fn}, cc, fv, args, site, false)
	}()
	s.schedPoint()
}

// abortAllFrom: a non-main goroutine hit a fatal condition; wake main to
// propagate it.
func (s *Sched) abortAllFrom(g *G) {
	s.aborting = true
	main := s.gs[0]
	s.cur = main
	main.wake <- struct{}{}
}

// shutdown releases every parked goroutine at the end of a path.
func (s *Sched) shutdown() {
	s.aborting = true
	for _, g := range s.gs[1:] {
		if !g.done {
			select {
			case g.wake <- struct{}{}:
			default:
			}
		}
	}
}

// ---- channels ----

func (it *Interp) chanData(c *ChanV, write bool) *ChanData {
	if write {
		return it.rootW(c.obj).(*ChanData)
	}
	return it.rootR(c.obj).(*ChanData)
}

func (s *Sched) findWaiter(ch *Object, send bool) (*G, int) {
	for _, g := range s.gs {
		if g.blocked && !g.done {
			for i, w := range g.waiting {
				if w.ch == ch && w.send == send {
					return g, i
				}
			}
		}
	}
	return nil, -1
}

func (s *Sched) wakeWith(g *G, idx int, v Value, ok bool) {
	g.fired, g.recvVal, g.recvOK = idx, v, ok
	g.waiting = nil
	g.blocked = false
}

func (it *Interp) chanSend(fr *frame, c *ChanV, v Value) {
	s := it.sched
	s.schedPoint()
	if c.obj == nil {
		s.cur.waiting = nil
		s.block()
		panic(abortRun{"send on nil chan"})
	}
	if !it.trySend(fr, c, v) {
		g := s.cur
		g.waiting = []waitCase{{ch: c.obj, send: true, val: v}}
		s.block()
		if g.fired < 0 {
			it.rtPanic(fr, "chan", "send on closed channel")
		}
	}
}

func (it *Interp) trySend(fr *frame, c *ChanV, v Value) bool {
	s := it.sched
	cd := it.chanData(c, true)
	if cd.closed {
		it.rtPanic(fr, "chan", "send on closed channel")
	}
	if g, i := s.findWaiter(c.obj, false); g != nil {
		s.wakeWith(g, i, v, true)
		return true
	}
	if len(cd.buf) < cd.cap {
		cd.buf = append(cd.buf, v)
		return true
	}
	return false
}

func (it *Interp) tryRecv(c *ChanV) (Value, bool, bool) { // val, ok, done
	s := it.sched
	cd := it.chanData(c, true)
	if len(cd.buf) > 0 {
		v := cd.buf[0]
		cd.buf = append([]Value(nil), cd.buf[1:]...)
		if g, i := s.findWaiter(c.obj, true); g != nil {
			cd.buf = append(cd.buf, g.waiting[i].val)
			s.wakeWith(g, i, nil, true)
		}
		return v, true, true
	}
	if g, i := s.findWaiter(c.obj, true); g != nil {
		v := g.waiting[i].val
		s.wakeWith(g, i, nil, true)
		return v, true, true
	}
	if cd.closed {
		return nil, false, true
	}
	return nil, false, false
}

func (it *Interp) chanRecv(fr *frame, c *ChanV, commaOk bool, t types.Type) Value {
	s := it.sched
	s.schedPoint()
	var et types.Type
	if commaOk {
		et = t.(*types.Tuple).At(0).Type()
	} else {
		et = t
	}
	if c.obj == nil {
		s.cur.waiting = nil
		s.block()
		panic(abortRun{"recv on nil chan"})
	}
	v, ok, done := it.tryRecv(c)
	if !done {
		g := s.cur
		g.waiting = []waitCase{{ch: c.obj, send: false}}
		s.block()
		v, ok = g.recvVal, g.recvOK
	}
	if !ok || v == nil {
		if !ok {
			v = it.zero(et)
		}
	}
	if commaOk {
		return TupleV{v, it.tt.Bool(ok)}
	}
	return v
}

func (it *Interp) chanClose(fr *frame, c *ChanV) {
	s := it.sched
	s.schedPoint()
	if c.obj == nil {
		it.rtPanic(fr, "chan", "close of nil channel")
	}
	cd := it.chanData(c, true)
	if cd.closed {
		it.rtPanic(fr, "chan", "close of closed channel")
	}
	cd.closed = true
	for {
		g, i := s.findWaiter(c.obj, false)
		if g == nil {
			break
		}
		s.wakeWith(g, i, nil, false)
	}
	for {
		g, _ := s.findWaiter(c.obj, true)
		if g == nil {
			break
		}
		s.wakeWith(g, -1, nil, false)
	}
}

func (it *Interp) selectOp(fr *frame, in *ssa.Select) Value {
	s := it.sched
	s.schedPoint()
	tt := it.tt
	// result tuple: (index int, recvOk bool, r_0 T_0, ... r_n-1 T_n-1) for recv states
	tup := in.Type().(*types.Tuple)
	mk := func(idx int, recvIdx int, v Value, ok bool) Value {
		out := make(TupleV, tup.Len())
		out[0] = tt.Const(64, uint64(int64(idx)))
		out[1] = tt.Bool(ok)
		k := 2
		for i, st := range in.States {
			if st.Dir == types.RecvOnly {
				if i == recvIdx && v != nil {
					out[k] = v
				} else {
					out[k] = it.zero(tup.At(k).Type())
				}
				k++
			}
		}
		return out
	}
	type rdy struct{ i int }
	var ready []int
	chans := make([]*ChanV, len(in.States))
	for i, st := range in.States {
		c := fr.get(st.Chan).(*ChanV)
		chans[i] = c
		if c.obj == nil {
			continue
		}
		cd := it.chanData(c, false)
		if st.Dir == types.SendOnly {
			if cd.closed {
				ready = append(ready, i)
			} else if g, _ := s.findWaiter(c.obj, false); g != nil || len(cd.buf) < cd.cap {
				ready = append(ready, i)
			}
		} else {
			if len(cd.buf) > 0 || cd.closed {
				ready = append(ready, i)
			} else if g, _ := s.findWaiter(c.obj, true); g != nil {
				ready = append(ready, i)
			}
		}
	}
	if len(ready) > 0 {
		i := ready[it.ex.choose(len(ready))]
		st := in.States[i]
		if st.Dir == types.SendOnly {
			if !it.trySend(fr, chans[i], fr.get(st.Send)) {
				panic("select: send not ready")
			}
			return mk(i, -1, nil, false)
		}
		v, ok, _ := it.tryRecv(chans[i])
		return mk(i, i, v, ok)
	}
	if !in.Blocking {
		return mk(-1, -1, nil, false)
	}
	g := s.cur
	g.waiting = nil
	for i, st := range in.States {
		if chans[i].obj == nil {
			continue
		}
		wc := waitCase{ch: chans[i].obj, send: st.Dir == types.SendOnly}
		if wc.send {
			wc.val = fr.get(st.Send)
		}
		g.waiting = append(g.waiting, wc)
	}
	// map waiting index back to state index
	var idxMap []int
	for i := range in.States {
		if chans[i].obj != nil {
			idxMap = append(idxMap, i)
		}
	}
	s.block()
	if g.fired < 0 {
		it.rtPanic(fr, "chan", "send on closed channel")
	}
	i := idxMap[g.fired]
	if in.States[i].Dir == types.SendOnly {
		return mk(i, -1, nil, false)
	}
	return mk(i, i, g.recvVal, g.recvOK)
}

// ---- locks ----

func (s *Sched) lock(fr *frame, p *PtrV, rd bool) {
	if p.isNil() {
		s.it.rtPanic(fr, "nil", "nil pointer dereference (mutex)")
	}
	if len(s.gs) > 1 {
		s.schedPoint()
	}
	key := ptrKey(p)
	ls := s.locks[key]
	if ls == nil {
		ls = &lockState{}
		s.locks[key] = ls
	}
	free := func() bool {
		if rd {
			return !ls.writer
		}
		return !ls.writer && ls.readers == 0
	}
	if !free() {
		g := s.cur
		g.lockKey, g.lockRd = key, rd
		s.block()
		g.lockKey = ""
		if !free() {
			panic("lock: woken but not free")
		}
	}
	if rd {
		ls.readers++
	} else {
		ls.writer = true
	}
}

func (s *Sched) unlock(fr *frame, p *PtrV, rd bool) {
	if p.isNil() {
		s.it.rtPanic(fr, "nil", "nil pointer dereference (mutex)")
	}
	key := ptrKey(p)
	ls := s.locks[key]
	if ls == nil || (rd && ls.readers == 0) || (!rd && !ls.writer) {
		s.it.ex.report("fatal", s.it.site(fr.cur), "sync: unlock of unlocked mutex")
		panic(abortRun{"unlock of unlocked mutex"})
	}
	if rd {
		ls.readers--
	} else {
		ls.writer = false
	}
	if len(s.gs) > 1 {
		s.schedPoint()
	}
}

func stubMutexLock(it *Interp, fr *frame, fn *ssa.Function, args []Value, site ssa.Instruction) Value {
	it.sched.lock(fr, args[0].(*PtrV), false)
	return nil
}
func stubMutexUnlock(it *Interp, fr *frame, fn *ssa.Function, args []Value, site ssa.Instruction) Value {
	it.sched.unlock(fr, args[0].(*PtrV), false)
	return nil
}
func stubRWLock(it *Interp, fr *frame, fn *ssa.Function, args []Value, site ssa.Instruction) Value {
	it.sched.lock(fr, args[0].(*PtrV), false)
	return nil
}
func stubRWUnlock(it *Interp, fr *frame, fn *ssa.Function, args []Value, site ssa.Instruction) Value {
	it.sched.unlock(fr, args[0].(*PtrV), false)
	return nil
}
func stubRWRLock(it *Interp, fr *frame, fn *ssa.Function, args []Value, site ssa.Instruction) Value {
	it.sched.lock(fr, args[0].(*PtrV), true)
	return nil
}
func stubRWRUnlock(it *Interp, fr *frame, fn *ssa.Function, args []Value, site ssa.Instruction) Value {
	it.sched.unlock(fr, args[0].(*PtrV), true)
	return nil
}

// ---- sync.Pool (contract model) ----

func (it *Interp) poolNewField(fr *frame, p *PtrV, site ssa.Instruction) Value {
	pt := it.namedType("sync", "Pool").Underlying().(*types.Struct)
	for i := 0; i < pt.NumFields(); i++ {
		if pt.Field(i).Name() == "New" {
			np := &PtrV{obj: p.obj, path: append(append([]PathElem{}, p.path...), PathElem{i: i})}
			return it.load(fr, np)
		}
	}
	return &FuncV{}
}

func stubPoolGet(it *Interp, fr *frame, fn *ssa.Function, args []Value, site ssa.Instruction) Value {
	s := it.sched
	p := args[0].(*PtrV)
	if len(s.gs) > 1 {
		s.schedPoint()
	}
	key := ptrKey(p)
	ps := s.pools[key]
	if ps == nil {
		ps = &poolState{}
		s.pools[key] = ps
	}
	n := len(ps.items)
	pick := -1 // -1 => New
	if n > 0 {
		if s.poolND {
			c := it.ex.choose(n + 1)
			if c < n {
				pick = c
			}
		} else {
			pick = n - 1
		}
	}
	if pick >= 0 {
		v := ps.items[pick]
		ps.items = append(ps.items[:pick:pick], ps.items[pick+1:]...)
		return v
	}
	nf := it.poolNewField(fr, p, site).(*FuncV)
	if nf.fn == nil && nf.builtin == "" {
		return &IfaceV{}
	}
	return it.callValue(fr, nf, nil, site)
}

func stubPoolPut(it *Interp, fr *frame, fn *ssa.Function, args []Value, site ssa.Instruction) Value {
	s := it.sched
	p := args[0].(*PtrV)
	if len(s.gs) > 1 {
		s.schedPoint()
	}
	key := ptrKey(p)
	ps := s.pools[key]
	if ps == nil {
		ps = &poolState{}
		s.pools[key] = ps
	}
	if iv, ok := args[1].(*IfaceV); ok && iv.t == nil {
		return nil
	}
	ps.items = append(ps.items, args[1])
	return nil
}
