package main

import (
	"fmt"
	"go/types"
	"math/bits"
	"regexp"

	"golang.org/x/tools/go/ssa"
)

var verifStubs map[string]stubFn

func init() {
	verifStubs = map[string]stubFn{
		"verifBytes":       vBytes,
		"verifU8":          vUint(8),
		"verifU16":         vUint(16),
		"verifU32":         vUint(32),
		"verifU64":         vUint(64),
		"verifInt":         vInt,
		"verifBool":        vBool,
		"verifAssume":      vAssume,
		"verifAssert":      vAssert,
		"verifReached":     vReached,
		"verifBarrier":     vBarrier,
		"verifInput":       vInput,
		"verifJoin":        vJoin,
		"verifPoolND":      vPoolND,
		"verifSameBacking": vSameBacking,
		"verifReachable":   vReachable,
		"verifChoose":      vChoose,
		"verifConcretize":  vConcretize,
		"verifBaseWrites":  vBaseWrites,
		"verifIte":         vIte,
		"verifYield":       stubYield,
		"verifMaxAlloc":    vMaxAlloc,
		"verifParam":       vParam,
		"verifRender":      vRender,
		"verifSettle":      vSettle,
		"verifFreeze":      vFreeze,
		"verifDeepEqual":   vDeepEqual,
		"verifDeepEqualExcept": vDeepEqualExcept,
		"verifPreemptBound": func(it *Interp, fr *frame, fn *ssa.Function, a []Value, site ssa.Instruction) Value {
			it.sched.preemptBound = int(a[0].(*Term).k)
			return nil
		},
		"verifAnd":         func(it *Interp, fr *frame, fn *ssa.Function, a []Value, site ssa.Instruction) Value { return it.tt.BAnd(a[0].(*Term), a[1].(*Term)) },
		"verifOr":          func(it *Interp, fr *frame, fn *ssa.Function, a []Value, site ssa.Instruction) Value { return it.tt.BOr(a[0].(*Term), a[1].(*Term)) },
		"verifImplies":     func(it *Interp, fr *frame, fn *ssa.Function, a []Value, site ssa.Instruction) Value { return it.tt.BOr(it.tt.BNot(a[0].(*Term)), a[1].(*Term)) },
	}
}

func (it *Interp) freshName(base string) string {
	n := it.nameCount[base]
	it.nameCount[base] = n + 1
	if n == 0 {
		return base
	}
	return fmt.Sprintf("%s#%d", base, n)
}

func concStr(it *Interp, v Value) string {
	s, ok := v.(*StrV)
	if !ok || s.opaque || s.b != nil {
		it.unsupported("verif*: name must be a constant string")
	}
	return s.s
}

func vBytes(it *Interp, fr *frame, fn *ssa.Function, args []Value, site ssa.Instruction) Value {
	name := it.freshName(concStr(it, args[0]))
	nT := args[1].(*Term)
	if !nT.IsConst() {
		it.unsupported("verifBytes: symbolic size")
	}
	n := int(nT.k)
	arr := &ArrayV{n: n, dense: make([]Value, n)}
	for i := 0; i < n; i++ {
		arr.dense[i] = it.tt.Var(fmt.Sprintf("%s[%d]", name, i), 8)
	}
	o := it.newObject(arr, "input "+name)
	c := it.tt.Const(64, uint64(n))
	return &SliceV{base: &PtrV{obj: o}, off: it.tt.Const(64, 0), len: c, cap: c}
}

func vUint(w uint8) stubFn {
	return func(it *Interp, fr *frame, fn *ssa.Function, args []Value, site ssa.Instruction) Value {
		return it.tt.Var(it.freshName(concStr(it, args[0])), w)
	}
}

func vInt(it *Interp, fr *frame, fn *ssa.Function, args []Value, site ssa.Instruction) Value {
	name := it.freshName(concStr(it, args[0]))
	lo, hi := args[1].(*Term), args[2].(*Term)
	if lo.IsConst() && hi.IsConst() && sext(hi.k, 64) >= sext(lo.k, 64) && hi.k-lo.k < 1<<32 {
		span := hi.k - lo.k
		if span == 0 {
			return lo
		}
		w := uint8(bits.Len64(span))
		raw := it.tt.Var(name, w)
		if span != mask(w) {
			if !it.ex.assume(it.tt.Ule(raw, it.tt.Const(w, span))) {
				panic(abortRun{"infeasible"})
			}
		}
		return it.tt.Add(it.tt.ZExt(raw, 64), lo)
	}
	v := it.tt.Var(name, 64)
	c := it.tt.BAnd(it.tt.Sle(lo, v), it.tt.Sle(v, hi))
	if !it.ex.assume(c) {
		panic(abortRun{"infeasible"})
	}
	return v
}

func vBool(it *Interp, fr *frame, fn *ssa.Function, args []Value, site ssa.Instruction) Value {
	return it.tt.Var(it.freshName(concStr(it, args[0])), 0)
}

func vAssume(it *Interp, fr *frame, fn *ssa.Function, args []Value, site ssa.Instruction) Value {
	if !it.ex.assume(args[0].(*Term)) {
		it.ex.Infeasible++
		panic(abortRun{"infeasible"})
	}
	return nil
}

func vAssert(it *Interp, fr *frame, fn *ssa.Function, args []Value, site ssa.Instruction) Value {
	label := concStr(it, args[1])
	if !it.ex.replaying() {
		it.ex.AssertSites[label]++
	}
	c := args[0].(*Term)
	if it.ex.branch(it.tt.BNot(c), false) {
		n0 := len(it.ex.Violations)
		it.ex.report("assert", it.site(site), label)
		if len(it.ex.Violations) > n0 {
			it.ex.Violations[n0].Key = "assert|" + label
		}
		panic(abortRun{"assertion failed"})
	}
	return nil
}

func vReached(it *Interp, fr *frame, fn *ssa.Function, args []Value, site ssa.Instruction) Value {
	if !it.ex.replaying() {
		it.ex.Reached[concStr(it, args[0])]++
	}
	return nil
}

func vBarrier(it *Interp, fr *frame, fn *ssa.Function, args []Value, site ssa.Instruction) Value {
	it.barrier = args[0].(*Term).IsTrue()
	return nil
}

func vInput(it *Interp, fr *frame, fn *ssa.Function, args []Value, site ssa.Instruction) Value {
	s := args[0].(*SliceV)
	if s.base != nil {
		s.base.obj.input = true
	}
	return nil
}

func vJoin(it *Interp, fr *frame, fn *ssa.Function, args []Value, site ssa.Instruction) Value {
	s := it.sched
	g := s.cur
	g.joinAll = true
	s.block()
	g.joinAll = false
	return nil
}

func vPoolND(it *Interp, fr *frame, fn *ssa.Function, args []Value, site ssa.Instruction) Value {
	it.sched.poolND = args[0].(*Term).IsTrue()
	return nil
}

func vSameBacking(it *Interp, fr *frame, fn *ssa.Function, args []Value, site ssa.Instruction) Value {
	a, b := args[0].(*SliceV), args[1].(*SliceV)
	if a.base == nil || b.base == nil {
		return it.tt.fls
	}
	return it.tt.Bool(a.base.obj == b.base.obj)
}

// verifReachable(root any, b []byte) bool: is b's backing object reachable
// from root through pointers, slices, interfaces, maps and closures?
func vReachable(it *Interp, fr *frame, fn *ssa.Function, args []Value, site ssa.Instruction) Value {
	tgt := args[1].(*SliceV)
	if tgt.base == nil {
		return it.tt.fls
	}
	seen := map[*Object]bool{}
	found := false
	var walk func(v Value)
	visitObj := func(o *Object) {
		if o == nil || seen[o] || found {
			return
		}
		seen[o] = true
		if o == tgt.base.obj {
			found = true
			return
		}
		walk(it.rootR(o))
	}
	walk = func(v Value) {
		if found {
			return
		}
		switch x := v.(type) {
		case *StructV:
			for _, f := range x.f {
				walk(f)
			}
		case *ArrayV:
			if x.dense != nil {
				for _, e := range x.dense {
					if _, isT := e.(*Term); isT {
						break
					}
					walk(e)
				}
			} else {
				for _, e := range x.sparse {
					walk(e)
				}
			}
		case *PtrV:
			if !x.isNil() {
				visitObj(x.obj)
			}
		case *SliceV:
			if x.base != nil {
				visitObj(x.base.obj)
			}
		case *IfaceV:
			if x.t != nil {
				walk(x.v)
			}
		case *FuncV:
			for _, e := range x.env {
				walk(e)
			}
		case *MapV:
			visitObj(x.obj)
		case *MapData:
			for i := range x.keys {
				walk(x.keys[i])
				walk(x.vals[i])
			}
		case *ChanV:
			visitObj(x.obj)
		case *ChanData:
			for _, e := range x.buf {
				walk(e)
			}
		case TupleV:
			for _, e := range x {
				walk(e)
			}
		}
	}
	walk(args[0])
	return it.tt.Bool(found)
}

func vChoose(it *Interp, fr *frame, fn *ssa.Function, args []Value, site ssa.Instruction) Value {
	n := args[0].(*Term)
	if !n.IsConst() {
		it.unsupported("verifChoose: symbolic n")
	}
	c := it.ex.choose(int(n.k))
	it.ex.UserChoices = append(it.ex.UserChoices, c)
	return it.tt.Const(64, uint64(c))
}

func vConcretize(it *Interp, fr *frame, fn *ssa.Function, args []Value, site ssa.Instruction) Value {
	t := args[0].(*Term)
	return it.tt.Const(t.w, it.ex.concretize(t))
}

func vBaseWrites(it *Interp, fr *frame, fn *ssa.Function, args []Value, site ssa.Instruction) Value {
	return it.tt.Const(64, uint64(len(it.baseWrites)))
}

// verifIte(c, a, b int) int without branching
func vIte(it *Interp, fr *frame, fn *ssa.Function, args []Value, site ssa.Instruction) Value {
	return it.tt.Ite(args[0].(*Term), args[1].(*Term), args[2].(*Term))
}

// verifMaxAlloc() int: number of symbolic-size allocations so far on this path
func vMaxAlloc(it *Interp, fr *frame, fn *ssa.Function, args []Value, site ssa.Instruction) Value {
	return it.tt.Const(64, uint64(len(it.allocs)))
}

// verifParam(name) int: per-instance concrete parameter (unit@name=value)
func vParam(it *Interp, fr *frame, fn *ssa.Function, args []Value, site ssa.Instruction) Value {
	name := concStr(it, args[0])
	v, ok := it.params[name]
	if !ok {
		it.unsupported("verifParam(%s): no value supplied", name)
	}
	return it.tt.Const(64, uint64(int64(v)))
}

// verifDeepEqual(a, b interface{}) bool: structural equality over exported
// fields, following pointers and interfaces, slices by content (nil == empty),
// funcs/maps/chans ignored. Returns a term; never branches.
func vDeepEqual(it *Interp, fr *frame, fn *ssa.Function, args []Value, site ssa.Instruction) Value {
	a, b := args[0].(*IfaceV), args[1].(*IfaceV)
	if a.t == nil || b.t == nil {
		return it.tt.Bool(a.t == nil && b.t == nil)
	}
	if !types.Identical(a.t, b.t) {
		return it.tt.fls
	}
	return it.deepEq(fr, a.v, b.v, a.t, 0)
}

// verifDeepEqualExcept(a, b, skip): as verifDeepEqual, ignoring struct fields
// whose name matches the regular expression skip.
func vDeepEqualExcept(it *Interp, fr *frame, fn *ssa.Function, args []Value, site ssa.Instruction) Value {
	re, err := regexp.Compile(concStr(it, args[2]))
	if err != nil {
		it.unsupported("verifDeepEqualExcept: bad regexp")
	}
	saved := it.deqSkip
	it.deqSkip = re
	defer func() { it.deqSkip = saved }()
	return vDeepEqual(it, fr, fn, args[:2], site)
}

func (it *Interp) deepEq(fr *frame, a, b Value, t types.Type, depth int) *Term {
	tt := it.tt
	if depth > 8 {
		return tt.tru
	}
	switch u := t.Underlying().(type) {
	case *types.Basic:
		if _, ok := a.(*OpaqueV); ok {
			return tt.tru
		}
		if sa, ok := a.(*StrV); ok {
			sb := b.(*StrV)
			if sa.opaque || sb.opaque {
				return tt.tru
			}
		}
		return it.eqValues(a, b)
	case *types.Pointer:
		pa, pb := a.(*PtrV), b.(*PtrV)
		if pa.isNil() || pb.isNil() {
			return tt.Bool(pa.isNil() && pb.isNil())
		}
		return it.deepEq(fr, it.load(fr, pa), it.load(fr, pb), u.Elem(), depth+1)
	case *types.Slice:
		sa, sb := a.(*SliceV), b.(*SliceV)
		la, lb := it.sliceLen(sa), it.sliceLen(sb)
		r := tt.Eq(la, lb)
		if sa.base == nil || sb.base == nil {
			return r
		}
		na := it.lenBound(la, it.arrayOf(sa.base).n)
		nb := it.lenBound(lb, it.arrayOf(sb.base).n)
		if nb < na {
			na = nb
		}
		ea := it.readElems(fr, sa, tt.Const(64, 0), na)
		eb := it.readElems(fr, sb, tt.Const(64, 0), na)
		n := len(ea)
		if len(eb) < n {
			n = len(eb)
		}
		for k := 0; k < n; k++ {
			in := tt.Ult(tt.Const(64, uint64(k)), la)
			if in.IsFalse() {
				break
			}
			r = tt.BAnd(r, tt.BOr(tt.BNot(in), it.deepEq(fr, ea[k], eb[k], u.Elem(), depth+1)))
		}
		return r
	case *types.Array:
		aa, ab := a.(*ArrayV), b.(*ArrayV)
		r := tt.tru
		for i := 0; i < aa.n; i++ {
			r = tt.BAnd(r, it.deepEq(fr, aa.get(i), ab.get(i), u.Elem(), depth+1))
		}
		return r
	case *types.Struct:
		sa, sb := a.(*StructV), b.(*StructV)
		r := tt.tru
		for i := 0; i < u.NumFields(); i++ {
			f := u.Field(i)
			if !f.Exported() && !f.Embedded() {
				continue
			}
			if nt, ok := f.Type().(*types.Named); ok && nt.Obj().Name() == "BaseLayer" {
				continue // raw contents/payload windows are compared separately
			}
			if it.deqSkip != nil && it.deqSkip.MatchString(f.Name()) {
				continue
			}
			r = tt.BAnd(r, it.deepEq(fr, sa.f[i], sb.f[i], f.Type(), depth+1))
		}
		return r
	case *types.Interface:
		ia, ib := a.(*IfaceV), b.(*IfaceV)
		if ia.t == nil || ib.t == nil {
			return tt.Bool(ia.t == nil && ib.t == nil)
		}
		if !types.Identical(ia.t, ib.t) {
			return tt.fls
		}
		return it.deepEq(fr, ia.v, ib.v, ia.t, depth+1)
	}
	return tt.tru
}

// verifFreeze(root): every object reachable from root becomes read-only; a
// later store into one of them is reported as a "barrier" violation (a write
// to state that concurrent readers share).
func vFreeze(it *Interp, fr *frame, fn *ssa.Function, args []Value, site ssa.Instruction) Value {
	seen := map[*Object]bool{}
	var walk func(v Value)
	visit := func(o *Object) {
		if o == nil || seen[o] {
			return
		}
		seen[o] = true
		o.nowrite = true
		it.frozenObjs = append(it.frozenObjs, o)
		walk(it.rootR(o))
	}
	walk = func(v Value) {
		switch x := v.(type) {
		case *StructV:
			for _, f := range x.f {
				walk(f)
			}
		case *ArrayV:
			if x.dense != nil {
				for _, e := range x.dense {
					if _, isT := e.(*Term); isT {
						break
					}
					walk(e)
				}
			} else {
				for _, e := range x.sparse {
					walk(e)
				}
			}
		case *PtrV:
			if !x.isNil() {
				visit(x.obj)
			}
		case *SliceV:
			if x.base != nil {
				visit(x.base.obj)
			}
		case *IfaceV:
			if x.t != nil {
				walk(x.v)
			}
		case *FuncV:
			for _, e := range x.env {
				walk(e)
			}
		case *MapV:
			visit(x.obj)
		case *MapData:
			for i := range x.keys {
				walk(x.keys[i])
				walk(x.vals[i])
			}
		case TupleV:
			for _, e := range x {
				walk(e)
			}
		}
	}
	walk(args[0])
	return nil
}

// verifSettle(): let every other goroutine run until it blocks or finishes
// (natively: a short sleep). Lets a harness pin down "the other side is
// already waiting" so that a schedule found by the engine replays natively.
func vSettle(it *Interp, fr *frame, fn *ssa.Function, args []Value, site ssa.Instruction) Value {
	s := it.sched
	for n := 0; n < 10000; n++ {
		cur := s.cur
		var others []*G
		for _, g := range s.gs {
			if g != cur && s.enabled(g) {
				others = append(others, g)
			}
		}
		if len(others) == 0 {
			return nil
		}
		next := others[0]
		if next.blocked {
			next.blocked = false
		}
		s.settling = cur
		s.switchTo(next)
		s.settling = nil
	}
	return nil
}

// verifRender(x interface{}): follows gopacket's layerString over the value
// (Stringer first - pointer receiver when addressable -, then pointer and
// interface dereference, embedded and exported struct fields, slices of at
// most 4 elements) and symbolically executes every String()/Error() method it
// would call. The text itself is not modelled. Natively: gopacket.LayerString.
func vRender(it *Interp, fr *frame, fn *ssa.Function, args []Value, site ssa.Instruction) Value {
	x := args[0].(*IfaceV)
	if x.t == nil {
		return nil
	}
	it.render(fr, x.v, x.t, nil, site, 0)
	return nil
}

func (it *Interp) stringMethod(t types.Type) *ssa.Function {
	for _, name := range []string{"String", "Error"} {
		sel := it.sh.prog.MethodSets.MethodSet(t).Lookup(nil, name)
		if sel == nil {
			continue
		}
		sig, ok := sel.Type().(*types.Signature)
		if !ok || sig.Params().Len() != 0 || sig.Results().Len() != 1 || !isString(sig.Results().At(0).Type()) {
			continue
		}
		if f := it.sh.prog.MethodValue(sel); f != nil {
			return f
		}
	}
	return nil
}

func (it *Interp) render(fr *frame, v Value, t types.Type, loc *PtrV, site ssa.Instruction, depth int) {
	if depth > 10 {
		return
	}
	// Stringer first: pointer receiver when addressable
	if loc != nil {
		if f := it.stringMethod(types.NewPointer(t)); f != nil {
			it.callFunction(fr, f, []Value{loc}, nil, site)
			return
		}
	} else if f := it.stringMethod(t); f != nil {
		recv := v
		it.callFunction(fr, f, []Value{recv}, nil, site)
		return
	}
	switch u := t.Underlying().(type) {
	case *types.Pointer:
		p := v.(*PtrV)
		if p.isNil() {
			return
		}
		it.render(fr, it.load(fr, p), u.Elem(), p, site, depth+1)
	case *types.Interface:
		iv := v.(*IfaceV)
		if iv.t == nil {
			return
		}
		it.render(fr, iv.v, iv.t, nil, site, depth+1)
	case *types.Struct:
		sv := v.(*StructV)
		for i := 0; i < u.NumFields(); i++ {
			f := u.Field(i)
			if !f.Embedded() && !f.Exported() {
				continue
			}
			var floc *PtrV
			if loc != nil {
				floc = &PtrV{obj: loc.obj, path: append(append([]PathElem{}, loc.path...), PathElem{i: i})}
			}
			it.render(fr, sv.f[i], f.Type(), floc, site, depth+1)
		}
	case *types.Slice:
		s := v.(*SliceV)
		if s.base == nil {
			return
		}
		n := it.sliceLen(s)
		if it.ex.branch(it.tt.Ult(it.tt.Const(64, 4), n), false) {
			return // more than 4 elements: only the count is printed
		}
		cnt := int(it.ex.concretize(n))
		if _, isByte := u.Elem().Underlying().(*types.Basic); isByte {
			return
		}
		for k := 0; k < cnt; k++ {
			ep := it.elemPtr(s.base, it.tt.Add(s.off, it.tt.Const(64, uint64(k))))
			it.render(fr, it.load(fr, ep), u.Elem(), ep, site, depth+1)
		}
	}
}
