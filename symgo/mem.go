package main

import (
	"fmt"
	"go/types"
	"strconv"
	"strings"
	"unicode/utf8"

	"golang.org/x/tools/go/ssa"
)

type mergeFail struct{}

// symbolic indexes whose syntactic range spans more than this many elements
// are concretised by forking instead of building an ite chain
const symIdxChain = 96

// merge builds ite(c, a, b) structurally.
func (it *Interp) merge(c *Term, a, b Value) Value {
	if c.IsTrue() {
		return a
	}
	if c.IsFalse() {
		return b
	}
	switch x := a.(type) {
	case *Term:
		return it.tt.Ite(c, x, b.(*Term))
	case *StructV:
		y := b.(*StructV)
		n := &StructV{f: make([]Value, len(x.f))}
		for i := range x.f {
			n.f[i] = it.merge(c, x.f[i], y.f[i])
		}
		return n
	case *ArrayV:
		y := b.(*ArrayV)
		if x.dense == nil || y.dense == nil {
			panic(mergeFail{})
		}
		n := &ArrayV{n: x.n, dense: make([]Value, x.n)}
		for i := range x.dense {
			n.dense[i] = it.merge(c, x.dense[i], y.dense[i])
		}
		return n
	case *PtrV:
		y := b.(*PtrV)
		if x.isNil() && y.isNil() {
			return x
		}
		if !x.isNil() && !y.isNil() && x.obj == y.obj && len(x.path) == len(y.path) {
			same := true
			for i := range x.path {
				if x.path[i] != y.path[i] {
					same = false
				}
			}
			if same {
				return x
			}
		}
	case *SliceV:
		y := b.(*SliceV)
		if x.base == nil && y.base == nil {
			return x
		}
		if x.base != nil && y.base != nil && x.base.obj == y.base.obj && len(x.base.path) == len(y.base.path) {
			same := true
			for i := range x.base.path {
				if x.base.path[i] != y.base.path[i] {
					same = false
				}
			}
			if same {
				return &SliceV{base: x.base, off: it.tt.Ite(c, x.off, y.off), len: it.tt.Ite(c, x.len, y.len), cap: it.tt.Ite(c, x.cap, y.cap)}
			}
		}
	case *StrV:
		y := b.(*StrV)
		if !x.opaque && !y.opaque {
			if x.b == nil && y.b == nil && x.s == y.s {
				return x
			}
			xb, yb := it.strBytes(x), it.strBytes(y)
			if len(xb) == len(yb) {
				out := make([]*Term, len(xb))
				for i := range xb {
					out[i] = it.tt.Ite(c, xb[i], yb[i])
				}
				return it.mkStr(out)
			}
		}
	case *IfaceV:
		y := b.(*IfaceV)
		if x.t == nil && y.t == nil {
			return x
		}
		if x.t != nil && y.t != nil && types.Identical(x.t, y.t) {
			return &IfaceV{t: x.t, v: it.merge(c, x.v, y.v)}
		}
	case *FuncV:
		y := b.(*FuncV)
		if x.fn == y.fn && x.builtin == y.builtin && len(x.env) == 0 && len(y.env) == 0 {
			return x
		}
	case *MapV:
		if x.obj == b.(*MapV).obj {
			return x
		}
	case *ChanV:
		if x.obj == b.(*ChanV).obj {
			return x
		}
	case *FloatV:
		if x.f == b.(*FloatV).f {
			return x
		}
	case *OpaqueV:
		return x
	}
	panic(mergeFail{})
}

func idxRange(t *Term, n int) (int, int) {
	lo, hi := t.lo, t.hi
	if hi >= uint64(n) {
		hi = uint64(n) - 1
	}
	if lo > hi {
		lo = hi
	}
	return int(lo), int(hi)
}

// nav reads the value at path under v.
func (it *Interp) nav(v Value, path []PathElem) Value {
	for len(path) > 0 {
		pe := path[0]
		switch c := v.(type) {
		case *StructV:
			v = c.f[pe.i]
		case *ArrayV:
			if pe.t == nil {
				if pe.i < 0 || pe.i >= c.n {
					panic(fmt.Sprintf("nav: index %d out of array[%d]", pe.i, c.n))
				}
				v = c.get(pe.i)
			} else {
				return it.navSym(c, pe.t, path[1:])
			}
		case *OpaqueV:
			return c
		default:
			panic(fmt.Sprintf("nav into %T", v))
		}
		path = path[1:]
	}
	return v
}

func (it *Interp) navSym(c *ArrayV, t *Term, rest []PathElem) (res Value) {
	if c.n == 0 {
		panic("navSym on empty array")
	}
	try := func() (r Value, ok bool) {
		defer func() {
			if e := recover(); e != nil {
				if _, is := e.(mergeFail); is {
					ok = false
					return
				}
				panic(e)
			}
		}()
		lo, hi := idxRange(t, c.n)
		if c.dense == nil {
			// sparse: chain over explicit entries in range, default otherwise
			r = it.nav(c.def, rest)
			for k, e := range c.sparse {
				if k >= lo && k <= hi {
					r = it.merge(it.tt.Eq(t, it.tt.Const(64, uint64(k))), it.nav(e, rest), r)
				}
			}
			return r, true
		}
		if hi-lo > symIdxChain {
			return nil, false
		}
		r = it.nav(c.dense[hi], rest)
		for k := hi - 1; k >= lo; k-- {
			r = it.merge(it.tt.Eq(t, it.tt.Const(64, uint64(k))), it.nav(c.dense[k], rest), r)
		}
		return r, true
	}
	if r, ok := try(); ok {
		return r
	}
	k := int(it.ex.concretize(t))
	return it.nav(c.get(k), rest)
}

// navStore writes val at path under the mutable container v.
func (it *Interp) navStore(v Value, path []PathElem, val Value, guard *Term) {
	pe := path[0]
	last := len(path) == 1
	put := func(old Value) Value {
		if guard == nil {
			return val
		}
		return it.merge(guard, val, old)
	}
	switch c := v.(type) {
	case *StructV:
		if last {
			c.f[pe.i] = put(c.f[pe.i])
		} else {
			it.navStore(c.f[pe.i], path[1:], val, guard)
		}
	case *ArrayV:
		if pe.t == nil {
			if last {
				c.set(pe.i, put(c.get(pe.i)))
			} else {
				e := c.get(pe.i)
				if c.dense == nil {
					if _, ok := c.sparse[pe.i]; !ok {
						e = cloneValue(e)
						c.sparse[pe.i] = e
					}
				}
				it.navStore(e, path[1:], val, guard)
			}
			return
		}
		lo, hi := idxRange(pe.t, c.n)
		if c.dense == nil || hi-lo > symIdxChain {
			k := int(it.ex.concretize(pe.t))
			np := append([]PathElem{{i: k}}, path[1:]...)
			it.navStore(v, np, val, guard)
			return
		}
		for k := lo; k <= hi; k++ {
			g := it.tt.Eq(pe.t, it.tt.Const(64, uint64(k)))
			if guard != nil {
				g = it.tt.BAnd(guard, g)
			}
			if g.IsFalse() {
				continue
			}
			if last {
				c.dense[k] = it.mergeOrFork(g, val, c.dense[k])
			} else {
				it.navStore(c.dense[k], path[1:], val, g)
			}
		}
	default:
		panic(fmt.Sprintf("navStore into %T", v))
	}
}

func (it *Interp) mergeOrFork(g *Term, a, b Value) (res Value) {
	defer func() {
		if e := recover(); e != nil {
			if _, is := e.(mergeFail); is {
				if it.ex.branch(g, true) {
					res = a
				} else {
					res = b
				}
				return
			}
			panic(e)
		}
	}()
	return it.merge(g, a, b)
}

func (it *Interp) load(fr *frame, p *PtrV) Value {
	root := it.rootR(p.obj)
	v := it.nav(root, p.path)
	if needsClone(v) {
		return cloneValue(v)
	}
	return v
}

func (it *Interp) store(fr *frame, p *PtrV, val Value) {
	if p.isNil() {
		it.rtPanic(fr, "nil", "invalid memory address or nil pointer dereference")
	}
	if p.obj.frozen {
		it.unsupported("store through a slice-to-array-pointer conversion")
	}
	if p.obj.nowrite {
		it.ex.report("barrier", it.site(fr.cur), "store into memory shared with concurrent readers of the packet")
		if n := len(it.ex.Violations); n > 0 && it.ex.Violations[n-1].Kind == "barrier" {
			it.ex.Violations[n-1].Key = "barrier|" + fr.cur.Parent().String() + "|" + it.srcLine(fr.cur)
		}
	}
	if p.obj.input && it.barrier {
		it.ex.report("barrier", it.site(fr.cur), "store into the caller's input buffer")
	}
	if needsClone(val) {
		val = cloneValue(val)
	}
	if len(p.path) == 0 {
		it.setRoot(p.obj, val)
		return
	}
	root := it.rootW(p.obj)
	it.navStore(root, p.path, val, nil)
}

func (it *Interp) toIndex(v Value, t types.Type) *Term {
	x := v.(*Term)
	if x.w == 64 {
		return x
	}
	if isSigned(t) {
		return it.tt.SExt(x, 64)
	}
	return it.tt.ZExt(x, 64)
}

func (it *Interp) elemPtr(base *PtrV, idx *Term) *PtrV {
	np := &PtrV{obj: base.obj, path: make([]PathElem, len(base.path)+1)}
	copy(np.path, base.path)
	if idx.IsConst() {
		np.path[len(base.path)] = PathElem{i: int(idx.k)}
	} else {
		np.path[len(base.path)] = PathElem{t: idx}
	}
	return np
}

func (it *Interp) boundsCheck(fr *frame, idx, n *Term, what string) {
	fail := it.tt.BNot(it.tt.Ult(idx, n))
	if fail.IsFalse() {
		return
	}
	if it.ex.branch(fail, false) {
		it.rtPanic(fr, "index", what)
	}
}

func (it *Interp) indexAddr(fr *frame, in *ssa.IndexAddr) Value {
	x := fr.get(in.X)
	idx := it.toIndex(fr.get(in.Index), in.Index.Type())
	switch s := x.(type) {
	case *SliceV:
		ln := s.len
		if s.base == nil {
			ln = it.tt.Const(64, 0)
		}
		it.boundsCheck(fr, idx, ln, "index out of range")
		return it.elemPtr(s.base, it.tt.Add(s.off, idx))
	case *PtrV:
		if s.isNil() {
			it.rtPanic(fr, "nil", "invalid memory address or nil pointer dereference")
		}
		at := in.X.Type().Underlying().(*types.Pointer).Elem().Underlying().(*types.Array)
		it.boundsCheck(fr, idx, it.tt.Const(64, uint64(at.Len())), "index out of range")
		return it.elemPtr(s, idx)
	}
	it.unsupported("IndexAddr on %T", x)
	return nil
}

func (it *Interp) indexValue(fr *frame, in *ssa.Index) Value {
	x := fr.get(in.X)
	idx := it.toIndex(fr.get(in.Index), in.Index.Type())
	switch a := x.(type) {
	case *ArrayV:
		it.boundsCheck(fr, idx, it.tt.Const(64, uint64(a.n)), "index out of range")
		if idx.IsConst() {
			return a.get(int(idx.k))
		}
		return it.navSym(a, idx, nil)
	case *StrV:
		return it.strIndex(fr, a, idx)
	}
	it.unsupported("Index on %T", x)
	return nil
}

func (it *Interp) strIndex(fr *frame, s *StrV, idx *Term) Value {
	b := it.strBytes(s)
	it.boundsCheck(fr, idx, it.tt.Const(64, uint64(len(b))), "index out of range")
	if idx.IsConst() {
		return b[idx.k]
	}
	lo, hi := idxRange(idx, len(b))
	r := b[hi]
	for k := hi - 1; k >= lo; k-- {
		r = it.tt.Ite(it.tt.Eq(idx, it.tt.Const(64, uint64(k))), b[k], r)
	}
	return r
}

func (it *Interp) sliceOp(fr *frame, in *ssa.Slice) Value {
	tt := it.tt
	x := fr.get(in.X)
	var lo, hi, mx *Term
	if in.Low != nil {
		lo = it.toIndex(fr.get(in.Low), in.Low.Type())
	} else {
		lo = tt.Const(64, 0)
	}
	if in.High != nil {
		hi = it.toIndex(fr.get(in.High), in.High.Type())
	}
	if in.Max != nil {
		mx = it.toIndex(fr.get(in.Max), in.Max.Type())
	}
	switch s := x.(type) {
	case *StrV:
		n := it.strLen(s)
		if hi == nil {
			hi = tt.Const(64, uint64(n))
		}
		fail := tt.BOr(tt.Ult(tt.Const(64, uint64(n)), hi), tt.Ult(hi, lo))
		if it.ex.branch(fail, false) {
			it.rtPanic(fr, "slice", "slice bounds out of range")
		}
		l, h := int(it.ex.concretize(lo)), int(it.ex.concretize(hi))
		if s.b != nil {
			return it.mkStr(s.b[l:h])
		}
		return &StrV{s: s.s[l:h]}
	case *SliceV:
		ln, cp, off := s.len, s.cap, s.off
		if s.base == nil {
			ln, cp, off = tt.Const(64, 0), tt.Const(64, 0), tt.Const(64, 0)
		}
		if hi == nil {
			hi = ln
		}
		bound := cp
		if mx != nil {
			bound = mx
		}
		fail := tt.BOr(tt.Ult(bound, hi), tt.Ult(hi, lo))
		if mx != nil {
			fail = tt.BOr(fail, tt.Ult(cp, mx))
		}
		if it.ex.branch(fail, false) {
			it.rtPanic(fr, "slice", "slice bounds out of range")
		}
		if s.base == nil {
			return &SliceV{}
		}
		return &SliceV{base: s.base, off: tt.Add(off, lo), len: tt.Sub(hi, lo), cap: tt.Sub(bound, lo)}
	case *PtrV:
		if s.isNil() {
			it.rtPanic(fr, "nil", "invalid memory address or nil pointer dereference")
		}
		at := in.X.Type().Underlying().(*types.Pointer).Elem().Underlying().(*types.Array)
		n := tt.Const(64, uint64(at.Len()))
		if hi == nil {
			hi = n
		}
		bound := n
		if mx != nil {
			bound = mx
		}
		fail := tt.BOr(tt.Ult(bound, hi), tt.Ult(hi, lo))
		if mx != nil {
			fail = tt.BOr(fail, tt.Ult(n, mx))
		}
		if it.ex.branch(fail, false) {
			it.rtPanic(fr, "slice", "slice bounds out of range")
		}
		return &SliceV{base: s, off: lo, len: tt.Sub(hi, lo), cap: tt.Sub(bound, lo)}
	}
	it.unsupported("Slice on %T", x)
	return nil
}

const allocLimit = 1 << 16

// sizeBound returns a concrete upper bound for a symbolic allocation size.
func (it *Interp) sizeBound(fr *frame, n *Term, what string) int {
	if n.IsConst() {
		if n.k > 1<<31 {
			it.rtPanic(fr, "makeslice", "makeslice: len out of range")
		}
		return int(n.k)
	}
	it.allocs = append(it.allocs, n)
	if n.hi <= 4096 {
		return int(n.hi)
	}
	// fork: sizes above the limit are reported as an (unbounded) allocation event
	big := it.tt.Ult(it.tt.Const(64, allocLimit), n)
	if it.ex.branch(big, false) {
		// prefer a witness with a really large size for native confirmation
		it.ex.preferModel(it.tt.Ult(it.tt.Const(64, 1<<31), n))
		it.ex.report("alloc", it.site(fr.cur), fmt.Sprintf("%s: allocation size controlled by input can exceed %d elements", what, allocLimit))
		panic(abortRun{"huge allocation"})
	}
	mx := it.ex.maxValue(n, allocLimit)
	return int(mx)
}

func (it *Interp) makeSlice(fr *frame, t types.Type, ln, cp *Term) Value {
	tt := it.tt
	neg := tt.BOr(tt.Slt(ln, tt.Const(64, 0)), tt.Slt(cp, ln))
	if it.ex.branch(neg, false) {
		it.rtPanic(fr, "makeslice", "makeslice: len out of range")
	}
	et := t.Underlying().(*types.Slice).Elem()
	n := it.sizeBound(fr, cp, "make")
	arr := newArray(n, func() Value { return it.zero(et) })
	o := it.newObject(arr, "make "+t.String())
	return &SliceV{base: &PtrV{obj: o}, off: tt.Const(64, 0), len: ln, cap: cp}
}

// loadElem / storeElem: element access without bounds checks (builtins).
func (it *Interp) loadElem(fr *frame, s *SliceV, idx *Term) Value {
	return it.load(fr, it.elemPtr(s.base, it.tt.Add(s.off, idx)))
}
func (it *Interp) storeElem(fr *frame, s *SliceV, idx *Term, v Value) {
	it.store(fr, it.elemPtr(s.base, it.tt.Add(s.off, idx)), v)
}

// ---- maps ----

func keyString(v Value, sb *strings.Builder) bool {
	switch x := v.(type) {
	case *Term:
		if !x.IsConst() {
			return false
		}
		sb.WriteString("i")
		sb.WriteString(strconv.FormatUint(x.k, 16))
		sb.WriteByte(';')
	case *StrV:
		if x.opaque || x.b != nil {
			return false
		}
		sb.WriteString("s")
		sb.WriteString(strconv.Quote(x.s))
		sb.WriteByte(';')
	case *StructV:
		sb.WriteByte('{')
		for _, f := range x.f {
			if !keyString(f, sb) {
				return false
			}
		}
		sb.WriteByte('}')
	case *ArrayV:
		sb.WriteByte('[')
		for i := 0; i < x.n; i++ {
			if !keyString(x.get(i), sb) {
				return false
			}
		}
		sb.WriteByte(']')
	case *IfaceV:
		if x.t == nil {
			sb.WriteString("nil;")
			return true
		}
		sb.WriteString("I")
		sb.WriteString(x.t.String())
		sb.WriteByte(':')
		return keyString(x.v, sb)
	case *PtrV:
		if x.isNil() {
			sb.WriteString("pnil;")
			return true
		}
		sb.WriteString("p")
		sb.WriteString(strconv.Itoa(x.obj.id))
		for _, pe := range x.path {
			if pe.t != nil {
				return false
			}
			sb.WriteByte('/')
			sb.WriteString(strconv.Itoa(pe.i))
		}
		sb.WriteByte(';')
	case *FloatV:
		sb.WriteString(fmt.Sprint("f", x.f, ";"))
	case *ChanV:
		if x.obj == nil {
			sb.WriteString("cnil;")
		} else {
			sb.WriteString("c" + strconv.Itoa(x.obj.id) + ";")
		}
	default:
		return false
	}
	return true
}

func (it *Interp) mapFind(m *MapData, key Value) int {
	var sb strings.Builder
	if keyString(key, &sb) && len(m.index) == len(m.keys) {
		if i, ok := m.index[sb.String()]; ok {
			return i
		}
		return -1
	}
	for i, k := range m.keys {
		c := it.eqValues(key, k)
		if c.IsFalse() {
			continue
		}
		if c.IsTrue() || it.ex.branch(c, true) {
			return i
		}
	}
	return -1
}

func (it *Interp) lookup(fr *frame, in *ssa.Lookup) Value {
	x := fr.get(in.X)
	if s, ok := x.(*StrV); ok {
		idx := it.toIndex(fr.get(in.Index), in.Index.Type())
		return it.strIndex(fr, s, idx)
	}
	m := x.(*MapV)
	vt := in.X.Type().Underlying().(*types.Map).Elem()
	key := fr.get(in.Index)
	var res Value
	found := false
	if m.obj != nil {
		md := it.rootR(m.obj).(*MapData)
		if i := it.mapFind(md, key); i >= 0 {
			res, found = md.vals[i], true
		}
	}
	if !found {
		res = it.zero(vt)
	}
	if in.CommaOk {
		return TupleV{res, it.tt.Bool(found)}
	}
	return res
}

func (it *Interp) mapUpdate(fr *frame, m *MapV, key, val Value) {
	md := it.rootW(m.obj).(*MapData)
	if i := it.mapFind(md, key); i >= 0 {
		md.vals[i] = val
		return
	}
	var sb strings.Builder
	if keyString(key, &sb) && len(md.index) == len(md.keys) {
		md.index[sb.String()] = len(md.keys)
	}
	md.keys = append(md.keys, key)
	md.vals = append(md.vals, val)
}

func (it *Interp) mapDelete(fr *frame, m *MapV, key Value) {
	if m.obj == nil {
		return
	}
	md := it.rootW(m.obj).(*MapData)
	i := it.mapFind(md, key)
	if i < 0 {
		return
	}
	full := len(md.index) == len(md.keys)
	md.keys = append(md.keys[:i:i], md.keys[i+1:]...)
	md.vals = append(md.vals[:i:i], md.vals[i+1:]...)
	md.index = map[string]int{}
	if full {
		for j, k := range md.keys {
			var sb strings.Builder
			if keyString(k, &sb) {
				md.index[sb.String()] = j
			}
		}
	}
}

type iterV struct {
	m    *MapV
	keys []Value
	str  *StrV
	pos  int
}

func (it *Interp) rangeInit(fr *frame, in *ssa.Range) Value {
	switch x := fr.get(in.X).(type) {
	case *MapV:
		iv := &iterV{m: x}
		if x.obj != nil {
			md := it.rootR(x.obj).(*MapData)
			iv.keys = append([]Value(nil), md.keys...)
		}
		return iv
	case *StrV:
		if x.opaque {
			it.unsupported("range over opaque string")
		}
		return &iterV{str: x}
	}
	it.unsupported("range over %T", fr.get(in.X))
	return nil
}

func (it *Interp) rangeNext(fr *frame, in *ssa.Next) Value {
	iv := fr.get(in.Iter).(*iterV)
	tt := it.tt
	if in.IsString && iv.str.b != nil {
		if iv.pos >= len(iv.str.b) {
			return TupleV{tt.fls, tt.Const(64, 0), tt.Const(32, 0)}
		}
		b := iv.str.b[iv.pos]
		if !it.ex.branch(tt.Ult(b, tt.Const(8, 0x80)), true) {
			it.unsupported("range over symbolic string with non-ASCII byte")
		}
		p := iv.pos
		iv.pos++
		return TupleV{tt.tru, tt.Const(64, uint64(p)), tt.ZExt(b, 32)}
	}
	if in.IsString {
		if iv.pos >= len(iv.str.s) {
			return TupleV{tt.fls, tt.Const(64, 0), tt.Const(32, 0)}
		}
		r, sz := utf8.DecodeRuneInString(iv.str.s[iv.pos:])
		p := iv.pos
		iv.pos += sz
		return TupleV{tt.tru, tt.Const(64, uint64(p)), tt.Const(32, uint64(r))}
	}
	tup := in.Type().(*types.Tuple)
	for iv.pos < len(iv.keys) {
		k := iv.keys[iv.pos]
		iv.pos++
		md := it.rootR(iv.m.obj).(*MapData)
		if i := it.mapFind(md, k); i >= 0 {
			return TupleV{tt.tru, k, md.vals[i]}
		}
	}
	return TupleV{tt.fls, it.zero(tup.At(1).Type()), it.zero(tup.At(2).Type())}
}
