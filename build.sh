#!/bin/sh
# builds /verif/bin/symgo offline
set -e
cd /verif/symgo
export PATH=/opt/veriftools/go1.26.8/bin:$PATH GOTOOLCHAIN=local GOFLAGS=-mod=mod GOPROXY=off GOSUMDB=off
mkdir -p /verif/bin
go build -o /verif/bin/symgo .
