#!/usr/bin/env python3
"""Maintenance tool (never run by a check): appends the natively confirmed new
violations of the last run of a property to known_findings.json as status=known.
usage: tools/record_findings.py <PID> <tier> [regex-on-key]"""
import json, os, re, sys
V = os.path.dirname(os.path.dirname(os.path.abspath(__file__)))
pid, tier = sys.argv[1], sys.argv[2]
rx = re.compile(sys.argv[3]) if len(sys.argv) > 3 else None
conf = json.load(open(os.path.join(V, "work", "%s-%s" % (pid, tier), "confirmed_new.json")))
kf = json.load(open(os.path.join(V, "known_findings.json")))
have = {(f["property"], f["key"]) for f in kf["findings"]}
n = 0
for c in conf:
    if rx and not rx.search(c["key"]):
        continue
    if (pid, c["key"]) in have:
        continue
    what = "%s %s: %s at %s" % (c["unit"].split("@")[0], c["kind"], c["msg"], c["site"])
    try:
        v = json.load(open(os.path.join(c["replay"], "violation.json")))
        inp = v.get("inputs", {})
        arr = sorted((int(k[3:-1]), x) for k, x in inp.items() if k.startswith("in[") and k.endswith("]"))
        if arr:
            buf = bytearray(arr[-1][0] + 1)
            for i, x in arr:
                buf[i] = x
            what += "; witness input buffer: %s (length variable n=%s above its lower bound)" % (bytes(buf).hex(), inp.get("n"))
        else:
            nz = {k: x for k, x in inp.items() if x}
            what += "; witness: %s" % json.dumps(dict(list(nz.items())[:12]))
    except Exception:
        pass
    kf["findings"].append({"property": pid, "status": "known", "key": c["key"], "what": what})
    n += 1
json.dump(kf, open(os.path.join(V, "known_findings.json"), "w"), indent=1)
print("recorded", n)
