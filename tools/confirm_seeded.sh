#!/bin/bash
# usage: confirm_seeded.sh <PID> <srcdir> : confirms a seeded change in a scratch worktree and stores it under /verif/seeded/<PID>/
export PATH=/opt/veriftools/go1.26.8/bin:$PATH GOTOOLCHAIN=local GOFLAGS=-mod=mod GOPROXY=off GOSUMDB=off
p=$1; src=$2
d=$(head -1 $src/demo_test.go | sed -n 's|^// copy to: *||p' | sed 's|/*$||')
[ -z "$d" ] && d=$(python3 -c "import json;print(json.load(open('$src/meta.json')).get('demo_dir','.'))")
[ "$d" = "" ] && d=.
scr=/tmp/scr_$p
git -C /repo worktree add -q --detach $scr HEAD || exit 1
cd $scr
cp $src/demo_test.go $d/zz_seeded_demo_test.go
o=$(go test -vet=off -count=1 ./$d/ 2>&1 | grep -c "^--- FAIL")
git apply $src/patch.diff || { echo "$p APPLY-FAILED"; cd /; git -C /repo worktree remove --force $scr; exit 1; }
go build ./... 2>&1 | grep -v "pfring\|pf_ring\|compilation terminated\|^ *|\|^#" | head -3
m=$(go test -vet=off -count=1 ./$d/ 2>&1 | grep -c "^--- FAIL")
rm $d/zz_seeded_demo_test.go
s=$(go test -vet=off -count=1 ./... 2>&1 | grep "^--- FAIL" | grep -v "EthernetHandle" | head -3 | tr '\n' ' ')
cd /; git -C /repo worktree remove --force $scr
mkdir -p /verif/seeded/$p && cp $src/patch.diff $src/demo_test.go $src/meta.json /verif/seeded/$p/
echo "$p demo_dir=$d demo_failures_on_original=$o demo_failures_with_patch=$m other_suite_failures=[$s]"
