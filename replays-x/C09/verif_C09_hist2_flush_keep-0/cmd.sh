#!/bin/sh
export PATH=/opt/veriftools/go1.26.8/bin:$PATH GOTOOLCHAIN=local GOFLAGS=-mod=mod GOPROXY=off GOSUMDB=off
cd /repo && VERIF_REPLAY_PARAMS='' VERIF_REPLAY_UNIT=verif_C09_hist2_flush_keep VERIF_REPLAY_INPUTS=/verif/replays-x/C09/verif_C09_hist2_flush_keep-0/inputs.json go test -vet=off -count=1 -timeout 30s -overlay /verif/replays-x/C09/verif_C09_hist2_flush_keep-0/overlay.json -run '^TestVerifReplay$' -v ./reassembly
