package reassembly

import (
	"fmt"
	"os"
	rtdebug "runtime/debug"
	"testing"
)

var verifUnits = map[string]func(){
	"verif_C09_seq_lemma": verif_C09_seq_lemma,
	"verif_C09_hist2": verif_C09_hist2,
	"verif_C09_hist2_keep": verif_C09_hist2_keep,
	"verif_C09_hist3": verif_C09_hist3,
	"verif_C09_hist2_flush": verif_C09_hist2_flush,
	"verif_C09_hist3_flush": verif_C09_hist3_flush,
	"verif_C09_hist2_flush_keep": verif_C09_hist2_flush_keep,
}

func TestVerifReplay(t *testing.T) {
	defer func() {
		if r := recover(); r != nil {
			fmt.Printf("REPLAY-PANIC: %v\n", r)
			rtdebug.PrintStack()
			return
		}
	}()
	verifUnits[os.Getenv("VERIF_REPLAY_UNIT")]()
	fmt.Println("REPLAY-NO-VIOLATION")
}
