package reassembly

import (
	"time"

	"github.com/gopacket/gopacket"
	"github.com/gopacket/gopacket/layers"
)

// C09: reassembly delivers bytes in order, exactly once, gaps announced.

func verif_C09_seq_lemma() {
	s := Sequence(verifU32("s"))
	t := Sequence(verifU32("t"))
	d := int32(uint32(t) - uint32(s)) // true modular distance, signed
	verifAssume(verifAnd(d > -(1<<30), d < 1<<30))
	verifAssert(s.Difference(t) == int(d), "Difference is the signed distance modulo 2^32")
	n := verifInt("n", 0, 1<<20)
	verifAssert(s.Add(n).Difference(s) == -n, "Add then Difference")
	verifAssert(s.Add(n) == Sequence(uint32(s)+uint32(n)), "Add wraps modulo 2^32")
	verifReached("lemma")
}

type c09Chunk struct {
	b          []byte
	saved      int
	skip       int
	start, end bool
}

type c09Stream struct {
	chunks   []c09Chunk
	complete int
	late     bool
	keep     bool
}

func (s *c09Stream) Accept(tcp *layers.TCP, ci gopacket.CaptureInfo, dir TCPFlowDirection, nextSeq Sequence, start *bool, ac AssemblerContext) bool {
	return true
}

func (s *c09Stream) ReassembledSG(sg ScatterGather, ac AssemblerContext) {
	if s.complete > 0 {
		s.late = true
	}
	total, saved := sg.Lengths()
	_, start, end, skip := sg.Info()
	b := append([]byte(nil), sg.Fetch(total)...)
	s.chunks = append(s.chunks, c09Chunk{b: b, saved: saved, skip: skip, start: start, end: end})
	if s.keep && total > 0 {
		sg.KeepFrom(total - 1) // ask to see the last byte again
	}
}

func (s *c09Stream) ReassemblyComplete(ac AssemblerContext) bool {
	s.complete++
	return true
}

type c09Factory struct {
	streams []*c09Stream
	keep    bool
}

func (f *c09Factory) New(n, t gopacket.Flow, tcp *layers.TCP, ac AssemblerContext) Stream {
	s := &c09Stream{keep: f.keep}
	f.streams = append(f.streams, s)
	return s
}

type c09Ctx struct{ ci gopacket.CaptureInfo }

func (c *c09Ctx) GetCaptureInfo() gopacket.CaptureInfo { return c.ci }

var c09Net = gopacket.NewFlow(layers.EndpointIPv4, []byte{1, 2, 3, 4}, []byte{5, 6, 7, 8})

const c09W = 8

// segment offsets range over 0..c09MaxO and lengths over c09MinL..3
var c09MaxO, c09MinL = c09W - 1, 0

func c09History(k int, flushes bool, keep bool) {
	f := &c09Factory{keep: keep}
	pool := NewStreamPool(f)
	a := NewAssembler(pool)
	S := verifBytes("S", c09W+3)
	isn := verifU32("isn")
	ts := time.Unix(1000, 0)
	ctx := &c09Ctx{ci: gopacket.CaptureInfo{Timestamp: ts}}
	a.AssembleWithContext(c09Net, &layers.TCP{Seq: isn, SYN: true}, ctx)
	arrived := make([]bool, c09W+3)
	flushed := false
	midFlush := false // a flush happened before all segments had arrived
	delivered := make([]bool, c09W+3)
	for i := 0; i < k; i++ {
		o := verifInt("o", 0, c09MaxO)
		l := verifInt("l", c09MinL, 3)
		tcp := &layers.TCP{Seq: isn + 1 + uint32(o), ACK: true}
		tcp.Payload = S[o : o+l]
		for j := 0; j < c09W+3; j++ {
			arrived[j] = verifOr(arrived[j], verifAnd(j >= o, j < o+l))
		}
		a.AssembleWithContext(c09Net, tcp, ctx)
		if flushes && verifChoose(2) == 1 {
			a.FlushWithOptions(FlushOptions{T: ts.Add(time.Second)})
			flushed = true
			midFlush = true
		}
	}
	if flushes {
		a.FlushAll()
		flushed = true
	}
	verifAssert(len(f.streams) == 1, "one stream for the connection")
	st := f.streams[0]
	verifAssert(!st.late, "no data after completion")
	pos := 0
	kept := 0 // number of bytes before pos that the stream asked to keep
	for ci, c := range st.chunks {
		if ci == 0 {
			verifAssert(c.start, "first delivery marks the start")
		}
		if c.skip != 0 {
			// the statement says kept bytes are presented again in front of the
			// next new data; across a skipped gap the library drops them
			// ("non-continuous saved: drop them" in addPending)
			verifAssert(c.saved == kept, "kept bytes are presented again in front of data that follows a skipped gap")
		} else {
			verifAssert(c.saved == kept, "exactly the kept bytes are presented again")
		}
		for j := 0; j < c.saved; j++ {
			verifAssert(c.b[j] == S[pos-c.saved+j], "kept bytes are presented again unchanged, directly in front of new data")
		}
		verifAssert(c.skip != -1, "skip is never unknown once the start was seen")
		if c.skip != 0 {
			verifAssert(flushed, "gaps are skipped only on flush")
			verifAssert(c.skip > 0, "skip is a positive byte count")
			if !midFlush {
				// every segment had arrived when the gap was skipped: the
				// announced gap consists of bytes that never arrived
				ok := true
				for j := 0; j < c09W+3; j++ {
					ok = verifAnd(ok, verifImplies(verifAnd(j >= pos, j < pos+c.skip), !arrived[j]))
				}
				verifAssert(ok, "a skip announces only bytes that never arrived")
			}
			pos += c.skip
		}
		nw := c.b[c.saved:]
		verifAssert(pos+len(nw) <= c09W+3, "delivered bytes lie inside the stream")
		for j := range nw {
			verifAssert(nw[j] == S[pos+j], "new bytes are the sender's bytes at that position")
		}
		for j := 0; j < c09W+3; j++ {
			delivered[j] = verifOr(delivered[j], verifAnd(j >= pos, j < pos+len(nw)))
		}
		pos += len(nw)
		kept = 0
		if keep && len(c.b) > 0 {
			kept = 1
		}
	}
	contig := 0
	for j := 0; j < c09W+3; j++ {
		contig = verifIte(verifAnd(contig == j, arrived[j]), j+1, contig)
	}
	verifAssert(pos >= contig, "every contiguously arrived byte was delivered")
	if flushes && !midFlush {
		ok := true
		for j := 0; j < c09W+3; j++ {
			ok = verifAnd(ok, verifImplies(arrived[j], delivered[j]))
		}
		verifAssert(ok, "after flush-all every byte that arrived was delivered")
	}
	verifReached("history")
}

func verif_C09_hist2()            { c09History(2, false, false) }
func verif_C09_hist2_keep()       { c09History(2, false, true) }
func verif_C09_hist3()            { c09History(3, false, false) }
func verif_C09_hist2_flush()      { c09History(2, true, false) }
func verif_C09_hist3_flush()      { c09History(3, true, true) }
func verif_C09_hist2_flush_keep() {
	c09MaxO, c09MinL = 5, 1 // offsets 0..5, non-empty segments: keeps the quick tier short
	c09History(2, true, true)
}
