package layers

import (
	"fmt"
	"os"
	rtdebug "runtime/debug"
	"testing"
)

var verifUnits = map[string]func(){
	"verif_C07_ser_AGUEVar0": verif_C07_ser_AGUEVar0,
	"verif_C07_ser_AGUEVar1": verif_C07_ser_AGUEVar1,
	"verif_C07_ser_APSP": verif_C07_ser_APSP,
	"verif_C07_ser_ARP": verif_C07_ser_ARP,
	"verif_C07_ser_ASF": verif_C07_ser_ASF,
	"verif_C07_ser_ASFPresencePong": verif_C07_ser_ASFPresencePong,
	"verif_C07_ser_BFD": verif_C07_ser_BFD,
	"verif_C07_ser_DHCPv4": verif_C07_ser_DHCPv4,
	"verif_C07_ser_DHCPv6": verif_C07_ser_DHCPv6,
	"verif_C07_ser_DNS": verif_C07_ser_DNS,
	"verif_C07_ser_Diameter": verif_C07_ser_Diameter,
	"verif_C07_ser_Dot11": verif_C07_ser_Dot11,
	"verif_C07_ser_Dot11InformationElement": verif_C07_ser_Dot11InformationElement,
	"verif_C07_ser_Dot11MgmtAssociationReq": verif_C07_ser_Dot11MgmtAssociationReq,
	"verif_C07_ser_Dot11MgmtAssociationResp": verif_C07_ser_Dot11MgmtAssociationResp,
	"verif_C07_ser_Dot11MgmtAuthentication": verif_C07_ser_Dot11MgmtAuthentication,
	"verif_C07_ser_Dot11MgmtBeacon": verif_C07_ser_Dot11MgmtBeacon,
	"verif_C07_ser_Dot11MgmtDeauthentication": verif_C07_ser_Dot11MgmtDeauthentication,
	"verif_C07_ser_Dot11MgmtDisassociation": verif_C07_ser_Dot11MgmtDisassociation,
	"verif_C07_ser_Dot11MgmtProbeResp": verif_C07_ser_Dot11MgmtProbeResp,
	"verif_C07_ser_Dot11MgmtReassociationReq": verif_C07_ser_Dot11MgmtReassociationReq,
	"verif_C07_ser_Dot1Q": verif_C07_ser_Dot1Q,
	"verif_C07_ser_EAP": verif_C07_ser_EAP,
	"verif_C07_ser_EAPOL": verif_C07_ser_EAPOL,
	"verif_C07_ser_EAPOLKey": verif_C07_ser_EAPOLKey,
	"verif_C07_ser_ERSPANII": verif_C07_ser_ERSPANII,
	"verif_C07_ser_Ethernet": verif_C07_ser_Ethernet,
	"verif_C07_ser_GRE": verif_C07_ser_GRE,
	"verif_C07_ser_GTPv1U": verif_C07_ser_GTPv1U,
	"verif_C07_ser_Geneve": verif_C07_ser_Geneve,
	"verif_C07_ser_ICMPv4": verif_C07_ser_ICMPv4,
	"verif_C07_ser_ICMPv6": verif_C07_ser_ICMPv6,
	"verif_C07_ser_ICMPv6Echo": verif_C07_ser_ICMPv6Echo,
	"verif_C07_ser_ICMPv6NeighborAdvertisement": verif_C07_ser_ICMPv6NeighborAdvertisement,
	"verif_C07_ser_ICMPv6NeighborSolicitation": verif_C07_ser_ICMPv6NeighborSolicitation,
	"verif_C07_ser_ICMPv6Redirect": verif_C07_ser_ICMPv6Redirect,
	"verif_C07_ser_ICMPv6RouterAdvertisement": verif_C07_ser_ICMPv6RouterAdvertisement,
	"verif_C07_ser_ICMPv6RouterSolicitation": verif_C07_ser_ICMPv6RouterSolicitation,
	"verif_C07_ser_IPv4": verif_C07_ser_IPv4,
	"verif_C07_ser_IPv6": verif_C07_ser_IPv6,
	"verif_C07_ser_IPv6Destination": verif_C07_ser_IPv6Destination,
	"verif_C07_ser_IPv6HopByHop": verif_C07_ser_IPv6HopByHop,
	"verif_C07_ser_LLC": verif_C07_ser_LLC,
	"verif_C07_ser_Loopback": verif_C07_ser_Loopback,
	"verif_C07_ser_MDP": verif_C07_ser_MDP,
	"verif_C07_ser_MLDv1Message": verif_C07_ser_MLDv1Message,
	"verif_C07_ser_MLDv1MulticastListenerDoneMessage": verif_C07_ser_MLDv1MulticastListenerDoneMessage,
	"verif_C07_ser_MLDv1MulticastListenerQueryMessage": verif_C07_ser_MLDv1MulticastListenerQueryMessage,
	"verif_C07_ser_MLDv1MulticastListenerReportMessage": verif_C07_ser_MLDv1MulticastListenerReportMessage,
	"verif_C07_ser_MLDv2MulticastListenerQueryMessage": verif_C07_ser_MLDv2MulticastListenerQueryMessage,
	"verif_C07_ser_MLDv2MulticastListenerReportMessage": verif_C07_ser_MLDv2MulticastListenerReportMessage,
	"verif_C07_ser_NTP": verif_C07_ser_NTP,
	"verif_C07_ser_RADIUS": verif_C07_ser_RADIUS,
	"verif_C07_ser_RMCP": verif_C07_ser_RMCP,
	"verif_C07_ser_RadioTap": verif_C07_ser_RadioTap,
	"verif_C07_ser_SCTP": verif_C07_ser_SCTP,
	"verif_C07_ser_SNAP": verif_C07_ser_SNAP,
	"verif_C07_ser_STP": verif_C07_ser_STP,
	"verif_C07_ser_TCP": verif_C07_ser_TCP,
	"verif_C07_ser_TLS": verif_C07_ser_TLS,
	"verif_C07_ser_UDP": verif_C07_ser_UDP,
	"verif_C07_ser_VXLAN": verif_C07_ser_VXLAN,
}

func TestVerifReplay(t *testing.T) {
	defer func() {
		if r := recover(); r != nil {
			fmt.Printf("REPLAY-PANIC: %v\n", r)
			rtdebug.PrintStack()
			return
		}
	}()
	verifUnits[os.Getenv("VERIF_REPLAY_UNIT")]()
	fmt.Println("REPLAY-NO-VIOLATION")
}
