package layers

import (
	"bytes"
	"net"

	"github.com/gopacket/gopacket"
)

var _ = bytes.Equal

type c06DF struct{ t bool }

func (d *c06DF) SetTruncated() { d.t = true }

var c06Net4 = &IPv4{Version: 4, IHL: 5, SrcIP: net.IP{10, 1, 2, 3}, DstIP: net.IP{10, 4, 5, 6}, Protocol: IPProtocolTCP}

// Ethernet.SerializeTo pads frames to the 60-byte minimum, as the protocol
// requires; a decoder cannot tell padding from payload
func c06EthernetPayload(got, want []byte) {
	verifAssert(len(got) >= len(want), "payload not shortened by the round trip")
	if len(got) >= len(want) {
		verifAssert(bytes.Equal(got[:len(want)], want), "original payload is a prefix after the round trip")
		for _, b := range got[len(want):] {
			verifAssert(b == 0, "the rest is zero padding")
		}
		verifAssert(len(got) == len(want) || len(got) <= 46, "padding only up to the minimum frame size")
	}
}

// IPv6 hop-by-hop / destination options: FixLengths re-computes the padding
// options (Pad1/PadN), so the lists are compared without padding options
func c06SameTLV(at []uint8, ad [][]byte, bt []uint8, bd [][]byte) {
	verifAssert(len(at) == len(bt), "same number of non-padding options after the round trip")
	for i := range at {
		if i < len(bt) {
			verifAssert(at[i] == bt[i], "same option types in the same order")
			verifAssert(bytes.Equal(ad[i], bd[i]), "same option data")
		}
	}
}

// dirty buffer: previously held other (symbolic) data and was cleared
func c06DirtyBuffer() gopacket.SerializeBuffer {
	b := gopacket.NewSerializeBuffer()
	g1, _ := b.PrependBytes(40)
	junk := verifBytes("junk", 40)
	copy(g1, junk)
	g2, _ := b.AppendBytes(24)
	junk2 := verifBytes("junk2", 24)
	copy(g2, junk2)
	b.Clear()
	return b
}

func verif_C07_ser_AGUEVar0() {
	in := verifBytes("in", 14)
	n := verifInt("n", 0, 14)
	var l AGUEVar0
	if err := l.DecodeFromBytes(in[:n], gopacket.NilDecodeFeedback); err != nil {
		verifReached("decode-err")
		return
	}
	verifReached("decoded")
	opts := gopacket.SerializeOptions{FixLengths: verifChoose(2) == 1, ComputeChecksums: false}
	pay := append([]byte(nil), l.LayerPayload()...)
	fresh := gopacket.NewSerializeBuffer()
	pb, _ := fresh.AppendBytes(len(pay))
	copy(pb, pay)
	err1 := l.SerializeTo(fresh, opts) // must not panic
	out1 := append([]byte(nil), fresh.Bytes()...)
	dirty := c06DirtyBuffer()
	pb2, _ := dirty.AppendBytes(len(pay))
	copy(pb2, pay)
	err2 := l.SerializeTo(dirty, opts)
	verifAssert((err1 == nil) == (err2 == nil), "same outcome on a fresh and on a dirty buffer")
	if err1 == nil && err2 == nil {
		verifAssert(bytes.Equal(out1, dirty.Bytes()), "same bytes on a fresh and on a previously used buffer")
		// writing the same layer again gives the same bytes
		again := gopacket.NewSerializeBufferExpectedSize(verifInt("hp", 0, 2), verifInt("ha", 0, 2))
		pb3, _ := again.AppendBytes(len(pay))
		copy(pb3, pay)
		err3 := l.SerializeTo(again, opts)
		verifAssert(err3 == nil, "repeated serialization succeeds")
		verifAssert(bytes.Equal(out1, again.Bytes()), "repeated serialization gives the same bytes")
	}
	verifReached("serialized")
}

func verif_C07_ser_AGUEVar1() {
	in := verifBytes("in", 14)
	n := verifInt("n", 0, 14)
	var l AGUEVar1
	if err := l.DecodeFromBytes(in[:n], gopacket.NilDecodeFeedback); err != nil {
		verifReached("decode-err")
		return
	}
	verifReached("decoded")
	opts := gopacket.SerializeOptions{FixLengths: verifChoose(2) == 1, ComputeChecksums: false}
	pay := append([]byte(nil), l.LayerPayload()...)
	fresh := gopacket.NewSerializeBuffer()
	pb, _ := fresh.AppendBytes(len(pay))
	copy(pb, pay)
	err1 := l.SerializeTo(fresh, opts) // must not panic
	out1 := append([]byte(nil), fresh.Bytes()...)
	dirty := c06DirtyBuffer()
	pb2, _ := dirty.AppendBytes(len(pay))
	copy(pb2, pay)
	err2 := l.SerializeTo(dirty, opts)
	verifAssert((err1 == nil) == (err2 == nil), "same outcome on a fresh and on a dirty buffer")
	if err1 == nil && err2 == nil {
		verifAssert(bytes.Equal(out1, dirty.Bytes()), "same bytes on a fresh and on a previously used buffer")
		// writing the same layer again gives the same bytes
		again := gopacket.NewSerializeBufferExpectedSize(verifInt("hp", 0, 2), verifInt("ha", 0, 2))
		pb3, _ := again.AppendBytes(len(pay))
		copy(pb3, pay)
		err3 := l.SerializeTo(again, opts)
		verifAssert(err3 == nil, "repeated serialization succeeds")
		verifAssert(bytes.Equal(out1, again.Bytes()), "repeated serialization gives the same bytes")
	}
	verifReached("serialized")
}

func verif_C07_ser_APSP() {
	in := verifBytes("in", 44)
	n := verifInt("n", 40, 44)
	var l APSP
	if err := l.DecodeFromBytes(in[:n], gopacket.NilDecodeFeedback); err != nil {
		verifReached("decode-err")
		return
	}
	verifReached("decoded")
	opts := gopacket.SerializeOptions{FixLengths: verifChoose(2) == 1, ComputeChecksums: false}
	pay := append([]byte(nil), l.LayerPayload()...)
	fresh := gopacket.NewSerializeBuffer()
	pb, _ := fresh.AppendBytes(len(pay))
	copy(pb, pay)
	err1 := l.SerializeTo(fresh, opts) // must not panic
	out1 := append([]byte(nil), fresh.Bytes()...)
	dirty := c06DirtyBuffer()
	pb2, _ := dirty.AppendBytes(len(pay))
	copy(pb2, pay)
	err2 := l.SerializeTo(dirty, opts)
	verifAssert((err1 == nil) == (err2 == nil), "same outcome on a fresh and on a dirty buffer")
	if err1 == nil && err2 == nil {
		verifAssert(bytes.Equal(out1, dirty.Bytes()), "same bytes on a fresh and on a previously used buffer")
		// writing the same layer again gives the same bytes
		again := gopacket.NewSerializeBufferExpectedSize(verifInt("hp", 0, 2), verifInt("ha", 0, 2))
		pb3, _ := again.AppendBytes(len(pay))
		copy(pb3, pay)
		err3 := l.SerializeTo(again, opts)
		verifAssert(err3 == nil, "repeated serialization succeeds")
		verifAssert(bytes.Equal(out1, again.Bytes()), "repeated serialization gives the same bytes")
	}
	verifReached("serialized")
}

func verif_C07_ser_ARP() {
	in := verifBytes("in", 14)
	n := verifInt("n", 0, 14)
	var l ARP
	in[4], in[5] = byte(verifChoose(4)), byte(verifChoose(4))
	if err := l.DecodeFromBytes(in[:n], gopacket.NilDecodeFeedback); err != nil {
		verifReached("decode-err")
		return
	}
	verifReached("decoded")
	opts := gopacket.SerializeOptions{FixLengths: verifChoose(2) == 1, ComputeChecksums: false}
	pay := append([]byte(nil), l.LayerPayload()...)
	fresh := gopacket.NewSerializeBuffer()
	pb, _ := fresh.AppendBytes(len(pay))
	copy(pb, pay)
	err1 := l.SerializeTo(fresh, opts) // must not panic
	out1 := append([]byte(nil), fresh.Bytes()...)
	dirty := c06DirtyBuffer()
	pb2, _ := dirty.AppendBytes(len(pay))
	copy(pb2, pay)
	err2 := l.SerializeTo(dirty, opts)
	verifAssert((err1 == nil) == (err2 == nil), "same outcome on a fresh and on a dirty buffer")
	if err1 == nil && err2 == nil {
		verifAssert(bytes.Equal(out1, dirty.Bytes()), "same bytes on a fresh and on a previously used buffer")
		// writing the same layer again gives the same bytes
		again := gopacket.NewSerializeBufferExpectedSize(verifInt("hp", 0, 2), verifInt("ha", 0, 2))
		pb3, _ := again.AppendBytes(len(pay))
		copy(pb3, pay)
		err3 := l.SerializeTo(again, opts)
		verifAssert(err3 == nil, "repeated serialization succeeds")
		verifAssert(bytes.Equal(out1, again.Bytes()), "repeated serialization gives the same bytes")
	}
	verifReached("serialized")
}

func verif_C07_ser_ASF() {
	in := verifBytes("in", 14)
	n := verifInt("n", 0, 14)
	var l ASF
	if err := l.DecodeFromBytes(in[:n], gopacket.NilDecodeFeedback); err != nil {
		verifReached("decode-err")
		return
	}
	verifReached("decoded")
	opts := gopacket.SerializeOptions{FixLengths: verifChoose(2) == 1, ComputeChecksums: false}
	pay := append([]byte(nil), l.LayerPayload()...)
	fresh := gopacket.NewSerializeBuffer()
	pb, _ := fresh.AppendBytes(len(pay))
	copy(pb, pay)
	err1 := l.SerializeTo(fresh, opts) // must not panic
	out1 := append([]byte(nil), fresh.Bytes()...)
	dirty := c06DirtyBuffer()
	pb2, _ := dirty.AppendBytes(len(pay))
	copy(pb2, pay)
	err2 := l.SerializeTo(dirty, opts)
	verifAssert((err1 == nil) == (err2 == nil), "same outcome on a fresh and on a dirty buffer")
	if err1 == nil && err2 == nil {
		verifAssert(bytes.Equal(out1, dirty.Bytes()), "same bytes on a fresh and on a previously used buffer")
		// writing the same layer again gives the same bytes
		again := gopacket.NewSerializeBufferExpectedSize(verifInt("hp", 0, 2), verifInt("ha", 0, 2))
		pb3, _ := again.AppendBytes(len(pay))
		copy(pb3, pay)
		err3 := l.SerializeTo(again, opts)
		verifAssert(err3 == nil, "repeated serialization succeeds")
		verifAssert(bytes.Equal(out1, again.Bytes()), "repeated serialization gives the same bytes")
	}
	verifReached("serialized")
}

func verif_C07_ser_ASFPresencePong() {
	in := verifBytes("in", 20)
	n := verifInt("n", 16, 20)
	var l ASFPresencePong
	if err := l.DecodeFromBytes(in[:n], gopacket.NilDecodeFeedback); err != nil {
		verifReached("decode-err")
		return
	}
	verifReached("decoded")
	opts := gopacket.SerializeOptions{FixLengths: verifChoose(2) == 1, ComputeChecksums: false}
	pay := append([]byte(nil), l.LayerPayload()...)
	fresh := gopacket.NewSerializeBuffer()
	pb, _ := fresh.AppendBytes(len(pay))
	copy(pb, pay)
	err1 := l.SerializeTo(fresh, opts) // must not panic
	out1 := append([]byte(nil), fresh.Bytes()...)
	dirty := c06DirtyBuffer()
	pb2, _ := dirty.AppendBytes(len(pay))
	copy(pb2, pay)
	err2 := l.SerializeTo(dirty, opts)
	verifAssert((err1 == nil) == (err2 == nil), "same outcome on a fresh and on a dirty buffer")
	if err1 == nil && err2 == nil {
		verifAssert(bytes.Equal(out1, dirty.Bytes()), "same bytes on a fresh and on a previously used buffer")
		// writing the same layer again gives the same bytes
		again := gopacket.NewSerializeBufferExpectedSize(verifInt("hp", 0, 2), verifInt("ha", 0, 2))
		pb3, _ := again.AppendBytes(len(pay))
		copy(pb3, pay)
		err3 := l.SerializeTo(again, opts)
		verifAssert(err3 == nil, "repeated serialization succeeds")
		verifAssert(bytes.Equal(out1, again.Bytes()), "repeated serialization gives the same bytes")
	}
	verifReached("serialized")
}

func verif_C07_ser_BFD() {
	in := verifBytes("in", 28)
	n := verifInt("n", 24, 28)
	var l BFD
	if err := l.DecodeFromBytes(in[:n], gopacket.NilDecodeFeedback); err != nil {
		verifReached("decode-err")
		return
	}
	verifReached("decoded")
	opts := gopacket.SerializeOptions{FixLengths: verifChoose(2) == 1, ComputeChecksums: false}
	pay := append([]byte(nil), l.LayerPayload()...)
	fresh := gopacket.NewSerializeBuffer()
	pb, _ := fresh.AppendBytes(len(pay))
	copy(pb, pay)
	err1 := l.SerializeTo(fresh, opts) // must not panic
	out1 := append([]byte(nil), fresh.Bytes()...)
	dirty := c06DirtyBuffer()
	pb2, _ := dirty.AppendBytes(len(pay))
	copy(pb2, pay)
	err2 := l.SerializeTo(dirty, opts)
	verifAssert((err1 == nil) == (err2 == nil), "same outcome on a fresh and on a dirty buffer")
	if err1 == nil && err2 == nil {
		verifAssert(bytes.Equal(out1, dirty.Bytes()), "same bytes on a fresh and on a previously used buffer")
		// writing the same layer again gives the same bytes
		again := gopacket.NewSerializeBufferExpectedSize(verifInt("hp", 0, 2), verifInt("ha", 0, 2))
		pb3, _ := again.AppendBytes(len(pay))
		copy(pb3, pay)
		err3 := l.SerializeTo(again, opts)
		verifAssert(err3 == nil, "repeated serialization succeeds")
		verifAssert(bytes.Equal(out1, again.Bytes()), "repeated serialization gives the same bytes")
	}
	verifReached("serialized")
}

func verif_C07_ser_DHCPv4() {
	in := verifBytes("in", 244)
	n := verifInt("n", 240, 244)
	var l DHCPv4
	if err := l.DecodeFromBytes(in[:n], gopacket.NilDecodeFeedback); err != nil {
		verifReached("decode-err")
		return
	}
	verifReached("decoded")
	opts := gopacket.SerializeOptions{FixLengths: verifChoose(2) == 1, ComputeChecksums: false}
	pay := append([]byte(nil), l.LayerPayload()...)
	fresh := gopacket.NewSerializeBuffer()
	pb, _ := fresh.AppendBytes(len(pay))
	copy(pb, pay)
	err1 := l.SerializeTo(fresh, opts) // must not panic
	out1 := append([]byte(nil), fresh.Bytes()...)
	dirty := c06DirtyBuffer()
	pb2, _ := dirty.AppendBytes(len(pay))
	copy(pb2, pay)
	err2 := l.SerializeTo(dirty, opts)
	verifAssert((err1 == nil) == (err2 == nil), "same outcome on a fresh and on a dirty buffer")
	if err1 == nil && err2 == nil {
		verifAssert(bytes.Equal(out1, dirty.Bytes()), "same bytes on a fresh and on a previously used buffer")
		// writing the same layer again gives the same bytes
		again := gopacket.NewSerializeBufferExpectedSize(verifInt("hp", 0, 2), verifInt("ha", 0, 2))
		pb3, _ := again.AppendBytes(len(pay))
		copy(pb3, pay)
		err3 := l.SerializeTo(again, opts)
		verifAssert(err3 == nil, "repeated serialization succeeds")
		verifAssert(bytes.Equal(out1, again.Bytes()), "repeated serialization gives the same bytes")
	}
	verifReached("serialized")
}

func verif_C07_ser_DHCPv6() {
	in := verifBytes("in", 14)
	n := verifInt("n", 0, 14)
	var l DHCPv6
	if err := l.DecodeFromBytes(in[:n], gopacket.NilDecodeFeedback); err != nil {
		verifReached("decode-err")
		return
	}
	verifReached("decoded")
	opts := gopacket.SerializeOptions{FixLengths: verifChoose(2) == 1, ComputeChecksums: false}
	pay := append([]byte(nil), l.LayerPayload()...)
	fresh := gopacket.NewSerializeBuffer()
	pb, _ := fresh.AppendBytes(len(pay))
	copy(pb, pay)
	err1 := l.SerializeTo(fresh, opts) // must not panic
	out1 := append([]byte(nil), fresh.Bytes()...)
	dirty := c06DirtyBuffer()
	pb2, _ := dirty.AppendBytes(len(pay))
	copy(pb2, pay)
	err2 := l.SerializeTo(dirty, opts)
	verifAssert((err1 == nil) == (err2 == nil), "same outcome on a fresh and on a dirty buffer")
	if err1 == nil && err2 == nil {
		verifAssert(bytes.Equal(out1, dirty.Bytes()), "same bytes on a fresh and on a previously used buffer")
		// writing the same layer again gives the same bytes
		again := gopacket.NewSerializeBufferExpectedSize(verifInt("hp", 0, 2), verifInt("ha", 0, 2))
		pb3, _ := again.AppendBytes(len(pay))
		copy(pb3, pay)
		err3 := l.SerializeTo(again, opts)
		verifAssert(err3 == nil, "repeated serialization succeeds")
		verifAssert(bytes.Equal(out1, again.Bytes()), "repeated serialization gives the same bytes")
	}
	verifReached("serialized")
}

func verif_C07_ser_DNS() {
	in := verifBytes("in", 14)
	n := verifInt("n", 0, 14)
	var l DNS
	if err := l.DecodeFromBytes(in[:n], gopacket.NilDecodeFeedback); err != nil {
		verifReached("decode-err")
		return
	}
	verifReached("decoded")
	opts := gopacket.SerializeOptions{FixLengths: verifChoose(2) == 1, ComputeChecksums: false}
	pay := append([]byte(nil), l.LayerPayload()...)
	fresh := gopacket.NewSerializeBuffer()
	pb, _ := fresh.AppendBytes(len(pay))
	copy(pb, pay)
	err1 := l.SerializeTo(fresh, opts) // must not panic
	out1 := append([]byte(nil), fresh.Bytes()...)
	dirty := c06DirtyBuffer()
	pb2, _ := dirty.AppendBytes(len(pay))
	copy(pb2, pay)
	err2 := l.SerializeTo(dirty, opts)
	verifAssert((err1 == nil) == (err2 == nil), "same outcome on a fresh and on a dirty buffer")
	if err1 == nil && err2 == nil {
		verifAssert(bytes.Equal(out1, dirty.Bytes()), "same bytes on a fresh and on a previously used buffer")
		// writing the same layer again gives the same bytes
		again := gopacket.NewSerializeBufferExpectedSize(verifInt("hp", 0, 2), verifInt("ha", 0, 2))
		pb3, _ := again.AppendBytes(len(pay))
		copy(pb3, pay)
		err3 := l.SerializeTo(again, opts)
		verifAssert(err3 == nil, "repeated serialization succeeds")
		verifAssert(bytes.Equal(out1, again.Bytes()), "repeated serialization gives the same bytes")
	}
	verifReached("serialized")
}

func verif_C07_ser_Diameter() {
	in := verifBytes("in", 24)
	n := verifInt("n", 20, 24)
	var l Diameter
	if err := l.DecodeFromBytes(in[:n], gopacket.NilDecodeFeedback); err != nil {
		verifReached("decode-err")
		return
	}
	verifReached("decoded")
	opts := gopacket.SerializeOptions{FixLengths: verifChoose(2) == 1, ComputeChecksums: false}
	pay := append([]byte(nil), l.LayerPayload()...)
	fresh := gopacket.NewSerializeBuffer()
	pb, _ := fresh.AppendBytes(len(pay))
	copy(pb, pay)
	err1 := l.SerializeTo(fresh, opts) // must not panic
	out1 := append([]byte(nil), fresh.Bytes()...)
	dirty := c06DirtyBuffer()
	pb2, _ := dirty.AppendBytes(len(pay))
	copy(pb2, pay)
	err2 := l.SerializeTo(dirty, opts)
	verifAssert((err1 == nil) == (err2 == nil), "same outcome on a fresh and on a dirty buffer")
	if err1 == nil && err2 == nil {
		verifAssert(bytes.Equal(out1, dirty.Bytes()), "same bytes on a fresh and on a previously used buffer")
		// writing the same layer again gives the same bytes
		again := gopacket.NewSerializeBufferExpectedSize(verifInt("hp", 0, 2), verifInt("ha", 0, 2))
		pb3, _ := again.AppendBytes(len(pay))
		copy(pb3, pay)
		err3 := l.SerializeTo(again, opts)
		verifAssert(err3 == nil, "repeated serialization succeeds")
		verifAssert(bytes.Equal(out1, again.Bytes()), "repeated serialization gives the same bytes")
	}
	verifReached("serialized")
}

func verif_C07_ser_Dot11() {
	in := verifBytes("in", 14)
	n := verifInt("n", 0, 14)
	var l Dot11
	if err := l.DecodeFromBytes(in[:n], gopacket.NilDecodeFeedback); err != nil {
		verifReached("decode-err")
		return
	}
	verifReached("decoded")
	opts := gopacket.SerializeOptions{FixLengths: verifChoose(2) == 1, ComputeChecksums: false}
	pay := append([]byte(nil), l.LayerPayload()...)
	fresh := gopacket.NewSerializeBuffer()
	pb, _ := fresh.AppendBytes(len(pay))
	copy(pb, pay)
	err1 := l.SerializeTo(fresh, opts) // must not panic
	out1 := append([]byte(nil), fresh.Bytes()...)
	dirty := c06DirtyBuffer()
	pb2, _ := dirty.AppendBytes(len(pay))
	copy(pb2, pay)
	err2 := l.SerializeTo(dirty, opts)
	verifAssert((err1 == nil) == (err2 == nil), "same outcome on a fresh and on a dirty buffer")
	if err1 == nil && err2 == nil {
		verifAssert(bytes.Equal(out1, dirty.Bytes()), "same bytes on a fresh and on a previously used buffer")
		// writing the same layer again gives the same bytes
		again := gopacket.NewSerializeBufferExpectedSize(verifInt("hp", 0, 2), verifInt("ha", 0, 2))
		pb3, _ := again.AppendBytes(len(pay))
		copy(pb3, pay)
		err3 := l.SerializeTo(again, opts)
		verifAssert(err3 == nil, "repeated serialization succeeds")
		verifAssert(bytes.Equal(out1, again.Bytes()), "repeated serialization gives the same bytes")
	}
	verifReached("serialized")
}

func verif_C07_ser_Dot11InformationElement() {
	in := verifBytes("in", 14)
	n := verifInt("n", 0, 14)
	var l Dot11InformationElement
	if err := l.DecodeFromBytes(in[:n], gopacket.NilDecodeFeedback); err != nil {
		verifReached("decode-err")
		return
	}
	verifReached("decoded")
	opts := gopacket.SerializeOptions{FixLengths: verifChoose(2) == 1, ComputeChecksums: false}
	pay := append([]byte(nil), l.LayerPayload()...)
	fresh := gopacket.NewSerializeBuffer()
	pb, _ := fresh.AppendBytes(len(pay))
	copy(pb, pay)
	err1 := l.SerializeTo(fresh, opts) // must not panic
	out1 := append([]byte(nil), fresh.Bytes()...)
	dirty := c06DirtyBuffer()
	pb2, _ := dirty.AppendBytes(len(pay))
	copy(pb2, pay)
	err2 := l.SerializeTo(dirty, opts)
	verifAssert((err1 == nil) == (err2 == nil), "same outcome on a fresh and on a dirty buffer")
	if err1 == nil && err2 == nil {
		verifAssert(bytes.Equal(out1, dirty.Bytes()), "same bytes on a fresh and on a previously used buffer")
		// writing the same layer again gives the same bytes
		again := gopacket.NewSerializeBufferExpectedSize(verifInt("hp", 0, 2), verifInt("ha", 0, 2))
		pb3, _ := again.AppendBytes(len(pay))
		copy(pb3, pay)
		err3 := l.SerializeTo(again, opts)
		verifAssert(err3 == nil, "repeated serialization succeeds")
		verifAssert(bytes.Equal(out1, again.Bytes()), "repeated serialization gives the same bytes")
	}
	verifReached("serialized")
}

func verif_C07_ser_Dot11MgmtAssociationReq() {
	in := verifBytes("in", 14)
	n := verifInt("n", 0, 14)
	var l Dot11MgmtAssociationReq
	if err := l.DecodeFromBytes(in[:n], gopacket.NilDecodeFeedback); err != nil {
		verifReached("decode-err")
		return
	}
	verifReached("decoded")
	opts := gopacket.SerializeOptions{FixLengths: verifChoose(2) == 1, ComputeChecksums: false}
	pay := append([]byte(nil), l.LayerPayload()...)
	fresh := gopacket.NewSerializeBuffer()
	pb, _ := fresh.AppendBytes(len(pay))
	copy(pb, pay)
	err1 := l.SerializeTo(fresh, opts) // must not panic
	out1 := append([]byte(nil), fresh.Bytes()...)
	dirty := c06DirtyBuffer()
	pb2, _ := dirty.AppendBytes(len(pay))
	copy(pb2, pay)
	err2 := l.SerializeTo(dirty, opts)
	verifAssert((err1 == nil) == (err2 == nil), "same outcome on a fresh and on a dirty buffer")
	if err1 == nil && err2 == nil {
		verifAssert(bytes.Equal(out1, dirty.Bytes()), "same bytes on a fresh and on a previously used buffer")
		// writing the same layer again gives the same bytes
		again := gopacket.NewSerializeBufferExpectedSize(verifInt("hp", 0, 2), verifInt("ha", 0, 2))
		pb3, _ := again.AppendBytes(len(pay))
		copy(pb3, pay)
		err3 := l.SerializeTo(again, opts)
		verifAssert(err3 == nil, "repeated serialization succeeds")
		verifAssert(bytes.Equal(out1, again.Bytes()), "repeated serialization gives the same bytes")
	}
	verifReached("serialized")
}

func verif_C07_ser_Dot11MgmtAssociationResp() {
	in := verifBytes("in", 14)
	n := verifInt("n", 0, 14)
	var l Dot11MgmtAssociationResp
	if err := l.DecodeFromBytes(in[:n], gopacket.NilDecodeFeedback); err != nil {
		verifReached("decode-err")
		return
	}
	verifReached("decoded")
	opts := gopacket.SerializeOptions{FixLengths: verifChoose(2) == 1, ComputeChecksums: false}
	pay := append([]byte(nil), l.LayerPayload()...)
	fresh := gopacket.NewSerializeBuffer()
	pb, _ := fresh.AppendBytes(len(pay))
	copy(pb, pay)
	err1 := l.SerializeTo(fresh, opts) // must not panic
	out1 := append([]byte(nil), fresh.Bytes()...)
	dirty := c06DirtyBuffer()
	pb2, _ := dirty.AppendBytes(len(pay))
	copy(pb2, pay)
	err2 := l.SerializeTo(dirty, opts)
	verifAssert((err1 == nil) == (err2 == nil), "same outcome on a fresh and on a dirty buffer")
	if err1 == nil && err2 == nil {
		verifAssert(bytes.Equal(out1, dirty.Bytes()), "same bytes on a fresh and on a previously used buffer")
		// writing the same layer again gives the same bytes
		again := gopacket.NewSerializeBufferExpectedSize(verifInt("hp", 0, 2), verifInt("ha", 0, 2))
		pb3, _ := again.AppendBytes(len(pay))
		copy(pb3, pay)
		err3 := l.SerializeTo(again, opts)
		verifAssert(err3 == nil, "repeated serialization succeeds")
		verifAssert(bytes.Equal(out1, again.Bytes()), "repeated serialization gives the same bytes")
	}
	verifReached("serialized")
}

func verif_C07_ser_Dot11MgmtAuthentication() {
	in := verifBytes("in", 14)
	n := verifInt("n", 0, 14)
	var l Dot11MgmtAuthentication
	if err := l.DecodeFromBytes(in[:n], gopacket.NilDecodeFeedback); err != nil {
		verifReached("decode-err")
		return
	}
	verifReached("decoded")
	opts := gopacket.SerializeOptions{FixLengths: verifChoose(2) == 1, ComputeChecksums: false}
	pay := append([]byte(nil), l.LayerPayload()...)
	fresh := gopacket.NewSerializeBuffer()
	pb, _ := fresh.AppendBytes(len(pay))
	copy(pb, pay)
	err1 := l.SerializeTo(fresh, opts) // must not panic
	out1 := append([]byte(nil), fresh.Bytes()...)
	dirty := c06DirtyBuffer()
	pb2, _ := dirty.AppendBytes(len(pay))
	copy(pb2, pay)
	err2 := l.SerializeTo(dirty, opts)
	verifAssert((err1 == nil) == (err2 == nil), "same outcome on a fresh and on a dirty buffer")
	if err1 == nil && err2 == nil {
		verifAssert(bytes.Equal(out1, dirty.Bytes()), "same bytes on a fresh and on a previously used buffer")
		// writing the same layer again gives the same bytes
		again := gopacket.NewSerializeBufferExpectedSize(verifInt("hp", 0, 2), verifInt("ha", 0, 2))
		pb3, _ := again.AppendBytes(len(pay))
		copy(pb3, pay)
		err3 := l.SerializeTo(again, opts)
		verifAssert(err3 == nil, "repeated serialization succeeds")
		verifAssert(bytes.Equal(out1, again.Bytes()), "repeated serialization gives the same bytes")
	}
	verifReached("serialized")
}

func verif_C07_ser_Dot11MgmtBeacon() {
	in := verifBytes("in", 14)
	n := verifInt("n", 0, 14)
	var l Dot11MgmtBeacon
	if err := l.DecodeFromBytes(in[:n], gopacket.NilDecodeFeedback); err != nil {
		verifReached("decode-err")
		return
	}
	verifReached("decoded")
	opts := gopacket.SerializeOptions{FixLengths: verifChoose(2) == 1, ComputeChecksums: false}
	pay := append([]byte(nil), l.LayerPayload()...)
	fresh := gopacket.NewSerializeBuffer()
	pb, _ := fresh.AppendBytes(len(pay))
	copy(pb, pay)
	err1 := l.SerializeTo(fresh, opts) // must not panic
	out1 := append([]byte(nil), fresh.Bytes()...)
	dirty := c06DirtyBuffer()
	pb2, _ := dirty.AppendBytes(len(pay))
	copy(pb2, pay)
	err2 := l.SerializeTo(dirty, opts)
	verifAssert((err1 == nil) == (err2 == nil), "same outcome on a fresh and on a dirty buffer")
	if err1 == nil && err2 == nil {
		verifAssert(bytes.Equal(out1, dirty.Bytes()), "same bytes on a fresh and on a previously used buffer")
		// writing the same layer again gives the same bytes
		again := gopacket.NewSerializeBufferExpectedSize(verifInt("hp", 0, 2), verifInt("ha", 0, 2))
		pb3, _ := again.AppendBytes(len(pay))
		copy(pb3, pay)
		err3 := l.SerializeTo(again, opts)
		verifAssert(err3 == nil, "repeated serialization succeeds")
		verifAssert(bytes.Equal(out1, again.Bytes()), "repeated serialization gives the same bytes")
	}
	verifReached("serialized")
}

func verif_C07_ser_Dot11MgmtDeauthentication() {
	in := verifBytes("in", 14)
	n := verifInt("n", 0, 14)
	var l Dot11MgmtDeauthentication
	if err := l.DecodeFromBytes(in[:n], gopacket.NilDecodeFeedback); err != nil {
		verifReached("decode-err")
		return
	}
	verifReached("decoded")
	opts := gopacket.SerializeOptions{FixLengths: verifChoose(2) == 1, ComputeChecksums: false}
	pay := append([]byte(nil), l.LayerPayload()...)
	fresh := gopacket.NewSerializeBuffer()
	pb, _ := fresh.AppendBytes(len(pay))
	copy(pb, pay)
	err1 := l.SerializeTo(fresh, opts) // must not panic
	out1 := append([]byte(nil), fresh.Bytes()...)
	dirty := c06DirtyBuffer()
	pb2, _ := dirty.AppendBytes(len(pay))
	copy(pb2, pay)
	err2 := l.SerializeTo(dirty, opts)
	verifAssert((err1 == nil) == (err2 == nil), "same outcome on a fresh and on a dirty buffer")
	if err1 == nil && err2 == nil {
		verifAssert(bytes.Equal(out1, dirty.Bytes()), "same bytes on a fresh and on a previously used buffer")
		// writing the same layer again gives the same bytes
		again := gopacket.NewSerializeBufferExpectedSize(verifInt("hp", 0, 2), verifInt("ha", 0, 2))
		pb3, _ := again.AppendBytes(len(pay))
		copy(pb3, pay)
		err3 := l.SerializeTo(again, opts)
		verifAssert(err3 == nil, "repeated serialization succeeds")
		verifAssert(bytes.Equal(out1, again.Bytes()), "repeated serialization gives the same bytes")
	}
	verifReached("serialized")
}

func verif_C07_ser_Dot11MgmtDisassociation() {
	in := verifBytes("in", 14)
	n := verifInt("n", 0, 14)
	var l Dot11MgmtDisassociation
	if err := l.DecodeFromBytes(in[:n], gopacket.NilDecodeFeedback); err != nil {
		verifReached("decode-err")
		return
	}
	verifReached("decoded")
	opts := gopacket.SerializeOptions{FixLengths: verifChoose(2) == 1, ComputeChecksums: false}
	pay := append([]byte(nil), l.LayerPayload()...)
	fresh := gopacket.NewSerializeBuffer()
	pb, _ := fresh.AppendBytes(len(pay))
	copy(pb, pay)
	err1 := l.SerializeTo(fresh, opts) // must not panic
	out1 := append([]byte(nil), fresh.Bytes()...)
	dirty := c06DirtyBuffer()
	pb2, _ := dirty.AppendBytes(len(pay))
	copy(pb2, pay)
	err2 := l.SerializeTo(dirty, opts)
	verifAssert((err1 == nil) == (err2 == nil), "same outcome on a fresh and on a dirty buffer")
	if err1 == nil && err2 == nil {
		verifAssert(bytes.Equal(out1, dirty.Bytes()), "same bytes on a fresh and on a previously used buffer")
		// writing the same layer again gives the same bytes
		again := gopacket.NewSerializeBufferExpectedSize(verifInt("hp", 0, 2), verifInt("ha", 0, 2))
		pb3, _ := again.AppendBytes(len(pay))
		copy(pb3, pay)
		err3 := l.SerializeTo(again, opts)
		verifAssert(err3 == nil, "repeated serialization succeeds")
		verifAssert(bytes.Equal(out1, again.Bytes()), "repeated serialization gives the same bytes")
	}
	verifReached("serialized")
}

func verif_C07_ser_Dot11MgmtProbeResp() {
	in := verifBytes("in", 14)
	n := verifInt("n", 0, 14)
	var l Dot11MgmtProbeResp
	if err := l.DecodeFromBytes(in[:n], gopacket.NilDecodeFeedback); err != nil {
		verifReached("decode-err")
		return
	}
	verifReached("decoded")
	opts := gopacket.SerializeOptions{FixLengths: verifChoose(2) == 1, ComputeChecksums: false}
	pay := append([]byte(nil), l.LayerPayload()...)
	fresh := gopacket.NewSerializeBuffer()
	pb, _ := fresh.AppendBytes(len(pay))
	copy(pb, pay)
	err1 := l.SerializeTo(fresh, opts) // must not panic
	out1 := append([]byte(nil), fresh.Bytes()...)
	dirty := c06DirtyBuffer()
	pb2, _ := dirty.AppendBytes(len(pay))
	copy(pb2, pay)
	err2 := l.SerializeTo(dirty, opts)
	verifAssert((err1 == nil) == (err2 == nil), "same outcome on a fresh and on a dirty buffer")
	if err1 == nil && err2 == nil {
		verifAssert(bytes.Equal(out1, dirty.Bytes()), "same bytes on a fresh and on a previously used buffer")
		// writing the same layer again gives the same bytes
		again := gopacket.NewSerializeBufferExpectedSize(verifInt("hp", 0, 2), verifInt("ha", 0, 2))
		pb3, _ := again.AppendBytes(len(pay))
		copy(pb3, pay)
		err3 := l.SerializeTo(again, opts)
		verifAssert(err3 == nil, "repeated serialization succeeds")
		verifAssert(bytes.Equal(out1, again.Bytes()), "repeated serialization gives the same bytes")
	}
	verifReached("serialized")
}

func verif_C07_ser_Dot11MgmtReassociationReq() {
	in := verifBytes("in", 14)
	n := verifInt("n", 0, 14)
	var l Dot11MgmtReassociationReq
	if err := l.DecodeFromBytes(in[:n], gopacket.NilDecodeFeedback); err != nil {
		verifReached("decode-err")
		return
	}
	verifReached("decoded")
	opts := gopacket.SerializeOptions{FixLengths: verifChoose(2) == 1, ComputeChecksums: false}
	pay := append([]byte(nil), l.LayerPayload()...)
	fresh := gopacket.NewSerializeBuffer()
	pb, _ := fresh.AppendBytes(len(pay))
	copy(pb, pay)
	err1 := l.SerializeTo(fresh, opts) // must not panic
	out1 := append([]byte(nil), fresh.Bytes()...)
	dirty := c06DirtyBuffer()
	pb2, _ := dirty.AppendBytes(len(pay))
	copy(pb2, pay)
	err2 := l.SerializeTo(dirty, opts)
	verifAssert((err1 == nil) == (err2 == nil), "same outcome on a fresh and on a dirty buffer")
	if err1 == nil && err2 == nil {
		verifAssert(bytes.Equal(out1, dirty.Bytes()), "same bytes on a fresh and on a previously used buffer")
		// writing the same layer again gives the same bytes
		again := gopacket.NewSerializeBufferExpectedSize(verifInt("hp", 0, 2), verifInt("ha", 0, 2))
		pb3, _ := again.AppendBytes(len(pay))
		copy(pb3, pay)
		err3 := l.SerializeTo(again, opts)
		verifAssert(err3 == nil, "repeated serialization succeeds")
		verifAssert(bytes.Equal(out1, again.Bytes()), "repeated serialization gives the same bytes")
	}
	verifReached("serialized")
}

func verif_C07_ser_Dot1Q() {
	in := verifBytes("in", 14)
	n := verifInt("n", 0, 14)
	var l Dot1Q
	if err := l.DecodeFromBytes(in[:n], gopacket.NilDecodeFeedback); err != nil {
		verifReached("decode-err")
		return
	}
	verifReached("decoded")
	opts := gopacket.SerializeOptions{FixLengths: verifChoose(2) == 1, ComputeChecksums: false}
	pay := append([]byte(nil), l.LayerPayload()...)
	fresh := gopacket.NewSerializeBuffer()
	pb, _ := fresh.AppendBytes(len(pay))
	copy(pb, pay)
	err1 := l.SerializeTo(fresh, opts) // must not panic
	out1 := append([]byte(nil), fresh.Bytes()...)
	dirty := c06DirtyBuffer()
	pb2, _ := dirty.AppendBytes(len(pay))
	copy(pb2, pay)
	err2 := l.SerializeTo(dirty, opts)
	verifAssert((err1 == nil) == (err2 == nil), "same outcome on a fresh and on a dirty buffer")
	if err1 == nil && err2 == nil {
		verifAssert(bytes.Equal(out1, dirty.Bytes()), "same bytes on a fresh and on a previously used buffer")
		// writing the same layer again gives the same bytes
		again := gopacket.NewSerializeBufferExpectedSize(verifInt("hp", 0, 2), verifInt("ha", 0, 2))
		pb3, _ := again.AppendBytes(len(pay))
		copy(pb3, pay)
		err3 := l.SerializeTo(again, opts)
		verifAssert(err3 == nil, "repeated serialization succeeds")
		verifAssert(bytes.Equal(out1, again.Bytes()), "repeated serialization gives the same bytes")
	}
	verifReached("serialized")
}

func verif_C07_ser_EAP() {
	in := verifBytes("in", 14)
	n := verifInt("n", 0, 14)
	var l EAP
	if err := l.DecodeFromBytes(in[:n], gopacket.NilDecodeFeedback); err != nil {
		verifReached("decode-err")
		return
	}
	verifReached("decoded")
	opts := gopacket.SerializeOptions{FixLengths: verifChoose(2) == 1, ComputeChecksums: false}
	pay := append([]byte(nil), l.LayerPayload()...)
	fresh := gopacket.NewSerializeBuffer()
	pb, _ := fresh.AppendBytes(len(pay))
	copy(pb, pay)
	err1 := l.SerializeTo(fresh, opts) // must not panic
	out1 := append([]byte(nil), fresh.Bytes()...)
	dirty := c06DirtyBuffer()
	pb2, _ := dirty.AppendBytes(len(pay))
	copy(pb2, pay)
	err2 := l.SerializeTo(dirty, opts)
	verifAssert((err1 == nil) == (err2 == nil), "same outcome on a fresh and on a dirty buffer")
	if err1 == nil && err2 == nil {
		verifAssert(bytes.Equal(out1, dirty.Bytes()), "same bytes on a fresh and on a previously used buffer")
		// writing the same layer again gives the same bytes
		again := gopacket.NewSerializeBufferExpectedSize(verifInt("hp", 0, 2), verifInt("ha", 0, 2))
		pb3, _ := again.AppendBytes(len(pay))
		copy(pb3, pay)
		err3 := l.SerializeTo(again, opts)
		verifAssert(err3 == nil, "repeated serialization succeeds")
		verifAssert(bytes.Equal(out1, again.Bytes()), "repeated serialization gives the same bytes")
	}
	verifReached("serialized")
}

func verif_C07_ser_EAPOL() {
	in := verifBytes("in", 14)
	n := verifInt("n", 0, 14)
	var l EAPOL
	if err := l.DecodeFromBytes(in[:n], gopacket.NilDecodeFeedback); err != nil {
		verifReached("decode-err")
		return
	}
	verifReached("decoded")
	opts := gopacket.SerializeOptions{FixLengths: verifChoose(2) == 1, ComputeChecksums: false}
	pay := append([]byte(nil), l.LayerPayload()...)
	fresh := gopacket.NewSerializeBuffer()
	pb, _ := fresh.AppendBytes(len(pay))
	copy(pb, pay)
	err1 := l.SerializeTo(fresh, opts) // must not panic
	out1 := append([]byte(nil), fresh.Bytes()...)
	dirty := c06DirtyBuffer()
	pb2, _ := dirty.AppendBytes(len(pay))
	copy(pb2, pay)
	err2 := l.SerializeTo(dirty, opts)
	verifAssert((err1 == nil) == (err2 == nil), "same outcome on a fresh and on a dirty buffer")
	if err1 == nil && err2 == nil {
		verifAssert(bytes.Equal(out1, dirty.Bytes()), "same bytes on a fresh and on a previously used buffer")
		// writing the same layer again gives the same bytes
		again := gopacket.NewSerializeBufferExpectedSize(verifInt("hp", 0, 2), verifInt("ha", 0, 2))
		pb3, _ := again.AppendBytes(len(pay))
		copy(pb3, pay)
		err3 := l.SerializeTo(again, opts)
		verifAssert(err3 == nil, "repeated serialization succeeds")
		verifAssert(bytes.Equal(out1, again.Bytes()), "repeated serialization gives the same bytes")
	}
	verifReached("serialized")
}

func verif_C07_ser_EAPOLKey() {
	in := verifBytes("in", 99)
	n := verifInt("n", 95, 99)
	var l EAPOLKey
	if err := l.DecodeFromBytes(in[:n], gopacket.NilDecodeFeedback); err != nil {
		verifReached("decode-err")
		return
	}
	verifReached("decoded")
	opts := gopacket.SerializeOptions{FixLengths: verifChoose(2) == 1, ComputeChecksums: false}
	pay := append([]byte(nil), l.LayerPayload()...)
	fresh := gopacket.NewSerializeBuffer()
	pb, _ := fresh.AppendBytes(len(pay))
	copy(pb, pay)
	err1 := l.SerializeTo(fresh, opts) // must not panic
	out1 := append([]byte(nil), fresh.Bytes()...)
	dirty := c06DirtyBuffer()
	pb2, _ := dirty.AppendBytes(len(pay))
	copy(pb2, pay)
	err2 := l.SerializeTo(dirty, opts)
	verifAssert((err1 == nil) == (err2 == nil), "same outcome on a fresh and on a dirty buffer")
	if err1 == nil && err2 == nil {
		verifAssert(bytes.Equal(out1, dirty.Bytes()), "same bytes on a fresh and on a previously used buffer")
		// writing the same layer again gives the same bytes
		again := gopacket.NewSerializeBufferExpectedSize(verifInt("hp", 0, 2), verifInt("ha", 0, 2))
		pb3, _ := again.AppendBytes(len(pay))
		copy(pb3, pay)
		err3 := l.SerializeTo(again, opts)
		verifAssert(err3 == nil, "repeated serialization succeeds")
		verifAssert(bytes.Equal(out1, again.Bytes()), "repeated serialization gives the same bytes")
	}
	verifReached("serialized")
}

func verif_C07_ser_ERSPANII() {
	in := verifBytes("in", 14)
	n := verifInt("n", 0, 14)
	var l ERSPANII
	if err := l.DecodeFromBytes(in[:n], gopacket.NilDecodeFeedback); err != nil {
		verifReached("decode-err")
		return
	}
	verifReached("decoded")
	opts := gopacket.SerializeOptions{FixLengths: verifChoose(2) == 1, ComputeChecksums: false}
	pay := append([]byte(nil), l.LayerPayload()...)
	fresh := gopacket.NewSerializeBuffer()
	pb, _ := fresh.AppendBytes(len(pay))
	copy(pb, pay)
	err1 := l.SerializeTo(fresh, opts) // must not panic
	out1 := append([]byte(nil), fresh.Bytes()...)
	dirty := c06DirtyBuffer()
	pb2, _ := dirty.AppendBytes(len(pay))
	copy(pb2, pay)
	err2 := l.SerializeTo(dirty, opts)
	verifAssert((err1 == nil) == (err2 == nil), "same outcome on a fresh and on a dirty buffer")
	if err1 == nil && err2 == nil {
		verifAssert(bytes.Equal(out1, dirty.Bytes()), "same bytes on a fresh and on a previously used buffer")
		// writing the same layer again gives the same bytes
		again := gopacket.NewSerializeBufferExpectedSize(verifInt("hp", 0, 2), verifInt("ha", 0, 2))
		pb3, _ := again.AppendBytes(len(pay))
		copy(pb3, pay)
		err3 := l.SerializeTo(again, opts)
		verifAssert(err3 == nil, "repeated serialization succeeds")
		verifAssert(bytes.Equal(out1, again.Bytes()), "repeated serialization gives the same bytes")
	}
	verifReached("serialized")
}

func verif_C07_ser_Ethernet() {
	in := verifBytes("in", 14)
	n := verifInt("n", 0, 14)
	var l Ethernet
	if err := l.DecodeFromBytes(in[:n], gopacket.NilDecodeFeedback); err != nil {
		verifReached("decode-err")
		return
	}
	verifReached("decoded")
	opts := gopacket.SerializeOptions{FixLengths: verifChoose(2) == 1, ComputeChecksums: false}
	pay := append([]byte(nil), l.LayerPayload()...)
	fresh := gopacket.NewSerializeBuffer()
	pb, _ := fresh.AppendBytes(len(pay))
	copy(pb, pay)
	err1 := l.SerializeTo(fresh, opts) // must not panic
	out1 := append([]byte(nil), fresh.Bytes()...)
	dirty := c06DirtyBuffer()
	pb2, _ := dirty.AppendBytes(len(pay))
	copy(pb2, pay)
	err2 := l.SerializeTo(dirty, opts)
	verifAssert((err1 == nil) == (err2 == nil), "same outcome on a fresh and on a dirty buffer")
	if err1 == nil && err2 == nil {
		verifAssert(bytes.Equal(out1, dirty.Bytes()), "same bytes on a fresh and on a previously used buffer")
		// writing the same layer again gives the same bytes
		again := gopacket.NewSerializeBufferExpectedSize(verifInt("hp", 0, 2), verifInt("ha", 0, 2))
		pb3, _ := again.AppendBytes(len(pay))
		copy(pb3, pay)
		err3 := l.SerializeTo(again, opts)
		verifAssert(err3 == nil, "repeated serialization succeeds")
		verifAssert(bytes.Equal(out1, again.Bytes()), "repeated serialization gives the same bytes")
	}
	verifReached("serialized")
}

func verif_C07_ser_GRE() {
	in := verifBytes("in", 14)
	n := verifInt("n", 0, 14)
	var l GRE
	if err := l.DecodeFromBytes(in[:n], gopacket.NilDecodeFeedback); err != nil {
		verifReached("decode-err")
		return
	}
	verifReached("decoded")
	opts := gopacket.SerializeOptions{FixLengths: verifChoose(2) == 1, ComputeChecksums: false}
	pay := append([]byte(nil), l.LayerPayload()...)
	fresh := gopacket.NewSerializeBuffer()
	pb, _ := fresh.AppendBytes(len(pay))
	copy(pb, pay)
	err1 := l.SerializeTo(fresh, opts) // must not panic
	out1 := append([]byte(nil), fresh.Bytes()...)
	dirty := c06DirtyBuffer()
	pb2, _ := dirty.AppendBytes(len(pay))
	copy(pb2, pay)
	err2 := l.SerializeTo(dirty, opts)
	verifAssert((err1 == nil) == (err2 == nil), "same outcome on a fresh and on a dirty buffer")
	if err1 == nil && err2 == nil {
		verifAssert(bytes.Equal(out1, dirty.Bytes()), "same bytes on a fresh and on a previously used buffer")
		// writing the same layer again gives the same bytes
		again := gopacket.NewSerializeBufferExpectedSize(verifInt("hp", 0, 2), verifInt("ha", 0, 2))
		pb3, _ := again.AppendBytes(len(pay))
		copy(pb3, pay)
		err3 := l.SerializeTo(again, opts)
		verifAssert(err3 == nil, "repeated serialization succeeds")
		verifAssert(bytes.Equal(out1, again.Bytes()), "repeated serialization gives the same bytes")
	}
	verifReached("serialized")
}

func verif_C07_ser_GTPv1U() {
	in := verifBytes("in", 14)
	n := verifInt("n", 0, 14)
	var l GTPv1U
	if err := l.DecodeFromBytes(in[:n], gopacket.NilDecodeFeedback); err != nil {
		verifReached("decode-err")
		return
	}
	verifReached("decoded")
	opts := gopacket.SerializeOptions{FixLengths: verifChoose(2) == 1, ComputeChecksums: false}
	pay := append([]byte(nil), l.LayerPayload()...)
	fresh := gopacket.NewSerializeBuffer()
	pb, _ := fresh.AppendBytes(len(pay))
	copy(pb, pay)
	err1 := l.SerializeTo(fresh, opts) // must not panic
	out1 := append([]byte(nil), fresh.Bytes()...)
	dirty := c06DirtyBuffer()
	pb2, _ := dirty.AppendBytes(len(pay))
	copy(pb2, pay)
	err2 := l.SerializeTo(dirty, opts)
	verifAssert((err1 == nil) == (err2 == nil), "same outcome on a fresh and on a dirty buffer")
	if err1 == nil && err2 == nil {
		verifAssert(bytes.Equal(out1, dirty.Bytes()), "same bytes on a fresh and on a previously used buffer")
		// writing the same layer again gives the same bytes
		again := gopacket.NewSerializeBufferExpectedSize(verifInt("hp", 0, 2), verifInt("ha", 0, 2))
		pb3, _ := again.AppendBytes(len(pay))
		copy(pb3, pay)
		err3 := l.SerializeTo(again, opts)
		verifAssert(err3 == nil, "repeated serialization succeeds")
		verifAssert(bytes.Equal(out1, again.Bytes()), "repeated serialization gives the same bytes")
	}
	verifReached("serialized")
}

func verif_C07_ser_Geneve() {
	in := verifBytes("in", 14)
	n := verifInt("n", 0, 14)
	var l Geneve
	if err := l.DecodeFromBytes(in[:n], gopacket.NilDecodeFeedback); err != nil {
		verifReached("decode-err")
		return
	}
	verifReached("decoded")
	opts := gopacket.SerializeOptions{FixLengths: verifChoose(2) == 1, ComputeChecksums: false}
	pay := append([]byte(nil), l.LayerPayload()...)
	fresh := gopacket.NewSerializeBuffer()
	pb, _ := fresh.AppendBytes(len(pay))
	copy(pb, pay)
	err1 := l.SerializeTo(fresh, opts) // must not panic
	out1 := append([]byte(nil), fresh.Bytes()...)
	dirty := c06DirtyBuffer()
	pb2, _ := dirty.AppendBytes(len(pay))
	copy(pb2, pay)
	err2 := l.SerializeTo(dirty, opts)
	verifAssert((err1 == nil) == (err2 == nil), "same outcome on a fresh and on a dirty buffer")
	if err1 == nil && err2 == nil {
		verifAssert(bytes.Equal(out1, dirty.Bytes()), "same bytes on a fresh and on a previously used buffer")
		// writing the same layer again gives the same bytes
		again := gopacket.NewSerializeBufferExpectedSize(verifInt("hp", 0, 2), verifInt("ha", 0, 2))
		pb3, _ := again.AppendBytes(len(pay))
		copy(pb3, pay)
		err3 := l.SerializeTo(again, opts)
		verifAssert(err3 == nil, "repeated serialization succeeds")
		verifAssert(bytes.Equal(out1, again.Bytes()), "repeated serialization gives the same bytes")
	}
	verifReached("serialized")
}

func verif_C07_ser_ICMPv4() {
	in := verifBytes("in", 14)
	n := verifInt("n", 0, 14)
	var l ICMPv4
	if err := l.DecodeFromBytes(in[:n], gopacket.NilDecodeFeedback); err != nil {
		verifReached("decode-err")
		return
	}
	verifReached("decoded")
	opts := gopacket.SerializeOptions{FixLengths: verifChoose(2) == 1, ComputeChecksums: false}
	pay := append([]byte(nil), l.LayerPayload()...)
	fresh := gopacket.NewSerializeBuffer()
	pb, _ := fresh.AppendBytes(len(pay))
	copy(pb, pay)
	err1 := l.SerializeTo(fresh, opts) // must not panic
	out1 := append([]byte(nil), fresh.Bytes()...)
	dirty := c06DirtyBuffer()
	pb2, _ := dirty.AppendBytes(len(pay))
	copy(pb2, pay)
	err2 := l.SerializeTo(dirty, opts)
	verifAssert((err1 == nil) == (err2 == nil), "same outcome on a fresh and on a dirty buffer")
	if err1 == nil && err2 == nil {
		verifAssert(bytes.Equal(out1, dirty.Bytes()), "same bytes on a fresh and on a previously used buffer")
		// writing the same layer again gives the same bytes
		again := gopacket.NewSerializeBufferExpectedSize(verifInt("hp", 0, 2), verifInt("ha", 0, 2))
		pb3, _ := again.AppendBytes(len(pay))
		copy(pb3, pay)
		err3 := l.SerializeTo(again, opts)
		verifAssert(err3 == nil, "repeated serialization succeeds")
		verifAssert(bytes.Equal(out1, again.Bytes()), "repeated serialization gives the same bytes")
	}
	verifReached("serialized")
}

func verif_C07_ser_ICMPv6() {
	in := verifBytes("in", 14)
	n := verifInt("n", 0, 14)
	var l ICMPv6
	if err := l.DecodeFromBytes(in[:n], gopacket.NilDecodeFeedback); err != nil {
		verifReached("decode-err")
		return
	}
	verifReached("decoded")
	l.SetNetworkLayerForChecksum(c06Net4)
	opts := gopacket.SerializeOptions{FixLengths: verifChoose(2) == 1, ComputeChecksums: false}
	pay := append([]byte(nil), l.LayerPayload()...)
	fresh := gopacket.NewSerializeBuffer()
	pb, _ := fresh.AppendBytes(len(pay))
	copy(pb, pay)
	err1 := l.SerializeTo(fresh, opts) // must not panic
	out1 := append([]byte(nil), fresh.Bytes()...)
	dirty := c06DirtyBuffer()
	pb2, _ := dirty.AppendBytes(len(pay))
	copy(pb2, pay)
	err2 := l.SerializeTo(dirty, opts)
	verifAssert((err1 == nil) == (err2 == nil), "same outcome on a fresh and on a dirty buffer")
	if err1 == nil && err2 == nil {
		verifAssert(bytes.Equal(out1, dirty.Bytes()), "same bytes on a fresh and on a previously used buffer")
		// writing the same layer again gives the same bytes
		again := gopacket.NewSerializeBufferExpectedSize(verifInt("hp", 0, 2), verifInt("ha", 0, 2))
		pb3, _ := again.AppendBytes(len(pay))
		copy(pb3, pay)
		err3 := l.SerializeTo(again, opts)
		verifAssert(err3 == nil, "repeated serialization succeeds")
		verifAssert(bytes.Equal(out1, again.Bytes()), "repeated serialization gives the same bytes")
	}
	verifReached("serialized")
}

func verif_C07_ser_ICMPv6Echo() {
	in := verifBytes("in", 14)
	n := verifInt("n", 0, 14)
	var l ICMPv6Echo
	if err := l.DecodeFromBytes(in[:n], gopacket.NilDecodeFeedback); err != nil {
		verifReached("decode-err")
		return
	}
	verifReached("decoded")
	opts := gopacket.SerializeOptions{FixLengths: verifChoose(2) == 1, ComputeChecksums: false}
	pay := append([]byte(nil), l.LayerPayload()...)
	fresh := gopacket.NewSerializeBuffer()
	pb, _ := fresh.AppendBytes(len(pay))
	copy(pb, pay)
	err1 := l.SerializeTo(fresh, opts) // must not panic
	out1 := append([]byte(nil), fresh.Bytes()...)
	dirty := c06DirtyBuffer()
	pb2, _ := dirty.AppendBytes(len(pay))
	copy(pb2, pay)
	err2 := l.SerializeTo(dirty, opts)
	verifAssert((err1 == nil) == (err2 == nil), "same outcome on a fresh and on a dirty buffer")
	if err1 == nil && err2 == nil {
		verifAssert(bytes.Equal(out1, dirty.Bytes()), "same bytes on a fresh and on a previously used buffer")
		// writing the same layer again gives the same bytes
		again := gopacket.NewSerializeBufferExpectedSize(verifInt("hp", 0, 2), verifInt("ha", 0, 2))
		pb3, _ := again.AppendBytes(len(pay))
		copy(pb3, pay)
		err3 := l.SerializeTo(again, opts)
		verifAssert(err3 == nil, "repeated serialization succeeds")
		verifAssert(bytes.Equal(out1, again.Bytes()), "repeated serialization gives the same bytes")
	}
	verifReached("serialized")
}

func verif_C07_ser_ICMPv6NeighborAdvertisement() {
	in := verifBytes("in", 24)
	n := verifInt("n", 20, 24)
	var l ICMPv6NeighborAdvertisement
	if err := l.DecodeFromBytes(in[:n], gopacket.NilDecodeFeedback); err != nil {
		verifReached("decode-err")
		return
	}
	verifReached("decoded")
	opts := gopacket.SerializeOptions{FixLengths: verifChoose(2) == 1, ComputeChecksums: false}
	pay := append([]byte(nil), l.LayerPayload()...)
	fresh := gopacket.NewSerializeBuffer()
	pb, _ := fresh.AppendBytes(len(pay))
	copy(pb, pay)
	err1 := l.SerializeTo(fresh, opts) // must not panic
	out1 := append([]byte(nil), fresh.Bytes()...)
	dirty := c06DirtyBuffer()
	pb2, _ := dirty.AppendBytes(len(pay))
	copy(pb2, pay)
	err2 := l.SerializeTo(dirty, opts)
	verifAssert((err1 == nil) == (err2 == nil), "same outcome on a fresh and on a dirty buffer")
	if err1 == nil && err2 == nil {
		verifAssert(bytes.Equal(out1, dirty.Bytes()), "same bytes on a fresh and on a previously used buffer")
		// writing the same layer again gives the same bytes
		again := gopacket.NewSerializeBufferExpectedSize(verifInt("hp", 0, 2), verifInt("ha", 0, 2))
		pb3, _ := again.AppendBytes(len(pay))
		copy(pb3, pay)
		err3 := l.SerializeTo(again, opts)
		verifAssert(err3 == nil, "repeated serialization succeeds")
		verifAssert(bytes.Equal(out1, again.Bytes()), "repeated serialization gives the same bytes")
	}
	verifReached("serialized")
}

func verif_C07_ser_ICMPv6NeighborSolicitation() {
	in := verifBytes("in", 24)
	n := verifInt("n", 20, 24)
	var l ICMPv6NeighborSolicitation
	if err := l.DecodeFromBytes(in[:n], gopacket.NilDecodeFeedback); err != nil {
		verifReached("decode-err")
		return
	}
	verifReached("decoded")
	opts := gopacket.SerializeOptions{FixLengths: verifChoose(2) == 1, ComputeChecksums: false}
	pay := append([]byte(nil), l.LayerPayload()...)
	fresh := gopacket.NewSerializeBuffer()
	pb, _ := fresh.AppendBytes(len(pay))
	copy(pb, pay)
	err1 := l.SerializeTo(fresh, opts) // must not panic
	out1 := append([]byte(nil), fresh.Bytes()...)
	dirty := c06DirtyBuffer()
	pb2, _ := dirty.AppendBytes(len(pay))
	copy(pb2, pay)
	err2 := l.SerializeTo(dirty, opts)
	verifAssert((err1 == nil) == (err2 == nil), "same outcome on a fresh and on a dirty buffer")
	if err1 == nil && err2 == nil {
		verifAssert(bytes.Equal(out1, dirty.Bytes()), "same bytes on a fresh and on a previously used buffer")
		// writing the same layer again gives the same bytes
		again := gopacket.NewSerializeBufferExpectedSize(verifInt("hp", 0, 2), verifInt("ha", 0, 2))
		pb3, _ := again.AppendBytes(len(pay))
		copy(pb3, pay)
		err3 := l.SerializeTo(again, opts)
		verifAssert(err3 == nil, "repeated serialization succeeds")
		verifAssert(bytes.Equal(out1, again.Bytes()), "repeated serialization gives the same bytes")
	}
	verifReached("serialized")
}

func verif_C07_ser_ICMPv6Redirect() {
	in := verifBytes("in", 40)
	n := verifInt("n", 36, 40)
	var l ICMPv6Redirect
	if err := l.DecodeFromBytes(in[:n], gopacket.NilDecodeFeedback); err != nil {
		verifReached("decode-err")
		return
	}
	verifReached("decoded")
	opts := gopacket.SerializeOptions{FixLengths: verifChoose(2) == 1, ComputeChecksums: false}
	pay := append([]byte(nil), l.LayerPayload()...)
	fresh := gopacket.NewSerializeBuffer()
	pb, _ := fresh.AppendBytes(len(pay))
	copy(pb, pay)
	err1 := l.SerializeTo(fresh, opts) // must not panic
	out1 := append([]byte(nil), fresh.Bytes()...)
	dirty := c06DirtyBuffer()
	pb2, _ := dirty.AppendBytes(len(pay))
	copy(pb2, pay)
	err2 := l.SerializeTo(dirty, opts)
	verifAssert((err1 == nil) == (err2 == nil), "same outcome on a fresh and on a dirty buffer")
	if err1 == nil && err2 == nil {
		verifAssert(bytes.Equal(out1, dirty.Bytes()), "same bytes on a fresh and on a previously used buffer")
		// writing the same layer again gives the same bytes
		again := gopacket.NewSerializeBufferExpectedSize(verifInt("hp", 0, 2), verifInt("ha", 0, 2))
		pb3, _ := again.AppendBytes(len(pay))
		copy(pb3, pay)
		err3 := l.SerializeTo(again, opts)
		verifAssert(err3 == nil, "repeated serialization succeeds")
		verifAssert(bytes.Equal(out1, again.Bytes()), "repeated serialization gives the same bytes")
	}
	verifReached("serialized")
}

func verif_C07_ser_ICMPv6RouterAdvertisement() {
	in := verifBytes("in", 14)
	n := verifInt("n", 0, 14)
	var l ICMPv6RouterAdvertisement
	if err := l.DecodeFromBytes(in[:n], gopacket.NilDecodeFeedback); err != nil {
		verifReached("decode-err")
		return
	}
	verifReached("decoded")
	opts := gopacket.SerializeOptions{FixLengths: verifChoose(2) == 1, ComputeChecksums: false}
	pay := append([]byte(nil), l.LayerPayload()...)
	fresh := gopacket.NewSerializeBuffer()
	pb, _ := fresh.AppendBytes(len(pay))
	copy(pb, pay)
	err1 := l.SerializeTo(fresh, opts) // must not panic
	out1 := append([]byte(nil), fresh.Bytes()...)
	dirty := c06DirtyBuffer()
	pb2, _ := dirty.AppendBytes(len(pay))
	copy(pb2, pay)
	err2 := l.SerializeTo(dirty, opts)
	verifAssert((err1 == nil) == (err2 == nil), "same outcome on a fresh and on a dirty buffer")
	if err1 == nil && err2 == nil {
		verifAssert(bytes.Equal(out1, dirty.Bytes()), "same bytes on a fresh and on a previously used buffer")
		// writing the same layer again gives the same bytes
		again := gopacket.NewSerializeBufferExpectedSize(verifInt("hp", 0, 2), verifInt("ha", 0, 2))
		pb3, _ := again.AppendBytes(len(pay))
		copy(pb3, pay)
		err3 := l.SerializeTo(again, opts)
		verifAssert(err3 == nil, "repeated serialization succeeds")
		verifAssert(bytes.Equal(out1, again.Bytes()), "repeated serialization gives the same bytes")
	}
	verifReached("serialized")
}

func verif_C07_ser_ICMPv6RouterSolicitation() {
	in := verifBytes("in", 14)
	n := verifInt("n", 0, 14)
	var l ICMPv6RouterSolicitation
	if err := l.DecodeFromBytes(in[:n], gopacket.NilDecodeFeedback); err != nil {
		verifReached("decode-err")
		return
	}
	verifReached("decoded")
	opts := gopacket.SerializeOptions{FixLengths: verifChoose(2) == 1, ComputeChecksums: false}
	pay := append([]byte(nil), l.LayerPayload()...)
	fresh := gopacket.NewSerializeBuffer()
	pb, _ := fresh.AppendBytes(len(pay))
	copy(pb, pay)
	err1 := l.SerializeTo(fresh, opts) // must not panic
	out1 := append([]byte(nil), fresh.Bytes()...)
	dirty := c06DirtyBuffer()
	pb2, _ := dirty.AppendBytes(len(pay))
	copy(pb2, pay)
	err2 := l.SerializeTo(dirty, opts)
	verifAssert((err1 == nil) == (err2 == nil), "same outcome on a fresh and on a dirty buffer")
	if err1 == nil && err2 == nil {
		verifAssert(bytes.Equal(out1, dirty.Bytes()), "same bytes on a fresh and on a previously used buffer")
		// writing the same layer again gives the same bytes
		again := gopacket.NewSerializeBufferExpectedSize(verifInt("hp", 0, 2), verifInt("ha", 0, 2))
		pb3, _ := again.AppendBytes(len(pay))
		copy(pb3, pay)
		err3 := l.SerializeTo(again, opts)
		verifAssert(err3 == nil, "repeated serialization succeeds")
		verifAssert(bytes.Equal(out1, again.Bytes()), "repeated serialization gives the same bytes")
	}
	verifReached("serialized")
}

func verif_C07_ser_IPv4() {
	in := verifBytes("in", 24)
	n := verifInt("n", 20, 24)
	var l IPv4
	if err := l.DecodeFromBytes(in[:n], gopacket.NilDecodeFeedback); err != nil {
		verifReached("decode-err")
		return
	}
	verifReached("decoded")
	opts := gopacket.SerializeOptions{FixLengths: verifChoose(2) == 1, ComputeChecksums: false}
	pay := append([]byte(nil), l.LayerPayload()...)
	fresh := gopacket.NewSerializeBuffer()
	pb, _ := fresh.AppendBytes(len(pay))
	copy(pb, pay)
	err1 := l.SerializeTo(fresh, opts) // must not panic
	out1 := append([]byte(nil), fresh.Bytes()...)
	dirty := c06DirtyBuffer()
	pb2, _ := dirty.AppendBytes(len(pay))
	copy(pb2, pay)
	err2 := l.SerializeTo(dirty, opts)
	verifAssert((err1 == nil) == (err2 == nil), "same outcome on a fresh and on a dirty buffer")
	if err1 == nil && err2 == nil {
		verifAssert(bytes.Equal(out1, dirty.Bytes()), "same bytes on a fresh and on a previously used buffer")
		// writing the same layer again gives the same bytes
		again := gopacket.NewSerializeBufferExpectedSize(verifInt("hp", 0, 2), verifInt("ha", 0, 2))
		pb3, _ := again.AppendBytes(len(pay))
		copy(pb3, pay)
		err3 := l.SerializeTo(again, opts)
		verifAssert(err3 == nil, "repeated serialization succeeds")
		verifAssert(bytes.Equal(out1, again.Bytes()), "repeated serialization gives the same bytes")
	}
	verifReached("serialized")
}

func verif_C07_ser_IPv6() {
	in := verifBytes("in", 44)
	n := verifInt("n", 40, 44)
	var l IPv6
	if err := l.DecodeFromBytes(in[:n], gopacket.NilDecodeFeedback); err != nil {
		verifReached("decode-err")
		return
	}
	verifReached("decoded")
	opts := gopacket.SerializeOptions{FixLengths: verifChoose(2) == 1, ComputeChecksums: false}
	pay := append([]byte(nil), l.LayerPayload()...)
	fresh := gopacket.NewSerializeBuffer()
	pb, _ := fresh.AppendBytes(len(pay))
	copy(pb, pay)
	err1 := l.SerializeTo(fresh, opts) // must not panic
	out1 := append([]byte(nil), fresh.Bytes()...)
	dirty := c06DirtyBuffer()
	pb2, _ := dirty.AppendBytes(len(pay))
	copy(pb2, pay)
	err2 := l.SerializeTo(dirty, opts)
	verifAssert((err1 == nil) == (err2 == nil), "same outcome on a fresh and on a dirty buffer")
	if err1 == nil && err2 == nil {
		verifAssert(bytes.Equal(out1, dirty.Bytes()), "same bytes on a fresh and on a previously used buffer")
		// writing the same layer again gives the same bytes
		again := gopacket.NewSerializeBufferExpectedSize(verifInt("hp", 0, 2), verifInt("ha", 0, 2))
		pb3, _ := again.AppendBytes(len(pay))
		copy(pb3, pay)
		err3 := l.SerializeTo(again, opts)
		verifAssert(err3 == nil, "repeated serialization succeeds")
		verifAssert(bytes.Equal(out1, again.Bytes()), "repeated serialization gives the same bytes")
	}
	verifReached("serialized")
}

func verif_C07_ser_IPv6Destination() {
	in := verifBytes("in", 8)
	n := verifInt("n", 0, 8)
	var l IPv6Destination
	if err := l.DecodeFromBytes(in[:n], gopacket.NilDecodeFeedback); err != nil {
		verifReached("decode-err")
		return
	}
	verifReached("decoded")
	opts := gopacket.SerializeOptions{FixLengths: verifChoose(2) == 1, ComputeChecksums: false}
	pay := append([]byte(nil), l.LayerPayload()...)
	fresh := gopacket.NewSerializeBuffer()
	pb, _ := fresh.AppendBytes(len(pay))
	copy(pb, pay)
	err1 := l.SerializeTo(fresh, opts) // must not panic
	out1 := append([]byte(nil), fresh.Bytes()...)
	dirty := c06DirtyBuffer()
	pb2, _ := dirty.AppendBytes(len(pay))
	copy(pb2, pay)
	err2 := l.SerializeTo(dirty, opts)
	verifAssert((err1 == nil) == (err2 == nil), "same outcome on a fresh and on a dirty buffer")
	if err1 == nil && err2 == nil {
		verifAssert(bytes.Equal(out1, dirty.Bytes()), "same bytes on a fresh and on a previously used buffer")
		// writing the same layer again gives the same bytes
		again := gopacket.NewSerializeBufferExpectedSize(verifInt("hp", 0, 2), verifInt("ha", 0, 2))
		pb3, _ := again.AppendBytes(len(pay))
		copy(pb3, pay)
		err3 := l.SerializeTo(again, opts)
		verifAssert(err3 == nil, "repeated serialization succeeds")
		verifAssert(bytes.Equal(out1, again.Bytes()), "repeated serialization gives the same bytes")
	}
	verifReached("serialized")
}

func verif_C07_ser_IPv6HopByHop() {
	in := verifBytes("in", 8)
	n := verifInt("n", 0, 8)
	var l IPv6HopByHop
	if err := l.DecodeFromBytes(in[:n], gopacket.NilDecodeFeedback); err != nil {
		verifReached("decode-err")
		return
	}
	verifReached("decoded")
	opts := gopacket.SerializeOptions{FixLengths: verifChoose(2) == 1, ComputeChecksums: false}
	pay := append([]byte(nil), l.LayerPayload()...)
	fresh := gopacket.NewSerializeBuffer()
	pb, _ := fresh.AppendBytes(len(pay))
	copy(pb, pay)
	err1 := l.SerializeTo(fresh, opts) // must not panic
	out1 := append([]byte(nil), fresh.Bytes()...)
	dirty := c06DirtyBuffer()
	pb2, _ := dirty.AppendBytes(len(pay))
	copy(pb2, pay)
	err2 := l.SerializeTo(dirty, opts)
	verifAssert((err1 == nil) == (err2 == nil), "same outcome on a fresh and on a dirty buffer")
	if err1 == nil && err2 == nil {
		verifAssert(bytes.Equal(out1, dirty.Bytes()), "same bytes on a fresh and on a previously used buffer")
		// writing the same layer again gives the same bytes
		again := gopacket.NewSerializeBufferExpectedSize(verifInt("hp", 0, 2), verifInt("ha", 0, 2))
		pb3, _ := again.AppendBytes(len(pay))
		copy(pb3, pay)
		err3 := l.SerializeTo(again, opts)
		verifAssert(err3 == nil, "repeated serialization succeeds")
		verifAssert(bytes.Equal(out1, again.Bytes()), "repeated serialization gives the same bytes")
	}
	verifReached("serialized")
}

func verif_C07_ser_LLC() {
	in := verifBytes("in", 14)
	n := verifInt("n", 0, 14)
	var l LLC
	if err := l.DecodeFromBytes(in[:n], gopacket.NilDecodeFeedback); err != nil {
		verifReached("decode-err")
		return
	}
	verifReached("decoded")
	opts := gopacket.SerializeOptions{FixLengths: verifChoose(2) == 1, ComputeChecksums: false}
	pay := append([]byte(nil), l.LayerPayload()...)
	fresh := gopacket.NewSerializeBuffer()
	pb, _ := fresh.AppendBytes(len(pay))
	copy(pb, pay)
	err1 := l.SerializeTo(fresh, opts) // must not panic
	out1 := append([]byte(nil), fresh.Bytes()...)
	dirty := c06DirtyBuffer()
	pb2, _ := dirty.AppendBytes(len(pay))
	copy(pb2, pay)
	err2 := l.SerializeTo(dirty, opts)
	verifAssert((err1 == nil) == (err2 == nil), "same outcome on a fresh and on a dirty buffer")
	if err1 == nil && err2 == nil {
		verifAssert(bytes.Equal(out1, dirty.Bytes()), "same bytes on a fresh and on a previously used buffer")
		// writing the same layer again gives the same bytes
		again := gopacket.NewSerializeBufferExpectedSize(verifInt("hp", 0, 2), verifInt("ha", 0, 2))
		pb3, _ := again.AppendBytes(len(pay))
		copy(pb3, pay)
		err3 := l.SerializeTo(again, opts)
		verifAssert(err3 == nil, "repeated serialization succeeds")
		verifAssert(bytes.Equal(out1, again.Bytes()), "repeated serialization gives the same bytes")
	}
	verifReached("serialized")
}

func verif_C07_ser_Loopback() {
	in := verifBytes("in", 14)
	n := verifInt("n", 0, 14)
	var l Loopback
	if err := l.DecodeFromBytes(in[:n], gopacket.NilDecodeFeedback); err != nil {
		verifReached("decode-err")
		return
	}
	verifReached("decoded")
	opts := gopacket.SerializeOptions{FixLengths: verifChoose(2) == 1, ComputeChecksums: false}
	pay := append([]byte(nil), l.LayerPayload()...)
	fresh := gopacket.NewSerializeBuffer()
	pb, _ := fresh.AppendBytes(len(pay))
	copy(pb, pay)
	err1 := l.SerializeTo(fresh, opts) // must not panic
	out1 := append([]byte(nil), fresh.Bytes()...)
	dirty := c06DirtyBuffer()
	pb2, _ := dirty.AppendBytes(len(pay))
	copy(pb2, pay)
	err2 := l.SerializeTo(dirty, opts)
	verifAssert((err1 == nil) == (err2 == nil), "same outcome on a fresh and on a dirty buffer")
	if err1 == nil && err2 == nil {
		verifAssert(bytes.Equal(out1, dirty.Bytes()), "same bytes on a fresh and on a previously used buffer")
		// writing the same layer again gives the same bytes
		again := gopacket.NewSerializeBufferExpectedSize(verifInt("hp", 0, 2), verifInt("ha", 0, 2))
		pb3, _ := again.AppendBytes(len(pay))
		copy(pb3, pay)
		err3 := l.SerializeTo(again, opts)
		verifAssert(err3 == nil, "repeated serialization succeeds")
		verifAssert(bytes.Equal(out1, again.Bytes()), "repeated serialization gives the same bytes")
	}
	verifReached("serialized")
}

func verif_C07_ser_MDP() {
	in := verifBytes("in", 32)
	n := verifInt("n", 28, 32)
	var l MDP
	if err := l.DecodeFromBytes(in[:n], gopacket.NilDecodeFeedback); err != nil {
		verifReached("decode-err")
		return
	}
	verifReached("decoded")
	opts := gopacket.SerializeOptions{FixLengths: verifChoose(2) == 1, ComputeChecksums: false}
	pay := append([]byte(nil), l.LayerPayload()...)
	fresh := gopacket.NewSerializeBuffer()
	pb, _ := fresh.AppendBytes(len(pay))
	copy(pb, pay)
	err1 := l.SerializeTo(fresh, opts) // must not panic
	out1 := append([]byte(nil), fresh.Bytes()...)
	dirty := c06DirtyBuffer()
	pb2, _ := dirty.AppendBytes(len(pay))
	copy(pb2, pay)
	err2 := l.SerializeTo(dirty, opts)
	verifAssert((err1 == nil) == (err2 == nil), "same outcome on a fresh and on a dirty buffer")
	if err1 == nil && err2 == nil {
		verifAssert(bytes.Equal(out1, dirty.Bytes()), "same bytes on a fresh and on a previously used buffer")
		// writing the same layer again gives the same bytes
		again := gopacket.NewSerializeBufferExpectedSize(verifInt("hp", 0, 2), verifInt("ha", 0, 2))
		pb3, _ := again.AppendBytes(len(pay))
		copy(pb3, pay)
		err3 := l.SerializeTo(again, opts)
		verifAssert(err3 == nil, "repeated serialization succeeds")
		verifAssert(bytes.Equal(out1, again.Bytes()), "repeated serialization gives the same bytes")
	}
	verifReached("serialized")
}

func verif_C07_ser_MLDv1Message() {
	in := verifBytes("in", 24)
	n := verifInt("n", 20, 24)
	var l MLDv1Message
	if err := l.DecodeFromBytes(in[:n], gopacket.NilDecodeFeedback); err != nil {
		verifReached("decode-err")
		return
	}
	verifReached("decoded")
	opts := gopacket.SerializeOptions{FixLengths: verifChoose(2) == 1, ComputeChecksums: false}
	pay := append([]byte(nil), l.LayerPayload()...)
	fresh := gopacket.NewSerializeBuffer()
	pb, _ := fresh.AppendBytes(len(pay))
	copy(pb, pay)
	err1 := l.SerializeTo(fresh, opts) // must not panic
	out1 := append([]byte(nil), fresh.Bytes()...)
	dirty := c06DirtyBuffer()
	pb2, _ := dirty.AppendBytes(len(pay))
	copy(pb2, pay)
	err2 := l.SerializeTo(dirty, opts)
	verifAssert((err1 == nil) == (err2 == nil), "same outcome on a fresh and on a dirty buffer")
	if err1 == nil && err2 == nil {
		verifAssert(bytes.Equal(out1, dirty.Bytes()), "same bytes on a fresh and on a previously used buffer")
		// writing the same layer again gives the same bytes
		again := gopacket.NewSerializeBufferExpectedSize(verifInt("hp", 0, 2), verifInt("ha", 0, 2))
		pb3, _ := again.AppendBytes(len(pay))
		copy(pb3, pay)
		err3 := l.SerializeTo(again, opts)
		verifAssert(err3 == nil, "repeated serialization succeeds")
		verifAssert(bytes.Equal(out1, again.Bytes()), "repeated serialization gives the same bytes")
	}
	verifReached("serialized")
}

func verif_C07_ser_MLDv1MulticastListenerDoneMessage() {
	in := verifBytes("in", 24)
	n := verifInt("n", 20, 24)
	var l MLDv1MulticastListenerDoneMessage
	if err := l.DecodeFromBytes(in[:n], gopacket.NilDecodeFeedback); err != nil {
		verifReached("decode-err")
		return
	}
	verifReached("decoded")
	opts := gopacket.SerializeOptions{FixLengths: verifChoose(2) == 1, ComputeChecksums: false}
	pay := append([]byte(nil), l.LayerPayload()...)
	fresh := gopacket.NewSerializeBuffer()
	pb, _ := fresh.AppendBytes(len(pay))
	copy(pb, pay)
	err1 := l.SerializeTo(fresh, opts) // must not panic
	out1 := append([]byte(nil), fresh.Bytes()...)
	dirty := c06DirtyBuffer()
	pb2, _ := dirty.AppendBytes(len(pay))
	copy(pb2, pay)
	err2 := l.SerializeTo(dirty, opts)
	verifAssert((err1 == nil) == (err2 == nil), "same outcome on a fresh and on a dirty buffer")
	if err1 == nil && err2 == nil {
		verifAssert(bytes.Equal(out1, dirty.Bytes()), "same bytes on a fresh and on a previously used buffer")
		// writing the same layer again gives the same bytes
		again := gopacket.NewSerializeBufferExpectedSize(verifInt("hp", 0, 2), verifInt("ha", 0, 2))
		pb3, _ := again.AppendBytes(len(pay))
		copy(pb3, pay)
		err3 := l.SerializeTo(again, opts)
		verifAssert(err3 == nil, "repeated serialization succeeds")
		verifAssert(bytes.Equal(out1, again.Bytes()), "repeated serialization gives the same bytes")
	}
	verifReached("serialized")
}

func verif_C07_ser_MLDv1MulticastListenerQueryMessage() {
	in := verifBytes("in", 24)
	n := verifInt("n", 20, 24)
	var l MLDv1MulticastListenerQueryMessage
	if err := l.DecodeFromBytes(in[:n], gopacket.NilDecodeFeedback); err != nil {
		verifReached("decode-err")
		return
	}
	verifReached("decoded")
	opts := gopacket.SerializeOptions{FixLengths: verifChoose(2) == 1, ComputeChecksums: false}
	pay := append([]byte(nil), l.LayerPayload()...)
	fresh := gopacket.NewSerializeBuffer()
	pb, _ := fresh.AppendBytes(len(pay))
	copy(pb, pay)
	err1 := l.SerializeTo(fresh, opts) // must not panic
	out1 := append([]byte(nil), fresh.Bytes()...)
	dirty := c06DirtyBuffer()
	pb2, _ := dirty.AppendBytes(len(pay))
	copy(pb2, pay)
	err2 := l.SerializeTo(dirty, opts)
	verifAssert((err1 == nil) == (err2 == nil), "same outcome on a fresh and on a dirty buffer")
	if err1 == nil && err2 == nil {
		verifAssert(bytes.Equal(out1, dirty.Bytes()), "same bytes on a fresh and on a previously used buffer")
		// writing the same layer again gives the same bytes
		again := gopacket.NewSerializeBufferExpectedSize(verifInt("hp", 0, 2), verifInt("ha", 0, 2))
		pb3, _ := again.AppendBytes(len(pay))
		copy(pb3, pay)
		err3 := l.SerializeTo(again, opts)
		verifAssert(err3 == nil, "repeated serialization succeeds")
		verifAssert(bytes.Equal(out1, again.Bytes()), "repeated serialization gives the same bytes")
	}
	verifReached("serialized")
}

func verif_C07_ser_MLDv1MulticastListenerReportMessage() {
	in := verifBytes("in", 24)
	n := verifInt("n", 20, 24)
	var l MLDv1MulticastListenerReportMessage
	if err := l.DecodeFromBytes(in[:n], gopacket.NilDecodeFeedback); err != nil {
		verifReached("decode-err")
		return
	}
	verifReached("decoded")
	opts := gopacket.SerializeOptions{FixLengths: verifChoose(2) == 1, ComputeChecksums: false}
	pay := append([]byte(nil), l.LayerPayload()...)
	fresh := gopacket.NewSerializeBuffer()
	pb, _ := fresh.AppendBytes(len(pay))
	copy(pb, pay)
	err1 := l.SerializeTo(fresh, opts) // must not panic
	out1 := append([]byte(nil), fresh.Bytes()...)
	dirty := c06DirtyBuffer()
	pb2, _ := dirty.AppendBytes(len(pay))
	copy(pb2, pay)
	err2 := l.SerializeTo(dirty, opts)
	verifAssert((err1 == nil) == (err2 == nil), "same outcome on a fresh and on a dirty buffer")
	if err1 == nil && err2 == nil {
		verifAssert(bytes.Equal(out1, dirty.Bytes()), "same bytes on a fresh and on a previously used buffer")
		// writing the same layer again gives the same bytes
		again := gopacket.NewSerializeBufferExpectedSize(verifInt("hp", 0, 2), verifInt("ha", 0, 2))
		pb3, _ := again.AppendBytes(len(pay))
		copy(pb3, pay)
		err3 := l.SerializeTo(again, opts)
		verifAssert(err3 == nil, "repeated serialization succeeds")
		verifAssert(bytes.Equal(out1, again.Bytes()), "repeated serialization gives the same bytes")
	}
	verifReached("serialized")
}

func verif_C07_ser_MLDv2MulticastListenerQueryMessage() {
	in := verifBytes("in", 28)
	n := verifInt("n", 24, 28)
	var l MLDv2MulticastListenerQueryMessage
	if err := l.DecodeFromBytes(in[:n], gopacket.NilDecodeFeedback); err != nil {
		verifReached("decode-err")
		return
	}
	verifReached("decoded")
	opts := gopacket.SerializeOptions{FixLengths: verifChoose(2) == 1, ComputeChecksums: false}
	pay := append([]byte(nil), l.LayerPayload()...)
	fresh := gopacket.NewSerializeBuffer()
	pb, _ := fresh.AppendBytes(len(pay))
	copy(pb, pay)
	err1 := l.SerializeTo(fresh, opts) // must not panic
	out1 := append([]byte(nil), fresh.Bytes()...)
	dirty := c06DirtyBuffer()
	pb2, _ := dirty.AppendBytes(len(pay))
	copy(pb2, pay)
	err2 := l.SerializeTo(dirty, opts)
	verifAssert((err1 == nil) == (err2 == nil), "same outcome on a fresh and on a dirty buffer")
	if err1 == nil && err2 == nil {
		verifAssert(bytes.Equal(out1, dirty.Bytes()), "same bytes on a fresh and on a previously used buffer")
		// writing the same layer again gives the same bytes
		again := gopacket.NewSerializeBufferExpectedSize(verifInt("hp", 0, 2), verifInt("ha", 0, 2))
		pb3, _ := again.AppendBytes(len(pay))
		copy(pb3, pay)
		err3 := l.SerializeTo(again, opts)
		verifAssert(err3 == nil, "repeated serialization succeeds")
		verifAssert(bytes.Equal(out1, again.Bytes()), "repeated serialization gives the same bytes")
	}
	verifReached("serialized")
}

func verif_C07_ser_MLDv2MulticastListenerReportMessage() {
	in := verifBytes("in", 14)
	n := verifInt("n", 0, 14)
	var l MLDv2MulticastListenerReportMessage
	if err := l.DecodeFromBytes(in[:n], gopacket.NilDecodeFeedback); err != nil {
		verifReached("decode-err")
		return
	}
	verifReached("decoded")
	opts := gopacket.SerializeOptions{FixLengths: verifChoose(2) == 1, ComputeChecksums: false}
	pay := append([]byte(nil), l.LayerPayload()...)
	fresh := gopacket.NewSerializeBuffer()
	pb, _ := fresh.AppendBytes(len(pay))
	copy(pb, pay)
	err1 := l.SerializeTo(fresh, opts) // must not panic
	out1 := append([]byte(nil), fresh.Bytes()...)
	dirty := c06DirtyBuffer()
	pb2, _ := dirty.AppendBytes(len(pay))
	copy(pb2, pay)
	err2 := l.SerializeTo(dirty, opts)
	verifAssert((err1 == nil) == (err2 == nil), "same outcome on a fresh and on a dirty buffer")
	if err1 == nil && err2 == nil {
		verifAssert(bytes.Equal(out1, dirty.Bytes()), "same bytes on a fresh and on a previously used buffer")
		// writing the same layer again gives the same bytes
		again := gopacket.NewSerializeBufferExpectedSize(verifInt("hp", 0, 2), verifInt("ha", 0, 2))
		pb3, _ := again.AppendBytes(len(pay))
		copy(pb3, pay)
		err3 := l.SerializeTo(again, opts)
		verifAssert(err3 == nil, "repeated serialization succeeds")
		verifAssert(bytes.Equal(out1, again.Bytes()), "repeated serialization gives the same bytes")
	}
	verifReached("serialized")
}

func verif_C07_ser_NTP() {
	in := verifBytes("in", 52)
	n := verifInt("n", 48, 52)
	var l NTP
	if err := l.DecodeFromBytes(in[:n], gopacket.NilDecodeFeedback); err != nil {
		verifReached("decode-err")
		return
	}
	verifReached("decoded")
	opts := gopacket.SerializeOptions{FixLengths: verifChoose(2) == 1, ComputeChecksums: false}
	pay := append([]byte(nil), l.LayerPayload()...)
	fresh := gopacket.NewSerializeBuffer()
	pb, _ := fresh.AppendBytes(len(pay))
	copy(pb, pay)
	err1 := l.SerializeTo(fresh, opts) // must not panic
	out1 := append([]byte(nil), fresh.Bytes()...)
	dirty := c06DirtyBuffer()
	pb2, _ := dirty.AppendBytes(len(pay))
	copy(pb2, pay)
	err2 := l.SerializeTo(dirty, opts)
	verifAssert((err1 == nil) == (err2 == nil), "same outcome on a fresh and on a dirty buffer")
	if err1 == nil && err2 == nil {
		verifAssert(bytes.Equal(out1, dirty.Bytes()), "same bytes on a fresh and on a previously used buffer")
		// writing the same layer again gives the same bytes
		again := gopacket.NewSerializeBufferExpectedSize(verifInt("hp", 0, 2), verifInt("ha", 0, 2))
		pb3, _ := again.AppendBytes(len(pay))
		copy(pb3, pay)
		err3 := l.SerializeTo(again, opts)
		verifAssert(err3 == nil, "repeated serialization succeeds")
		verifAssert(bytes.Equal(out1, again.Bytes()), "repeated serialization gives the same bytes")
	}
	verifReached("serialized")
}

func verif_C07_ser_RADIUS() {
	in := verifBytes("in", 24)
	n := verifInt("n", 20, 24)
	var l RADIUS
	if err := l.DecodeFromBytes(in[:n], gopacket.NilDecodeFeedback); err != nil {
		verifReached("decode-err")
		return
	}
	verifReached("decoded")
	opts := gopacket.SerializeOptions{FixLengths: verifChoose(2) == 1, ComputeChecksums: false}
	pay := append([]byte(nil), []byte(nil)...)
	fresh := gopacket.NewSerializeBuffer()
	pb, _ := fresh.AppendBytes(len(pay))
	copy(pb, pay)
	err1 := l.SerializeTo(fresh, opts) // must not panic
	out1 := append([]byte(nil), fresh.Bytes()...)
	dirty := c06DirtyBuffer()
	pb2, _ := dirty.AppendBytes(len(pay))
	copy(pb2, pay)
	err2 := l.SerializeTo(dirty, opts)
	verifAssert((err1 == nil) == (err2 == nil), "same outcome on a fresh and on a dirty buffer")
	if err1 == nil && err2 == nil {
		verifAssert(bytes.Equal(out1, dirty.Bytes()), "same bytes on a fresh and on a previously used buffer")
		// writing the same layer again gives the same bytes
		again := gopacket.NewSerializeBufferExpectedSize(verifInt("hp", 0, 2), verifInt("ha", 0, 2))
		pb3, _ := again.AppendBytes(len(pay))
		copy(pb3, pay)
		err3 := l.SerializeTo(again, opts)
		verifAssert(err3 == nil, "repeated serialization succeeds")
		verifAssert(bytes.Equal(out1, again.Bytes()), "repeated serialization gives the same bytes")
	}
	verifReached("serialized")
}

func verif_C07_ser_RMCP() {
	in := verifBytes("in", 14)
	n := verifInt("n", 0, 14)
	var l RMCP
	if err := l.DecodeFromBytes(in[:n], gopacket.NilDecodeFeedback); err != nil {
		verifReached("decode-err")
		return
	}
	verifReached("decoded")
	opts := gopacket.SerializeOptions{FixLengths: verifChoose(2) == 1, ComputeChecksums: false}
	pay := append([]byte(nil), l.LayerPayload()...)
	fresh := gopacket.NewSerializeBuffer()
	pb, _ := fresh.AppendBytes(len(pay))
	copy(pb, pay)
	err1 := l.SerializeTo(fresh, opts) // must not panic
	out1 := append([]byte(nil), fresh.Bytes()...)
	dirty := c06DirtyBuffer()
	pb2, _ := dirty.AppendBytes(len(pay))
	copy(pb2, pay)
	err2 := l.SerializeTo(dirty, opts)
	verifAssert((err1 == nil) == (err2 == nil), "same outcome on a fresh and on a dirty buffer")
	if err1 == nil && err2 == nil {
		verifAssert(bytes.Equal(out1, dirty.Bytes()), "same bytes on a fresh and on a previously used buffer")
		// writing the same layer again gives the same bytes
		again := gopacket.NewSerializeBufferExpectedSize(verifInt("hp", 0, 2), verifInt("ha", 0, 2))
		pb3, _ := again.AppendBytes(len(pay))
		copy(pb3, pay)
		err3 := l.SerializeTo(again, opts)
		verifAssert(err3 == nil, "repeated serialization succeeds")
		verifAssert(bytes.Equal(out1, again.Bytes()), "repeated serialization gives the same bytes")
	}
	verifReached("serialized")
}

func verif_C07_ser_RadioTap() {
	in := verifBytes("in", 14)
	n := verifInt("n", 0, 14)
	var l RadioTap
	if err := l.DecodeFromBytes(in[:n], gopacket.NilDecodeFeedback); err != nil {
		verifReached("decode-err")
		return
	}
	verifReached("decoded")
	opts := gopacket.SerializeOptions{FixLengths: verifChoose(2) == 1, ComputeChecksums: false}
	pay := append([]byte(nil), l.LayerPayload()...)
	fresh := gopacket.NewSerializeBuffer()
	pb, _ := fresh.AppendBytes(len(pay))
	copy(pb, pay)
	err1 := l.SerializeTo(fresh, opts) // must not panic
	out1 := append([]byte(nil), fresh.Bytes()...)
	dirty := c06DirtyBuffer()
	pb2, _ := dirty.AppendBytes(len(pay))
	copy(pb2, pay)
	err2 := l.SerializeTo(dirty, opts)
	verifAssert((err1 == nil) == (err2 == nil), "same outcome on a fresh and on a dirty buffer")
	if err1 == nil && err2 == nil {
		verifAssert(bytes.Equal(out1, dirty.Bytes()), "same bytes on a fresh and on a previously used buffer")
		// writing the same layer again gives the same bytes
		again := gopacket.NewSerializeBufferExpectedSize(verifInt("hp", 0, 2), verifInt("ha", 0, 2))
		pb3, _ := again.AppendBytes(len(pay))
		copy(pb3, pay)
		err3 := l.SerializeTo(again, opts)
		verifAssert(err3 == nil, "repeated serialization succeeds")
		verifAssert(bytes.Equal(out1, again.Bytes()), "repeated serialization gives the same bytes")
	}
	verifReached("serialized")
}

func verif_C07_ser_SCTP() {
	in := verifBytes("in", 14)
	n := verifInt("n", 0, 14)
	var l SCTP
	if err := l.DecodeFromBytes(in[:n], gopacket.NilDecodeFeedback); err != nil {
		verifReached("decode-err")
		return
	}
	verifReached("decoded")
	opts := gopacket.SerializeOptions{FixLengths: verifChoose(2) == 1, ComputeChecksums: false}
	pay := append([]byte(nil), l.LayerPayload()...)
	fresh := gopacket.NewSerializeBuffer()
	pb, _ := fresh.AppendBytes(len(pay))
	copy(pb, pay)
	err1 := l.SerializeTo(fresh, opts) // must not panic
	out1 := append([]byte(nil), fresh.Bytes()...)
	dirty := c06DirtyBuffer()
	pb2, _ := dirty.AppendBytes(len(pay))
	copy(pb2, pay)
	err2 := l.SerializeTo(dirty, opts)
	verifAssert((err1 == nil) == (err2 == nil), "same outcome on a fresh and on a dirty buffer")
	if err1 == nil && err2 == nil {
		verifAssert(bytes.Equal(out1, dirty.Bytes()), "same bytes on a fresh and on a previously used buffer")
		// writing the same layer again gives the same bytes
		again := gopacket.NewSerializeBufferExpectedSize(verifInt("hp", 0, 2), verifInt("ha", 0, 2))
		pb3, _ := again.AppendBytes(len(pay))
		copy(pb3, pay)
		err3 := l.SerializeTo(again, opts)
		verifAssert(err3 == nil, "repeated serialization succeeds")
		verifAssert(bytes.Equal(out1, again.Bytes()), "repeated serialization gives the same bytes")
	}
	verifReached("serialized")
}

func verif_C07_ser_SNAP() {
	in := verifBytes("in", 14)
	n := verifInt("n", 0, 14)
	var l SNAP
	if err := l.DecodeFromBytes(in[:n], gopacket.NilDecodeFeedback); err != nil {
		verifReached("decode-err")
		return
	}
	verifReached("decoded")
	opts := gopacket.SerializeOptions{FixLengths: verifChoose(2) == 1, ComputeChecksums: false}
	pay := append([]byte(nil), l.LayerPayload()...)
	fresh := gopacket.NewSerializeBuffer()
	pb, _ := fresh.AppendBytes(len(pay))
	copy(pb, pay)
	err1 := l.SerializeTo(fresh, opts) // must not panic
	out1 := append([]byte(nil), fresh.Bytes()...)
	dirty := c06DirtyBuffer()
	pb2, _ := dirty.AppendBytes(len(pay))
	copy(pb2, pay)
	err2 := l.SerializeTo(dirty, opts)
	verifAssert((err1 == nil) == (err2 == nil), "same outcome on a fresh and on a dirty buffer")
	if err1 == nil && err2 == nil {
		verifAssert(bytes.Equal(out1, dirty.Bytes()), "same bytes on a fresh and on a previously used buffer")
		// writing the same layer again gives the same bytes
		again := gopacket.NewSerializeBufferExpectedSize(verifInt("hp", 0, 2), verifInt("ha", 0, 2))
		pb3, _ := again.AppendBytes(len(pay))
		copy(pb3, pay)
		err3 := l.SerializeTo(again, opts)
		verifAssert(err3 == nil, "repeated serialization succeeds")
		verifAssert(bytes.Equal(out1, again.Bytes()), "repeated serialization gives the same bytes")
	}
	verifReached("serialized")
}

func verif_C07_ser_STP() {
	in := verifBytes("in", 39)
	n := verifInt("n", 35, 39)
	var l STP
	if err := l.DecodeFromBytes(in[:n], gopacket.NilDecodeFeedback); err != nil {
		verifReached("decode-err")
		return
	}
	verifReached("decoded")
	opts := gopacket.SerializeOptions{FixLengths: verifChoose(2) == 1, ComputeChecksums: false}
	pay := append([]byte(nil), l.LayerPayload()...)
	fresh := gopacket.NewSerializeBuffer()
	pb, _ := fresh.AppendBytes(len(pay))
	copy(pb, pay)
	err1 := l.SerializeTo(fresh, opts) // must not panic
	out1 := append([]byte(nil), fresh.Bytes()...)
	dirty := c06DirtyBuffer()
	pb2, _ := dirty.AppendBytes(len(pay))
	copy(pb2, pay)
	err2 := l.SerializeTo(dirty, opts)
	verifAssert((err1 == nil) == (err2 == nil), "same outcome on a fresh and on a dirty buffer")
	if err1 == nil && err2 == nil {
		verifAssert(bytes.Equal(out1, dirty.Bytes()), "same bytes on a fresh and on a previously used buffer")
		// writing the same layer again gives the same bytes
		again := gopacket.NewSerializeBufferExpectedSize(verifInt("hp", 0, 2), verifInt("ha", 0, 2))
		pb3, _ := again.AppendBytes(len(pay))
		copy(pb3, pay)
		err3 := l.SerializeTo(again, opts)
		verifAssert(err3 == nil, "repeated serialization succeeds")
		verifAssert(bytes.Equal(out1, again.Bytes()), "repeated serialization gives the same bytes")
	}
	verifReached("serialized")
}

func verif_C07_ser_TCP() {
	in := verifBytes("in", 24)
	n := verifInt("n", 20, 24)
	var l TCP
	if err := l.DecodeFromBytes(in[:n], gopacket.NilDecodeFeedback); err != nil {
		verifReached("decode-err")
		return
	}
	verifReached("decoded")
	l.SetNetworkLayerForChecksum(c06Net4)
	opts := gopacket.SerializeOptions{FixLengths: verifChoose(2) == 1, ComputeChecksums: false}
	pay := append([]byte(nil), l.LayerPayload()...)
	fresh := gopacket.NewSerializeBuffer()
	pb, _ := fresh.AppendBytes(len(pay))
	copy(pb, pay)
	err1 := l.SerializeTo(fresh, opts) // must not panic
	out1 := append([]byte(nil), fresh.Bytes()...)
	dirty := c06DirtyBuffer()
	pb2, _ := dirty.AppendBytes(len(pay))
	copy(pb2, pay)
	err2 := l.SerializeTo(dirty, opts)
	verifAssert((err1 == nil) == (err2 == nil), "same outcome on a fresh and on a dirty buffer")
	if err1 == nil && err2 == nil {
		verifAssert(bytes.Equal(out1, dirty.Bytes()), "same bytes on a fresh and on a previously used buffer")
		// writing the same layer again gives the same bytes
		again := gopacket.NewSerializeBufferExpectedSize(verifInt("hp", 0, 2), verifInt("ha", 0, 2))
		pb3, _ := again.AppendBytes(len(pay))
		copy(pb3, pay)
		err3 := l.SerializeTo(again, opts)
		verifAssert(err3 == nil, "repeated serialization succeeds")
		verifAssert(bytes.Equal(out1, again.Bytes()), "repeated serialization gives the same bytes")
	}
	verifReached("serialized")
}

func verif_C07_ser_TLS() {
	in := verifBytes("in", 14)
	n := verifInt("n", 0, 14)
	var l TLS
	if err := l.DecodeFromBytes(in[:n], gopacket.NilDecodeFeedback); err != nil {
		verifReached("decode-err")
		return
	}
	verifReached("decoded")
	opts := gopacket.SerializeOptions{FixLengths: verifChoose(2) == 1, ComputeChecksums: false}
	pay := append([]byte(nil), l.LayerPayload()...)
	fresh := gopacket.NewSerializeBuffer()
	pb, _ := fresh.AppendBytes(len(pay))
	copy(pb, pay)
	err1 := l.SerializeTo(fresh, opts) // must not panic
	out1 := append([]byte(nil), fresh.Bytes()...)
	dirty := c06DirtyBuffer()
	pb2, _ := dirty.AppendBytes(len(pay))
	copy(pb2, pay)
	err2 := l.SerializeTo(dirty, opts)
	verifAssert((err1 == nil) == (err2 == nil), "same outcome on a fresh and on a dirty buffer")
	if err1 == nil && err2 == nil {
		verifAssert(bytes.Equal(out1, dirty.Bytes()), "same bytes on a fresh and on a previously used buffer")
		// writing the same layer again gives the same bytes
		again := gopacket.NewSerializeBufferExpectedSize(verifInt("hp", 0, 2), verifInt("ha", 0, 2))
		pb3, _ := again.AppendBytes(len(pay))
		copy(pb3, pay)
		err3 := l.SerializeTo(again, opts)
		verifAssert(err3 == nil, "repeated serialization succeeds")
		verifAssert(bytes.Equal(out1, again.Bytes()), "repeated serialization gives the same bytes")
	}
	verifReached("serialized")
}

func verif_C07_ser_UDP() {
	in := verifBytes("in", 14)
	n := verifInt("n", 0, 14)
	var l UDP
	if err := l.DecodeFromBytes(in[:n], gopacket.NilDecodeFeedback); err != nil {
		verifReached("decode-err")
		return
	}
	verifReached("decoded")
	l.SetNetworkLayerForChecksum(c06Net4)
	opts := gopacket.SerializeOptions{FixLengths: verifChoose(2) == 1, ComputeChecksums: false}
	pay := append([]byte(nil), l.LayerPayload()...)
	fresh := gopacket.NewSerializeBuffer()
	pb, _ := fresh.AppendBytes(len(pay))
	copy(pb, pay)
	err1 := l.SerializeTo(fresh, opts) // must not panic
	out1 := append([]byte(nil), fresh.Bytes()...)
	dirty := c06DirtyBuffer()
	pb2, _ := dirty.AppendBytes(len(pay))
	copy(pb2, pay)
	err2 := l.SerializeTo(dirty, opts)
	verifAssert((err1 == nil) == (err2 == nil), "same outcome on a fresh and on a dirty buffer")
	if err1 == nil && err2 == nil {
		verifAssert(bytes.Equal(out1, dirty.Bytes()), "same bytes on a fresh and on a previously used buffer")
		// writing the same layer again gives the same bytes
		again := gopacket.NewSerializeBufferExpectedSize(verifInt("hp", 0, 2), verifInt("ha", 0, 2))
		pb3, _ := again.AppendBytes(len(pay))
		copy(pb3, pay)
		err3 := l.SerializeTo(again, opts)
		verifAssert(err3 == nil, "repeated serialization succeeds")
		verifAssert(bytes.Equal(out1, again.Bytes()), "repeated serialization gives the same bytes")
	}
	verifReached("serialized")
}

func verif_C07_ser_VXLAN() {
	in := verifBytes("in", 14)
	n := verifInt("n", 0, 14)
	var l VXLAN
	if err := l.DecodeFromBytes(in[:n], gopacket.NilDecodeFeedback); err != nil {
		verifReached("decode-err")
		return
	}
	verifReached("decoded")
	opts := gopacket.SerializeOptions{FixLengths: verifChoose(2) == 1, ComputeChecksums: false}
	pay := append([]byte(nil), l.LayerPayload()...)
	fresh := gopacket.NewSerializeBuffer()
	pb, _ := fresh.AppendBytes(len(pay))
	copy(pb, pay)
	err1 := l.SerializeTo(fresh, opts) // must not panic
	out1 := append([]byte(nil), fresh.Bytes()...)
	dirty := c06DirtyBuffer()
	pb2, _ := dirty.AppendBytes(len(pay))
	copy(pb2, pay)
	err2 := l.SerializeTo(dirty, opts)
	verifAssert((err1 == nil) == (err2 == nil), "same outcome on a fresh and on a dirty buffer")
	if err1 == nil && err2 == nil {
		verifAssert(bytes.Equal(out1, dirty.Bytes()), "same bytes on a fresh and on a previously used buffer")
		// writing the same layer again gives the same bytes
		again := gopacket.NewSerializeBufferExpectedSize(verifInt("hp", 0, 2), verifInt("ha", 0, 2))
		pb3, _ := again.AppendBytes(len(pay))
		copy(pb3, pay)
		err3 := l.SerializeTo(again, opts)
		verifAssert(err3 == nil, "repeated serialization succeeds")
		verifAssert(bytes.Equal(out1, again.Bytes()), "repeated serialization gives the same bytes")
	}
	verifReached("serialized")
}
