package layers

import "github.com/gopacket/gopacket"

var _ = gopacket.NilDecodeFeedback

func verif_C05_stale_ARP() {
	a := verifBytes("a", 28)
	na := verifInt("na", 0, 28)
	b := verifBytes("b", 28)
	nb := verifInt("nb", 0, 28)
	var l, f ARP
	_ = l.DecodeFromBytes(a[:na], gopacket.NilDecodeFeedback)
	d1, d2 := &c05DF{}, &c05DF{}
	e1 := l.DecodeFromBytes(b[:nb], d1)
	e2 := f.DecodeFromBytes(b[:nb], d2)
	verifAssert((e1 == nil) == (e2 == nil), "same outcome as decoding into a fresh object")
	if e1 == nil && e2 == nil {
		verifAssert(d1.t == d2.t, "same truncation flag as a fresh object")
		verifAssert(verifDeepEqual(&l, &f), "same field values as decoding into a fresh object")
	}
	verifReached("stale")
}

func verif_C05_stale2_ARP() {
	a := verifBytes("a", 28)
	na := verifInt("na", 9, 28)
	b := verifBytes("b", 9)
	nb := verifInt("nb", 8, 9)
	var l, f ARP
	if l.DecodeFromBytes(a[:na], gopacket.NilDecodeFeedback) != nil {
		verifReached("first-rejected")
	}
	d1, d2 := &c05DF{}, &c05DF{}
	e1 := l.DecodeFromBytes(b[:nb], d1)
	e2 := f.DecodeFromBytes(b[:nb], d2)
	verifAssert((e1 == nil) == (e2 == nil), "same outcome as decoding into a fresh object")
	if e1 == nil && e2 == nil {
		verifAssert(d1.t == d2.t, "same truncation flag as a fresh object")
		verifAssert(verifDeepEqual(&l, &f), "same field values as decoding into a fresh object")
	}
	verifReached("stale")
}

func verif_C05_stale_Dot1Q() {
	a := verifBytes("a", 8)
	na := verifInt("na", 0, 8)
	b := verifBytes("b", 8)
	nb := verifInt("nb", 0, 8)
	var l, f Dot1Q
	_ = l.DecodeFromBytes(a[:na], gopacket.NilDecodeFeedback)
	d1, d2 := &c05DF{}, &c05DF{}
	e1 := l.DecodeFromBytes(b[:nb], d1)
	e2 := f.DecodeFromBytes(b[:nb], d2)
	verifAssert((e1 == nil) == (e2 == nil), "same outcome as decoding into a fresh object")
	if e1 == nil && e2 == nil {
		verifAssert(d1.t == d2.t, "same truncation flag as a fresh object")
		verifAssert(verifDeepEqual(&l, &f), "same field values as decoding into a fresh object")
	}
	verifReached("stale")
}

func verif_C05_stale2_Dot1Q() {
	a := verifBytes("a", 8)
	na := verifInt("na", 5, 8)
	b := verifBytes("b", 5)
	nb := verifInt("nb", 4, 5)
	var l, f Dot1Q
	if l.DecodeFromBytes(a[:na], gopacket.NilDecodeFeedback) != nil {
		verifReached("first-rejected")
	}
	d1, d2 := &c05DF{}, &c05DF{}
	e1 := l.DecodeFromBytes(b[:nb], d1)
	e2 := f.DecodeFromBytes(b[:nb], d2)
	verifAssert((e1 == nil) == (e2 == nil), "same outcome as decoding into a fresh object")
	if e1 == nil && e2 == nil {
		verifAssert(d1.t == d2.t, "same truncation flag as a fresh object")
		verifAssert(verifDeepEqual(&l, &f), "same field values as decoding into a fresh object")
	}
	verifReached("stale")
}

func verif_C05_stale_Ethernet() {
	a := verifBytes("a", 18)
	na := verifInt("na", 0, 18)
	b := verifBytes("b", 18)
	nb := verifInt("nb", 0, 18)
	var l, f Ethernet
	_ = l.DecodeFromBytes(a[:na], gopacket.NilDecodeFeedback)
	d1, d2 := &c05DF{}, &c05DF{}
	e1 := l.DecodeFromBytes(b[:nb], d1)
	e2 := f.DecodeFromBytes(b[:nb], d2)
	verifAssert((e1 == nil) == (e2 == nil), "same outcome as decoding into a fresh object")
	if e1 == nil && e2 == nil {
		verifAssert(d1.t == d2.t, "same truncation flag as a fresh object")
		verifAssert(verifDeepEqual(&l, &f), "same field values as decoding into a fresh object")
	}
	verifReached("stale")
}

func verif_C05_stale2_Ethernet() {
	a := verifBytes("a", 18)
	na := verifInt("na", 15, 18)
	b := verifBytes("b", 15)
	nb := verifInt("nb", 14, 15)
	var l, f Ethernet
	if l.DecodeFromBytes(a[:na], gopacket.NilDecodeFeedback) != nil {
		verifReached("first-rejected")
	}
	d1, d2 := &c05DF{}, &c05DF{}
	e1 := l.DecodeFromBytes(b[:nb], d1)
	e2 := f.DecodeFromBytes(b[:nb], d2)
	verifAssert((e1 == nil) == (e2 == nil), "same outcome as decoding into a fresh object")
	if e1 == nil && e2 == nil {
		verifAssert(d1.t == d2.t, "same truncation flag as a fresh object")
		verifAssert(verifDeepEqual(&l, &f), "same field values as decoding into a fresh object")
	}
	verifReached("stale")
}

func verif_C05_stale_GRE() {
	a := verifBytes("a", 16)
	na := verifInt("na", 0, 16)
	b := verifBytes("b", 16)
	nb := verifInt("nb", 0, 16)
	var l, f GRE
	_ = l.DecodeFromBytes(a[:na], gopacket.NilDecodeFeedback)
	d1, d2 := &c05DF{}, &c05DF{}
	e1 := l.DecodeFromBytes(b[:nb], d1)
	e2 := f.DecodeFromBytes(b[:nb], d2)
	verifAssert((e1 == nil) == (e2 == nil), "same outcome as decoding into a fresh object")
	if e1 == nil && e2 == nil {
		verifAssert(d1.t == d2.t, "same truncation flag as a fresh object")
		verifAssert(verifDeepEqual(&l, &f), "same field values as decoding into a fresh object")
	}
	verifReached("stale")
}

func verif_C05_stale2_GRE() {
	a := verifBytes("a", 16)
	na := verifInt("na", 5, 16)
	b := verifBytes("b", 5)
	nb := verifInt("nb", 4, 5)
	var l, f GRE
	if l.DecodeFromBytes(a[:na], gopacket.NilDecodeFeedback) != nil {
		verifReached("first-rejected")
	}
	d1, d2 := &c05DF{}, &c05DF{}
	e1 := l.DecodeFromBytes(b[:nb], d1)
	e2 := f.DecodeFromBytes(b[:nb], d2)
	verifAssert((e1 == nil) == (e2 == nil), "same outcome as decoding into a fresh object")
	if e1 == nil && e2 == nil {
		verifAssert(d1.t == d2.t, "same truncation flag as a fresh object")
		verifAssert(verifDeepEqual(&l, &f), "same field values as decoding into a fresh object")
	}
	verifReached("stale")
}

func verif_C05_stale_ICMPv4() {
	a := verifBytes("a", 12)
	na := verifInt("na", 0, 12)
	b := verifBytes("b", 12)
	nb := verifInt("nb", 0, 12)
	var l, f ICMPv4
	_ = l.DecodeFromBytes(a[:na], gopacket.NilDecodeFeedback)
	d1, d2 := &c05DF{}, &c05DF{}
	e1 := l.DecodeFromBytes(b[:nb], d1)
	e2 := f.DecodeFromBytes(b[:nb], d2)
	verifAssert((e1 == nil) == (e2 == nil), "same outcome as decoding into a fresh object")
	if e1 == nil && e2 == nil {
		verifAssert(d1.t == d2.t, "same truncation flag as a fresh object")
		verifAssert(verifDeepEqual(&l, &f), "same field values as decoding into a fresh object")
	}
	verifReached("stale")
}

func verif_C05_stale2_ICMPv4() {
	a := verifBytes("a", 12)
	na := verifInt("na", 9, 12)
	b := verifBytes("b", 9)
	nb := verifInt("nb", 8, 9)
	var l, f ICMPv4
	if l.DecodeFromBytes(a[:na], gopacket.NilDecodeFeedback) != nil {
		verifReached("first-rejected")
	}
	d1, d2 := &c05DF{}, &c05DF{}
	e1 := l.DecodeFromBytes(b[:nb], d1)
	e2 := f.DecodeFromBytes(b[:nb], d2)
	verifAssert((e1 == nil) == (e2 == nil), "same outcome as decoding into a fresh object")
	if e1 == nil && e2 == nil {
		verifAssert(d1.t == d2.t, "same truncation flag as a fresh object")
		verifAssert(verifDeepEqual(&l, &f), "same field values as decoding into a fresh object")
	}
	verifReached("stale")
}

func verif_C05_stale_ICMPv6() {
	a := verifBytes("a", 12)
	na := verifInt("na", 0, 12)
	b := verifBytes("b", 12)
	nb := verifInt("nb", 0, 12)
	var l, f ICMPv6
	_ = l.DecodeFromBytes(a[:na], gopacket.NilDecodeFeedback)
	d1, d2 := &c05DF{}, &c05DF{}
	e1 := l.DecodeFromBytes(b[:nb], d1)
	e2 := f.DecodeFromBytes(b[:nb], d2)
	verifAssert((e1 == nil) == (e2 == nil), "same outcome as decoding into a fresh object")
	if e1 == nil && e2 == nil {
		verifAssert(d1.t == d2.t, "same truncation flag as a fresh object")
		verifAssert(verifDeepEqual(&l, &f), "same field values as decoding into a fresh object")
	}
	verifReached("stale")
}

func verif_C05_stale2_ICMPv6() {
	a := verifBytes("a", 12)
	na := verifInt("na", 5, 12)
	b := verifBytes("b", 5)
	nb := verifInt("nb", 4, 5)
	var l, f ICMPv6
	if l.DecodeFromBytes(a[:na], gopacket.NilDecodeFeedback) != nil {
		verifReached("first-rejected")
	}
	d1, d2 := &c05DF{}, &c05DF{}
	e1 := l.DecodeFromBytes(b[:nb], d1)
	e2 := f.DecodeFromBytes(b[:nb], d2)
	verifAssert((e1 == nil) == (e2 == nil), "same outcome as decoding into a fresh object")
	if e1 == nil && e2 == nil {
		verifAssert(d1.t == d2.t, "same truncation flag as a fresh object")
		verifAssert(verifDeepEqual(&l, &f), "same field values as decoding into a fresh object")
	}
	verifReached("stale")
}

func verif_C05_stale_IPv4() {
	a := verifBytes("a", 28)
	na := verifInt("na", 0, 28)
	b := verifBytes("b", 28)
	nb := verifInt("nb", 0, 28)
	var l, f IPv4
	_ = l.DecodeFromBytes(a[:na], gopacket.NilDecodeFeedback)
	d1, d2 := &c05DF{}, &c05DF{}
	e1 := l.DecodeFromBytes(b[:nb], d1)
	e2 := f.DecodeFromBytes(b[:nb], d2)
	verifAssert((e1 == nil) == (e2 == nil), "same outcome as decoding into a fresh object")
	if e1 == nil && e2 == nil {
		verifAssert(d1.t == d2.t, "same truncation flag as a fresh object")
		verifAssert(verifDeepEqual(&l, &f), "same field values as decoding into a fresh object")
	}
	verifReached("stale")
}

func verif_C05_stale2_IPv4() {
	a := verifBytes("a", 28)
	na := verifInt("na", 21, 28)
	b := verifBytes("b", 21)
	nb := verifInt("nb", 20, 21)
	var l, f IPv4
	if l.DecodeFromBytes(a[:na], gopacket.NilDecodeFeedback) != nil {
		verifReached("first-rejected")
	}
	d1, d2 := &c05DF{}, &c05DF{}
	e1 := l.DecodeFromBytes(b[:nb], d1)
	e2 := f.DecodeFromBytes(b[:nb], d2)
	verifAssert((e1 == nil) == (e2 == nil), "same outcome as decoding into a fresh object")
	if e1 == nil && e2 == nil {
		verifAssert(d1.t == d2.t, "same truncation flag as a fresh object")
		verifAssert(verifDeepEqual(&l, &f), "same field values as decoding into a fresh object")
	}
	verifReached("stale")
}

func verif_C05_stale_IPv6() {
	a := verifBytes("a", 48)
	na := verifInt("na", 0, 48)
	b := verifBytes("b", 48)
	nb := verifInt("nb", 0, 48)
	var l, f IPv6
	_ = l.DecodeFromBytes(a[:na], gopacket.NilDecodeFeedback)
	d1, d2 := &c05DF{}, &c05DF{}
	e1 := l.DecodeFromBytes(b[:nb], d1)
	e2 := f.DecodeFromBytes(b[:nb], d2)
	verifAssert((e1 == nil) == (e2 == nil), "same outcome as decoding into a fresh object")
	if e1 == nil && e2 == nil {
		verifAssert(d1.t == d2.t, "same truncation flag as a fresh object")
		verifAssert(verifDeepEqual(&l, &f), "same field values as decoding into a fresh object")
	}
	verifReached("stale")
}

func verif_C05_stale2_IPv6() {
	a := verifBytes("a", 48)
	na := verifInt("na", 41, 48)
	b := verifBytes("b", 41)
	nb := verifInt("nb", 40, 41)
	var l, f IPv6
	if l.DecodeFromBytes(a[:na], gopacket.NilDecodeFeedback) != nil {
		verifReached("first-rejected")
	}
	d1, d2 := &c05DF{}, &c05DF{}
	e1 := l.DecodeFromBytes(b[:nb], d1)
	e2 := f.DecodeFromBytes(b[:nb], d2)
	verifAssert((e1 == nil) == (e2 == nil), "same outcome as decoding into a fresh object")
	if e1 == nil && e2 == nil {
		verifAssert(d1.t == d2.t, "same truncation flag as a fresh object")
		verifAssert(verifDeepEqual(&l, &f), "same field values as decoding into a fresh object")
	}
	verifReached("stale")
}

func verif_C05_stale_TCP() {
	a := verifBytes("a", 28)
	na := verifInt("na", 0, 28)
	b := verifBytes("b", 28)
	nb := verifInt("nb", 0, 28)
	var l, f TCP
	_ = l.DecodeFromBytes(a[:na], gopacket.NilDecodeFeedback)
	d1, d2 := &c05DF{}, &c05DF{}
	e1 := l.DecodeFromBytes(b[:nb], d1)
	e2 := f.DecodeFromBytes(b[:nb], d2)
	verifAssert((e1 == nil) == (e2 == nil), "same outcome as decoding into a fresh object")
	if e1 == nil && e2 == nil {
		verifAssert(d1.t == d2.t, "same truncation flag as a fresh object")
		verifAssert(verifDeepEqual(&l, &f), "same field values as decoding into a fresh object")
	}
	verifReached("stale")
}

func verif_C05_stale2_TCP() {
	a := verifBytes("a", 28)
	na := verifInt("na", 21, 28)
	b := verifBytes("b", 21)
	nb := verifInt("nb", 20, 21)
	var l, f TCP
	if l.DecodeFromBytes(a[:na], gopacket.NilDecodeFeedback) != nil {
		verifReached("first-rejected")
	}
	d1, d2 := &c05DF{}, &c05DF{}
	e1 := l.DecodeFromBytes(b[:nb], d1)
	e2 := f.DecodeFromBytes(b[:nb], d2)
	verifAssert((e1 == nil) == (e2 == nil), "same outcome as decoding into a fresh object")
	if e1 == nil && e2 == nil {
		verifAssert(d1.t == d2.t, "same truncation flag as a fresh object")
		verifAssert(verifDeepEqual(&l, &f), "same field values as decoding into a fresh object")
	}
	verifReached("stale")
}

func verif_C05_stale_UDP() {
	a := verifBytes("a", 12)
	na := verifInt("na", 0, 12)
	b := verifBytes("b", 12)
	nb := verifInt("nb", 0, 12)
	var l, f UDP
	_ = l.DecodeFromBytes(a[:na], gopacket.NilDecodeFeedback)
	d1, d2 := &c05DF{}, &c05DF{}
	e1 := l.DecodeFromBytes(b[:nb], d1)
	e2 := f.DecodeFromBytes(b[:nb], d2)
	verifAssert((e1 == nil) == (e2 == nil), "same outcome as decoding into a fresh object")
	if e1 == nil && e2 == nil {
		verifAssert(d1.t == d2.t, "same truncation flag as a fresh object")
		verifAssert(verifDeepEqual(&l, &f), "same field values as decoding into a fresh object")
	}
	verifReached("stale")
}

func verif_C05_stale2_UDP() {
	a := verifBytes("a", 12)
	na := verifInt("na", 9, 12)
	b := verifBytes("b", 9)
	nb := verifInt("nb", 8, 9)
	var l, f UDP
	if l.DecodeFromBytes(a[:na], gopacket.NilDecodeFeedback) != nil {
		verifReached("first-rejected")
	}
	d1, d2 := &c05DF{}, &c05DF{}
	e1 := l.DecodeFromBytes(b[:nb], d1)
	e2 := f.DecodeFromBytes(b[:nb], d2)
	verifAssert((e1 == nil) == (e2 == nil), "same outcome as decoding into a fresh object")
	if e1 == nil && e2 == nil {
		verifAssert(d1.t == d2.t, "same truncation flag as a fresh object")
		verifAssert(verifDeepEqual(&l, &f), "same field values as decoding into a fresh object")
	}
	verifReached("stale")
}
