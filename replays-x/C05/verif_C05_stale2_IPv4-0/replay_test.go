package layers

import (
	"fmt"
	"os"
	rtdebug "runtime/debug"
	"testing"
)

var verifUnits = map[string]func(){
	"verif_C05_parser_ip4": verif_C05_parser_ip4,
	"verif_C05_parser_ip6": verif_C05_parser_ip6,
	"verif_C05_parser_eth": verif_C05_parser_eth,
	"verif_C05_stale_ARP": verif_C05_stale_ARP,
	"verif_C05_stale2_ARP": verif_C05_stale2_ARP,
	"verif_C05_stale_Dot1Q": verif_C05_stale_Dot1Q,
	"verif_C05_stale2_Dot1Q": verif_C05_stale2_Dot1Q,
	"verif_C05_stale_Ethernet": verif_C05_stale_Ethernet,
	"verif_C05_stale2_Ethernet": verif_C05_stale2_Ethernet,
	"verif_C05_stale_GRE": verif_C05_stale_GRE,
	"verif_C05_stale2_GRE": verif_C05_stale2_GRE,
	"verif_C05_stale_ICMPv4": verif_C05_stale_ICMPv4,
	"verif_C05_stale2_ICMPv4": verif_C05_stale2_ICMPv4,
	"verif_C05_stale_ICMPv6": verif_C05_stale_ICMPv6,
	"verif_C05_stale2_ICMPv6": verif_C05_stale2_ICMPv6,
	"verif_C05_stale_IPv4": verif_C05_stale_IPv4,
	"verif_C05_stale2_IPv4": verif_C05_stale2_IPv4,
	"verif_C05_stale_IPv6": verif_C05_stale_IPv6,
	"verif_C05_stale2_IPv6": verif_C05_stale2_IPv6,
	"verif_C05_stale_TCP": verif_C05_stale_TCP,
	"verif_C05_stale2_TCP": verif_C05_stale2_TCP,
	"verif_C05_stale_UDP": verif_C05_stale_UDP,
	"verif_C05_stale2_UDP": verif_C05_stale2_UDP,
}

func TestVerifReplay(t *testing.T) {
	defer func() {
		if r := recover(); r != nil {
			fmt.Printf("REPLAY-PANIC: %v\n", r)
			rtdebug.PrintStack()
			return
		}
	}()
	verifUnits[os.Getenv("VERIF_REPLAY_UNIT")]()
	fmt.Println("REPLAY-NO-VIOLATION")
}
