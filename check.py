#!/usr/bin/env python3
"""Driver: /verif/check <ID> [--tier quick|thorough]

Builds the harness tree for a property from /repo's current working tree,
runs the symbolic executor (symgo), replays every counterexample against the
native build, matches confirmed violations against known_findings.json,
writes evidence/<ID>.json and prints VIOLATION / KNOWN-FINDING lines.

exit 0: every obligation within the registered bounds discharged
exit 1: a natively reproduced violation that known_findings.json does not list
exit 3: inconclusive (solver unknown, unwinding bound hit, vacuous harness,
        engine discrepancy, harness does not compile against the tree)
"""
import json, os, re, shutil, subprocess, sys, time, hashlib

VERIF = os.path.dirname(os.path.abspath(__file__))
REPO = os.environ.get("VERIF_REPO", "/repo")
SYMGO = os.path.join(VERIF, "bin", "symgo")
MOD = "github.com/gopacket/gopacket"
GOENV = dict(os.environ, PATH="/opt/veriftools/go1.26.8/bin:" + os.environ.get("PATH", ""),
             GOTOOLCHAIN="local", GOFLAGS="-mod=mod", GOPROXY="off", GOSUMDB="off")

sys.path.insert(0, VERIF)
import props  # per-property configuration and harness generators


def sh(cmd, **kw):
    return subprocess.run(cmd, shell=isinstance(cmd, str), capture_output=True, text=True, **kw)


def ensure_built():
    if not os.path.exists(SYMGO) or any(
            os.path.getmtime(os.path.join(VERIF, "symgo", f)) > os.path.getmtime(SYMGO)
            for f in os.listdir(os.path.join(VERIF, "symgo")) if f.endswith(".go")):
        r = sh([os.path.join(VERIF, "build.sh")])
        if r.returncode != 0:
            print("BUILD-FAILED", r.stdout, r.stderr)
            sys.exit(3)


PKGNAME = {"": "gopacket"}


def pkgname(rel):
    return PKGNAME.get(rel, os.path.basename(rel))


def native_fixup(src, rel):
    if rel == "":
        return src.replace("/*GOPACKET*/", "").replace("/*GOPACKETIMPORT*/", "")
    return src.replace("/*GOPACKET*/", "gopacket.").replace("/*GOPACKETIMPORT*/", '"github.com/gopacket/gopacket"')


def write_decl(dst_dir, rel, native):
    src = open(os.path.join(VERIF, "harness", "decl_native.go.tmpl" if native else "decl.go")).read()
    src = re.sub(r"^package \w+", "package " + pkgname(rel), src, count=1, flags=re.M)
    if native:
        src = native_fixup(src, rel)
    os.makedirs(os.path.join(dst_dir, rel), exist_ok=True)
    open(os.path.join(dst_dir, rel, "decl_native.go" if native else "decl.go"), "w").write(src)


def build_harness(pid, tier, cfg, work):
    """Returns harness dir; files: <work>/harness/<relpkg>/*.go"""
    hdir = os.path.join(work, "harness")
    shutil.rmtree(hdir, ignore_errors=True)
    os.makedirs(hdir)
    rels = set()
    for rel, fname in cfg.get("static", []):
        os.makedirs(os.path.join(hdir, rel), exist_ok=True)
        shutil.copy(os.path.join(VERIF, "harness", rel, fname), os.path.join(hdir, rel, fname))
        rels.add(rel)
    gen = cfg.get("generate")
    if gen:
        for rel, fname, text in gen(tier, lambda pk: enum(pk)):
            os.makedirs(os.path.join(hdir, rel), exist_ok=True)
            open(os.path.join(hdir, rel, fname), "w").write(text)
            rels.add(rel)
    for rel in rels:
        write_decl(hdir, rel, False)
    return hdir, sorted(rels)


_enum_cache = {}


def enum(pkg):
    if pkg not in _enum_cache:
        r = sh([SYMGO, "enum", "-repo", REPO, "-pkgs", pkg])
        if r.returncode != 0:
            print("ENUM-FAILED", r.stderr[-2000:])
            sys.exit(3)
        _enum_cache[pkg] = json.loads(r.stdout)
    return _enum_cache[pkg]


def run_symgo(hdir, cfg, tcfg, out):
    cmd = [SYMGO, "run", "-repo", REPO, "-pkgs", ",".join(cfg["pkgs"]), "-harness", hdir,
           "-units", os.environ.get("VERIF_UNITS") or tcfg.get("units", cfg.get("units", "verif_%s_.*" % cfg["_pid"])), "-j", str(tcfg.get("j", 16)), "-out", out]
    for k in ("unwind", "steps", "maxpaths", "timeout", "qtimeout", "fbtimeout", "maxdepth", "rlimit", "fallback", "solver", "params"):
        if k in tcfg:
            cmd += ["-" + k, str(tcfg[k])]
    r = subprocess.run(cmd, capture_output=True, text=True)
    try:
        open(out + ".stderr", "w").write(r.stderr or "")
    except OSError:
        pass
    return r


_replay_bins = {}


def unit_pkg(hdir, rels, unit):
    for r_ in rels:
        for f in os.listdir(os.path.join(hdir, r_)):
            if f.endswith(".go") and re.search(r"^func %s\(\)" % re.escape(unit), open(os.path.join(hdir, r_, f)).read(), re.M):
                return r_
    return None


def prepare_replay(pid, hdir, rel, work, race=False):
    """Builds one native test binary per package holding every harness unit."""
    ck = (rel, race)
    if ck in _replay_bins:
        return _replay_bins[ck]
    bdir = os.path.join(work, "replaybin" + ("-race" if race else ""), rel or "root")
    shutil.rmtree(bdir, ignore_errors=True)
    os.makedirs(bdir)
    overlay = {}
    units = []
    for f in sorted(os.listdir(os.path.join(hdir, rel))):
        if f == "decl.go" or not f.endswith(".go"):
            continue
        shutil.copy(os.path.join(hdir, rel, f), os.path.join(bdir, f))
        overlay[os.path.join(REPO, rel, "zz_verif_" + f)] = os.path.join(bdir, f)
        units += re.findall(r"^func (verif_\w+)\(\)", open(os.path.join(bdir, f)).read(), re.M)
    src = open(os.path.join(VERIF, "harness", "decl_native.go.tmpl")).read()
    src = re.sub(r"^package \w+", "package " + pkgname(rel), src, count=1, flags=re.M)
    src = native_fixup(src, rel)
    open(os.path.join(bdir, "decl_native.go"), "w").write(src)
    overlay[os.path.join(REPO, rel, "zz_verif_decl_native.go")] = os.path.join(bdir, "decl_native.go")
    table = "\n".join('\t"%s": %s,' % (u, u) for u in units)
    test = """package %s

import (
	"fmt"
	"os"
	rtdebug "runtime/debug"
	"testing"
)

var verifUnits = map[string]func(){
%s
}

func TestVerifReplay(t *testing.T) {
	defer func() {
		if r := recover(); r != nil {
			fmt.Printf("REPLAY-PANIC: %%v\\n", r)
			rtdebug.PrintStack()
			return
		}
	}()
	verifUnits[os.Getenv("VERIF_REPLAY_UNIT")]()
	fmt.Println("REPLAY-NO-VIOLATION")
}
""" % (pkgname(rel), table)
    open(os.path.join(bdir, "replay_test.go"), "w").write(test)
    overlay[os.path.join(REPO, rel, "zz_verif_replay_test.go")] = os.path.join(bdir, "replay_test.go")
    json.dump({"Replace": overlay}, open(os.path.join(bdir, "overlay.json"), "w"), indent=1)
    binp = os.path.join(bdir, "replay.test")
    pkgpath = "./" + rel if rel else "."
    r = subprocess.run("cd %s && go test -vet=off %s -c -overlay %s -o %s %s" % (REPO, "-race" if race else "", os.path.join(bdir, "overlay.json"), binp, pkgpath),
                       shell=True, capture_output=True, text=True, env=GOENV)
    if r.returncode != 0 or not os.path.exists(binp):
        print("REPLAY-BUILD-FAILED", (r.stdout + r.stderr)[-3000:])
        _replay_bins[ck] = (None, bdir)
    else:
        _replay_bins[ck] = (binp, bdir)
    return _replay_bins[ck]


def replay(pid, unit, vio, hdir, rels, idx, work):
    """Native replay of one counterexample. Returns (confirmed, detail, path)."""
    rdir = os.path.join(VERIF, "replays" + os.environ.get("VERIF_WORKTAG", ""), pid, "%s-%d" % (unit.replace("@", "_").replace("=", ""), idx))
    shutil.rmtree(rdir, ignore_errors=True)
    os.makedirs(rdir)
    params = ""
    if "@" in unit:
        unit, params = unit.split("@", 1)
    rel = unit_pkg(hdir, rels, unit)
    if rel is None:
        return False, "unit source not found", rdir
    binp, bdir = prepare_replay(pid, hdir, rel, work, race=(vio["kind"] == "barrier"))
    if binp is None:
        return False, "native replay build failed", rdir
    # self-contained copy for later manual replay
    for f in os.listdir(bdir):
        if f.endswith(".go"):
            shutil.copy(os.path.join(bdir, f), os.path.join(rdir, f))
    ov = json.load(open(os.path.join(bdir, "overlay.json")))["Replace"]
    ov = {k: os.path.join(rdir, os.path.basename(v)) for k, v in ov.items()}
    json.dump({"Replace": ov}, open(os.path.join(rdir, "overlay.json"), "w"), indent=1)
    json.dump({"inputs": vio["inputs"], "choices": vio.get("choices") or []}, open(os.path.join(rdir, "inputs.json"), "w"), indent=1)
    pkgpath = "./" + rel if rel else "."
    manual = "cd %s && VERIF_REPLAY_PARAMS='%s' VERIF_REPLAY_UNIT=%s VERIF_REPLAY_INPUTS=%s go test -vet=off -count=1 -timeout 30s -overlay %s -run '^TestVerifReplay$' -v %s" % (
        REPO, params, unit, os.path.join(rdir, "inputs.json"), os.path.join(rdir, "overlay.json"), pkgpath)
    open(os.path.join(rdir, "cmd.sh"), "w").write("#!/bin/sh\nexport PATH=/opt/veriftools/go1.26.8/bin:$PATH GOTOOLCHAIN=local GOFLAGS=-mod=mod GOPROXY=off GOSUMDB=off\n" + manual + "\n")
    open(os.path.join(rdir, "violation.json"), "w").write(json.dumps(vio, indent=1))
    cmdline = "cd %s && %s -test.run '^TestVerifReplay$' -test.timeout 20s -test.v" % (os.path.join(REPO, rel), binp)
    if vio["kind"] == "alloc":
        cmdline = "ulimit -v 3000000; " + cmdline
    env = dict(GOENV, VERIF_REPLAY_UNIT=unit, VERIF_REPLAY_PARAMS=params, VERIF_REPLAY_INPUTS=os.path.join(rdir, "inputs.json"))
    r = subprocess.run(cmdline, shell=True, capture_output=True, text=True, env=env)
    out = r.stdout + r.stderr
    open(os.path.join(rdir, "output.txt"), "w").write(out)
    kind = vio["kind"]
    ok = False
    detail = ""
    if "VERIF-ASSUME-FAILED" in out:
        detail = "assumption fails natively (engine discrepancy)"
    elif kind == "assert":
        m = re.search(r"REPLAY-PANIC: VERIF-ASSERT: (.*)", out)
        ok = bool(m) and m.group(1).strip() == vio["msg"].strip()
        detail = m.group(0) if m else "no assertion failure natively"
    elif kind == "panic":
        m = re.search(r"REPLAY-PANIC: (.*)", out)
        ok = bool(m) and "VERIF-ASSERT" not in m.group(1)
        if not ok and re.search(r"^(panic|fatal error): ", out, re.M) and "test timed out" not in out:
            ok = True  # panic in another goroutine / fatal error
            m = re.search(r"^(panic|fatal error): .*", out, re.M)
        detail = m.group(0) if m else "no panic natively"
    elif kind in ("deadlock", "unwind"):
        ok = "test timed out" in out or "all goroutines are asleep" in out
        detail = "native run did not terminate" if ok else "native run terminated"
    elif kind == "alloc":
        ok = "out of memory" in out or "cannot allocate" in out or "makeslice: len out of range" in out
        detail = "native allocation failed under 3 GB address-space limit" if ok else "native run allocated within limit"
    elif kind == "barrier":
        ok = "DATA RACE" in out or "VERIF-ASSERT" in out
        detail = "race detector reports a data race natively" if "DATA RACE" in out else ("assertion fails natively" if ok else "no data race reported natively")
    elif kind == "fatal":
        ok = "fatal error" in out
        detail = "fatal error natively" if ok else "no fatal error natively"
    else:
        detail = "kind %s is not natively replayable" % kind
    return ok, detail, rdir


def load_known():
    p = os.path.join(VERIF, "known_findings.json")
    if not os.path.exists(p):
        return []
    return json.load(open(p)).get("findings", [])


def main():
    args = sys.argv[1:]
    if not args:
        print(__doc__)
        sys.exit(2)
    pid = args[0]
    tier = os.environ.get("VERIF_TIER", "quick")
    if "--tier" in args:
        tier = args[args.index("--tier") + 1]
    seed = int(os.environ.get("VERIF_SEED", "0") or 0)
    t0 = time.time()
    ensure_built()
    cfg = props.PROPS[pid]
    cfg["_pid"] = pid
    tcfg = dict(cfg.get("common", {}))
    tcfg.update(cfg[tier])
    if os.environ.get("VERIF_UNIT_TIMEOUT"):
        # maintenance only: smaller per-unit time budget, to exercise a tier quickly
        tcfg["timeout"] = int(os.environ["VERIF_UNIT_TIMEOUT"])
    work = os.path.join(VERIF, "work", "%s-%s%s" % (pid, tier, os.environ.get("VERIF_WORKTAG", "")))
    os.makedirs(work, exist_ok=True)
    hdir, rels = build_harness(pid, tier, cfg, work)
    out = os.path.join(work, "result.json")
    if os.path.exists(out):
        os.remove(out)
    r = run_symgo(hdir, cfg, tcfg, out)
    if not os.path.exists(out):
        print("INCONCLUSIVE property=%s symgo failed: %s" % (pid, (r.stderr or r.stdout)[-3000:]))
        write_evidence(pid, tier, seed, cfg, tcfg, None, [], [], [], time.time() - t0, ["symgo failed: " + (r.stderr or "")[-500:]])
        sys.exit(3)
    res = json.load(open(out))
    units = res["units"]
    known = [k for k in load_known() if k["property"] == pid]
    known_keys = {k["key"]: k for k in known if k.get("status", "known") == "known"}
    inconclusive = []
    new_violations = []
    known_hits = {}
    replays = 0
    discrepancies = []
    allow_partial = set(tcfg.get("partial_ok", []))
    not_encoded = []
    partial = []
    seen = {}
    for u in units:
        name = u["unit"]
        if u.get("internal_error"):
            inconclusive.append("%s: internal error %s" % (name, u["internal_error"][:200]))
        if u.get("unsupported"):
            not_encoded.append({"unit": name, "reason": u["unsupported"]})
            if name not in allow_partial and not tcfg.get("unsupported_ok"):
                inconclusive.append("%s: not encodable: %s" % (name, u["unsupported"][:200]))
        if u.get("unknown"):
            if tier == "thorough" and tcfg.get("best_effort", True):
                # thorough tier: a branch no back end could decide within its limits is
                # not explored and not claimed; the unit is listed as partially explored
                partial.append({"unit": name, "why": "%d branch or assertion conditions undecided by all solver back ends within their limits: those branches were not explored and nothing is claimed for them" % u["unknown"], "paths": u["paths"]})
            else:
                inconclusive.append("%s: %d solver unknowns" % (name, u["unknown"]))
        if u.get("truncated"):
            partial.append({"unit": name, "why": u["truncated"], "paths": u["paths"]})
            capped = u["truncated"].startswith("path cap") or u["truncated"].startswith("unwinding") or u["truncated"].startswith("step budget") or u["truncated"].startswith("call depth")
            if tier == "thorough" and tcfg.get("best_effort", True) and u["truncated"].startswith("time budget"):
                continue_ok = True
            else:
                continue_ok = False
            if not continue_ok and not (capped and (tcfg.get("partial_ok_all") or name in allow_partial)):
                inconclusive.append("%s: exploration truncated: %s" % (name, u["truncated"]))
        for lbl in tcfg.get("must_reach", {}).get(name, cfg.get("must_reach_all", [])):
            if not u.get("unsupported") and u["reached"].get(lbl, 0) == 0 and not u.get("violations"):
                inconclusive.append("%s: vacuous: label %r never reached" % (name, lbl))
        for i, v in enumerate(u.get("violations") or []):
            flt = cfg.get("violation_filter")
            if flt and not flt(name, v):
                continue
            base = name.split("@")[0]
            key = "%s|%s" % (base, v["key"])
            v["unit"] = name
            st = seen.setdefault(key, {"confirmed": False, "tries": 0, "fails": []})
            if st["confirmed"] or st["tries"] >= 3:
                continue
            st["tries"] += 1
            ok, detail, rdir = replay(pid, name, v, hdir, rels, i, work)
            replays += 1
            v["replay"] = {"confirmed": ok, "detail": detail, "path": rdir}
            if not ok:
                st["fails"].append("%s: %s %s at %s: %s" % (name, v["kind"], v["msg"], v["site"], detail))
                continue
            st["confirmed"] = True
            if key in known_keys:
                known_hits[key] = v
            else:
                new_violations.append((key, v))
    for key, st in seen.items():
        if not st["confirmed"]:
            if "|unwind|" in key and tcfg.get("partial_ok_all"):
                partial.append({"unit": key.split("|")[0], "why": "unwinding bound reached (native run terminates): " + st["fails"][0][:200]})
                continue
            discrepancies.append(st["fails"][0])
    json.dump([{"key": k, "unit": v["unit"], "kind": v["kind"], "site": v["site"], "msg": v["msg"], "replay": v["replay"]["path"]} for k, v in new_violations],
              open(os.path.join(work, "confirmed_new.json"), "w"), indent=1)
    for key, v in sorted(known_hits.items()):
        print("KNOWN-FINDING: property=%s %s" % (pid, known_keys[key].get("what", key)))
    for key, v in new_violations:
        print("VIOLATION property=%s replay=%s" % (pid, v["replay"]["path"]))
        print("  unit=%s kind=%s site=%s msg=%s" % (v["unit"], v["kind"], v["site"], v["msg"]))
        print("  key=%s" % key)
    for d in discrepancies:
        print("ENGINE-DISCREPANCY property=%s %s" % (pid, d))
        inconclusive.append("engine discrepancy: " + d)
    wall = time.time() - t0
    write_evidence(pid, tier, seed, cfg, tcfg, res, new_violations, sorted(known_hits), not_encoded, wall, inconclusive, replays, partial)
    tot_paths = sum(u["paths"] for u in units)
    tot_q = sum(u["queries"] for u in units)
    print("property=%s tier=%s units=%d paths=%d queries=%d solver_s=%.1f wall_s=%.1f not_encoded=%d" % (
        pid, tier, len(units), tot_paths, tot_q, sum(u["solver_s"] for u in units), wall, len(not_encoded)))
    if new_violations:
        sys.exit(1)
    if inconclusive:
        for m in inconclusive[:40]:
            print("INCONCLUSIVE property=%s %s" % (pid, m))
        sys.exit(3)
    sys.exit(0)


def write_evidence(pid, tier, seed, cfg, tcfg, res, new_violations, known_hits, not_encoded, wall, inconclusive, replays=0, partial=()):
    os.makedirs(os.path.join(VERIF, "evidence"), exist_ok=True)
    units = res["units"] if res else []
    funcs = sorted({f for u in units for f in (u.get("functions_encoded") or [])})
    samples = []
    for u in units:
        for s in (u.get("samples") or [])[:1]:
            nz = {k: v for k, v in s.items() if v}
            samples.append({"unit": u["unit"], "path_model_nonzero_inputs": dict(list(nz.items())[:24])})
    per_unit = [{"unit": u["unit"], "paths": u["paths"], "decisions": u["decisions"], "queries": u["queries"],
                 "unknown": u.get("unknown", 0), "unwind_fails": u.get("unwind_fails", 0),
                 "truncated": u.get("truncated", ""), "unsupported": u.get("unsupported", ""),
                 "violations": len(u.get("violations") or []), "reached": u.get("reached"),
                 "assert_sites": u.get("assert_sites"), "solver_s": round(u.get("solver_s", 0), 2),
                 "fallback_queries": u.get("fallback_queries", 0)} for u in units]
    ev = {
        "property_id": pid, "tier": tier, "seed": seed, "level": "model_checking",
        "coverage": {
            "states": max(1, sum(u["paths"] for u in units)) if units else 0,
            "transitions": max(1, sum(u["decisions"] for u in units)) if units else 0,
            "traces_validated_against_impl": replays,
            "samples": samples[:12] or [{"note": "no unit ran"}],
            "exhaustive": False,
            "explanation": "bounded symbolic execution of the real Go code from go/ssa; states = explored paths (each covers all inputs satisfying its path condition), transitions = solver-decided choice points; every branch, bounds check, nil check, division and harness assertion decided by SMT (QF_BV) within the stated bounds",
            "functions_encoded": funcs,
            "units": per_unit,
            "units_not_encoded": not_encoded,
            "units_partially_explored_not_claimed_beyond_cap": list(partial),
            "bounds": tcfg.get("bounds", cfg.get("bounds", "")),
            "outside_the_claim": cfg.get("outside", ""),
            "queries": sum(u["queries"] for u in units),
            "queries_sat": sum(u.get("sat", 0) for u in units),
            "queries_unsat": sum(u.get("unsat", 0) for u in units),
            "unknowns": sum(u.get("unknown", 0) for u in units),
            "solver_time_s": round(sum(u.get("solver_s", 0) for u in units), 2),
            "fallback_queries": sum(u.get("fallback_queries", 0) for u in units),
            "solver": (res or {}).get("solver", "z3"),
            "known_findings_refound": known_hits,
            "inconclusive": inconclusive[:50],
            "encoding_regenerated_from": REPO + " working tree at run time (go/packages + go/ssa, harness overlays)",
        },
        "assumptions": cfg.get("assumptions", []) + props.COMMON_ASSUMPTIONS,
        "wall_s": round(wall, 2),
        "violations": len(new_violations),
    }
    evdir = os.path.join(VERIF, "evidence")
    if os.environ.get("VERIF_NO_EVIDENCE"):
        # experiments against a deliberately modified tree must not replace the evidence of record
        evdir = os.path.join(VERIF, "work", "evidence-scratch")
        os.makedirs(evdir, exist_ok=True)
    json.dump(ev, open(os.path.join(evdir, pid + ".json"), "w"), indent=1)


if __name__ == "__main__":
    main()
