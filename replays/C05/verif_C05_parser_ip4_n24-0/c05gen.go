package layers

import "github.com/gopacket/gopacket"

var _ = gopacket.NilDecodeFeedback

func verif_C05_stale_ARP() {
	a := verifBytes("a", 20)
	na := verifInt("na", 0, 20)
	b := verifBytes("b", 20)
	nb := verifInt("nb", 0, 20)
	var l, f ARP
	_ = l.DecodeFromBytes(a[:na], gopacket.NilDecodeFeedback)
	d1, d2 := &c05DF{}, &c05DF{}
	e1 := l.DecodeFromBytes(b[:nb], d1)
	e2 := f.DecodeFromBytes(b[:nb], d2)
	verifAssert((e1 == nil) == (e2 == nil), "same outcome as decoding into a fresh object")
	if e1 == nil && e2 == nil {
		verifAssert(d1.t == d2.t, "same truncation flag as a fresh object")
		verifAssert(verifDeepEqual(&l, &f), "same field values as decoding into a fresh object")
	}
	verifReached("stale")
}

func verif_C05_stale_Dot1Q() {
	a := verifBytes("a", 20)
	na := verifInt("na", 0, 20)
	b := verifBytes("b", 20)
	nb := verifInt("nb", 0, 20)
	var l, f Dot1Q
	_ = l.DecodeFromBytes(a[:na], gopacket.NilDecodeFeedback)
	d1, d2 := &c05DF{}, &c05DF{}
	e1 := l.DecodeFromBytes(b[:nb], d1)
	e2 := f.DecodeFromBytes(b[:nb], d2)
	verifAssert((e1 == nil) == (e2 == nil), "same outcome as decoding into a fresh object")
	if e1 == nil && e2 == nil {
		verifAssert(d1.t == d2.t, "same truncation flag as a fresh object")
		verifAssert(verifDeepEqual(&l, &f), "same field values as decoding into a fresh object")
	}
	verifReached("stale")
}

func verif_C05_stale_Ethernet() {
	a := verifBytes("a", 20)
	na := verifInt("na", 0, 20)
	b := verifBytes("b", 20)
	nb := verifInt("nb", 0, 20)
	var l, f Ethernet
	_ = l.DecodeFromBytes(a[:na], gopacket.NilDecodeFeedback)
	d1, d2 := &c05DF{}, &c05DF{}
	e1 := l.DecodeFromBytes(b[:nb], d1)
	e2 := f.DecodeFromBytes(b[:nb], d2)
	verifAssert((e1 == nil) == (e2 == nil), "same outcome as decoding into a fresh object")
	if e1 == nil && e2 == nil {
		verifAssert(d1.t == d2.t, "same truncation flag as a fresh object")
		verifAssert(verifDeepEqual(&l, &f), "same field values as decoding into a fresh object")
	}
	verifReached("stale")
}

func verif_C05_stale_GRE() {
	a := verifBytes("a", 20)
	na := verifInt("na", 0, 20)
	b := verifBytes("b", 20)
	nb := verifInt("nb", 0, 20)
	var l, f GRE
	_ = l.DecodeFromBytes(a[:na], gopacket.NilDecodeFeedback)
	d1, d2 := &c05DF{}, &c05DF{}
	e1 := l.DecodeFromBytes(b[:nb], d1)
	e2 := f.DecodeFromBytes(b[:nb], d2)
	verifAssert((e1 == nil) == (e2 == nil), "same outcome as decoding into a fresh object")
	if e1 == nil && e2 == nil {
		verifAssert(d1.t == d2.t, "same truncation flag as a fresh object")
		verifAssert(verifDeepEqual(&l, &f), "same field values as decoding into a fresh object")
	}
	verifReached("stale")
}

func verif_C05_stale_ICMPv4() {
	a := verifBytes("a", 20)
	na := verifInt("na", 0, 20)
	b := verifBytes("b", 20)
	nb := verifInt("nb", 0, 20)
	var l, f ICMPv4
	_ = l.DecodeFromBytes(a[:na], gopacket.NilDecodeFeedback)
	d1, d2 := &c05DF{}, &c05DF{}
	e1 := l.DecodeFromBytes(b[:nb], d1)
	e2 := f.DecodeFromBytes(b[:nb], d2)
	verifAssert((e1 == nil) == (e2 == nil), "same outcome as decoding into a fresh object")
	if e1 == nil && e2 == nil {
		verifAssert(d1.t == d2.t, "same truncation flag as a fresh object")
		verifAssert(verifDeepEqual(&l, &f), "same field values as decoding into a fresh object")
	}
	verifReached("stale")
}

func verif_C05_stale_ICMPv6() {
	a := verifBytes("a", 20)
	na := verifInt("na", 0, 20)
	b := verifBytes("b", 20)
	nb := verifInt("nb", 0, 20)
	var l, f ICMPv6
	_ = l.DecodeFromBytes(a[:na], gopacket.NilDecodeFeedback)
	d1, d2 := &c05DF{}, &c05DF{}
	e1 := l.DecodeFromBytes(b[:nb], d1)
	e2 := f.DecodeFromBytes(b[:nb], d2)
	verifAssert((e1 == nil) == (e2 == nil), "same outcome as decoding into a fresh object")
	if e1 == nil && e2 == nil {
		verifAssert(d1.t == d2.t, "same truncation flag as a fresh object")
		verifAssert(verifDeepEqual(&l, &f), "same field values as decoding into a fresh object")
	}
	verifReached("stale")
}

func verif_C05_stale_IPv4() {
	a := verifBytes("a", 20)
	na := verifInt("na", 0, 20)
	b := verifBytes("b", 20)
	nb := verifInt("nb", 0, 20)
	var l, f IPv4
	_ = l.DecodeFromBytes(a[:na], gopacket.NilDecodeFeedback)
	d1, d2 := &c05DF{}, &c05DF{}
	e1 := l.DecodeFromBytes(b[:nb], d1)
	e2 := f.DecodeFromBytes(b[:nb], d2)
	verifAssert((e1 == nil) == (e2 == nil), "same outcome as decoding into a fresh object")
	if e1 == nil && e2 == nil {
		verifAssert(d1.t == d2.t, "same truncation flag as a fresh object")
		verifAssert(verifDeepEqual(&l, &f), "same field values as decoding into a fresh object")
	}
	verifReached("stale")
}

func verif_C05_stale_IPv6() {
	a := verifBytes("a", 20)
	na := verifInt("na", 0, 20)
	b := verifBytes("b", 20)
	nb := verifInt("nb", 0, 20)
	var l, f IPv6
	_ = l.DecodeFromBytes(a[:na], gopacket.NilDecodeFeedback)
	d1, d2 := &c05DF{}, &c05DF{}
	e1 := l.DecodeFromBytes(b[:nb], d1)
	e2 := f.DecodeFromBytes(b[:nb], d2)
	verifAssert((e1 == nil) == (e2 == nil), "same outcome as decoding into a fresh object")
	if e1 == nil && e2 == nil {
		verifAssert(d1.t == d2.t, "same truncation flag as a fresh object")
		verifAssert(verifDeepEqual(&l, &f), "same field values as decoding into a fresh object")
	}
	verifReached("stale")
}

func verif_C05_stale_TCP() {
	a := verifBytes("a", 20)
	na := verifInt("na", 0, 20)
	b := verifBytes("b", 20)
	nb := verifInt("nb", 0, 20)
	var l, f TCP
	_ = l.DecodeFromBytes(a[:na], gopacket.NilDecodeFeedback)
	d1, d2 := &c05DF{}, &c05DF{}
	e1 := l.DecodeFromBytes(b[:nb], d1)
	e2 := f.DecodeFromBytes(b[:nb], d2)
	verifAssert((e1 == nil) == (e2 == nil), "same outcome as decoding into a fresh object")
	if e1 == nil && e2 == nil {
		verifAssert(d1.t == d2.t, "same truncation flag as a fresh object")
		verifAssert(verifDeepEqual(&l, &f), "same field values as decoding into a fresh object")
	}
	verifReached("stale")
}

func verif_C05_stale_UDP() {
	a := verifBytes("a", 20)
	na := verifInt("na", 0, 20)
	b := verifBytes("b", 20)
	nb := verifInt("nb", 0, 20)
	var l, f UDP
	_ = l.DecodeFromBytes(a[:na], gopacket.NilDecodeFeedback)
	d1, d2 := &c05DF{}, &c05DF{}
	e1 := l.DecodeFromBytes(b[:nb], d1)
	e2 := f.DecodeFromBytes(b[:nb], d2)
	verifAssert((e1 == nil) == (e2 == nil), "same outcome as decoding into a fresh object")
	if e1 == nil && e2 == nil {
		verifAssert(d1.t == d2.t, "same truncation flag as a fresh object")
		verifAssert(verifDeepEqual(&l, &f), "same field values as decoding into a fresh object")
	}
	verifReached("stale")
}
