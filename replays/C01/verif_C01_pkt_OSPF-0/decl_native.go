package layers

// Native implementations of the engine intrinsics for counterexample replay:
// every "symbolic" value is read from the solver's model.

import (
	"encoding/json"
	"fmt"
	"os"
	"runtime"
	"strings"
)

var verifVals = map[string]uint64{}
var verifChoices []int
var verifCounts = map[string]int{}

func init() {
	p := os.Getenv("VERIF_REPLAY_INPUTS")
	if p == "" {
		return
	}
	b, err := os.ReadFile(p)
	if err != nil {
		panic(err)
	}
	var in struct {
		Inputs  map[string]uint64 `json:"inputs"`
		Choices []int             `json:"choices"`
	}
	if err := json.Unmarshal(b, &in); err != nil {
		panic(err)
	}
	verifVals = in.Inputs
	verifChoices = in.Choices
}

func verifFresh(base string) string {
	n := verifCounts[base]
	verifCounts[base] = n + 1
	if n == 0 {
		return base
	}
	return fmt.Sprintf("%s#%d", base, n)
}

func verifBytes(name string, n int) []byte {
	nm := verifFresh(name)
	b := make([]byte, n)
	for i := range b {
		b[i] = byte(verifVals[fmt.Sprintf("%s[%d]", nm, i)])
	}
	return b
}
func verifU8(name string) uint8   { return uint8(verifVals[verifFresh(name)]) }
func verifU16(name string) uint16 { return uint16(verifVals[verifFresh(name)]) }
func verifU32(name string) uint32 { return uint32(verifVals[verifFresh(name)]) }
func verifU64(name string) uint64 { return verifVals[verifFresh(name)] }
func verifInt(name string, lo, hi int) int {
	raw := verifVals[verifFresh(name)]
	if hi >= lo && uint64(hi)-uint64(lo) < 1<<32 {
		return lo + int(raw)
	}
	return int(raw)
}
func verifBool(name string) bool { return verifVals[verifFresh(name)] != 0 }
func verifAssume(c bool) {
	if !c {
		panic("VERIF-ASSUME-FAILED")
	}
}
func verifAssert(c bool, label string) {
	if !c {
		panic("VERIF-ASSERT: " + label)
	}
}
func verifReached(label string)                         {}
func verifBarrier(on bool)                              {}
func verifInput(b []byte)                               {}
func verifJoin()                                        {}
func verifPreemptBound(n int)                           {}
func verifPoolND(on bool)                               {}
func verifSameBacking(a, b []byte) bool                 { return cap(a) > 0 && cap(b) > 0 && &a[:cap(a)][cap(a)-1] == &b[:cap(b)][cap(b)-1] }
func verifReachable(root interface{}, b []byte) bool    { return false }
func verifBaseWrites() int                              { return 0 }
func verifYield()                                       { runtime.Gosched() }
func verifAnd(a, b bool) bool                           { return a && b }
func verifOr(a, b bool) bool                            { return a || b }
func verifImplies(a, b bool) bool                       { return !a || b }
func verifIte(c bool, a, b int) int {
	if c {
		return a
	}
	return b
}
func verifParam(name string) int {
	var v int
	for _, kv := range strings.Split(os.Getenv("VERIF_REPLAY_PARAMS"), ",") {
		p := strings.SplitN(kv, "=", 2)
		if len(p) == 2 && p[0] == name {
			fmt.Sscanf(p[1], "%d", &v)
		}
	}
	return v
}
func verifChoose(n int) int {
	if len(verifChoices) == 0 {
		return 0
	}
	c := verifChoices[0]
	verifChoices = verifChoices[1:]
	return c
}
