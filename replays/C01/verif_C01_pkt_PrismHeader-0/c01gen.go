package layers

import "github.com/gopacket/gopacket"


func c01Packet(first gopacket.LayerType, n int) {
	in := verifBytes("in", n)
	ln := verifInt("n", 0, n)
	var opts gopacket.DecodeOptions
	switch verifChoose(4) {
	case 1:
		opts = gopacket.DecodeOptions{Lazy: true}
	case 2:
		opts = gopacket.DecodeOptions{NoCopy: true, DecodeStreamsAsDatagrams: true}
	case 3:
		opts = gopacket.DecodeOptions{Lazy: true, Pool: true, DecodeStreamsAsDatagrams: true}
	}
	p := gopacket.NewPacket(in[:ln], first, opts)
	ls := p.Layers()
	el := p.ErrorLayer()
	nfail := 0
	for _, l := range ls {
		if _, ok := l.(*gopacket.DecodeFailure); ok {
			nfail++
		}
		_ = l.LayerType()
		_ = l.LayerContents()
		_ = l.LayerPayload()
	}
	if el != nil {
		verifAssert(len(ls) > 0 && ls[len(ls)-1] == gopacket.Layer(el), "error layer is the last layer")
		verifAssert(nfail <= 1, "no other layer is a decode failure")
	} else {
		verifAssert(nfail == 0, "no decode failure layer without an error layer")
	}
	if l := p.LinkLayer(); l != nil {
		_ = l.LinkFlow()
	}
	if l := p.NetworkLayer(); l != nil {
		_ = l.NetworkFlow()
	}
	if l := p.TransportLayer(); l != nil {
		_ = l.TransportFlow()
	}
	if l := p.ApplicationLayer(); l != nil {
		_ = l.Payload()
	}
	_, _ = p.VerifyChecksums()
	_ = p.Layer(first)
	_ = p.LayerClass(LayerClassIPNetwork)
	_ = p.Metadata().Truncated
	verifReached("pkt")
}

func verif_C01_pkt_AGUEVar0() { c01Packet(LayerTypeAGUEVar0, 10) }
func verif_C01_pkt_AGUEVar1() { c01Packet(LayerTypeAGUEVar1, 10) }
func verif_C01_pkt_APSP() { c01Packet(LayerTypeAPSP, 10) }
func verif_C01_pkt_ARP() { c01Packet(LayerTypeARP, 10) }
func verif_C01_pkt_ASF() { c01Packet(LayerTypeASF, 10) }
func verif_C01_pkt_ASFPresencePong() { c01Packet(LayerTypeASFPresencePong, 10) }
func verif_C01_pkt_BFD() { c01Packet(LayerTypeBFD, 10) }
func verif_C01_pkt_CIP() { c01Packet(LayerTypeCIP, 10) }
func verif_C01_pkt_CiscoDiscovery() { c01Packet(LayerTypeCiscoDiscovery, 10) }
func verif_C01_pkt_CiscoDiscoveryInfo() { c01Packet(LayerTypeCiscoDiscoveryInfo, 10) }
func verif_C01_pkt_DHCPv4() { c01Packet(LayerTypeDHCPv4, 10) }
func verif_C01_pkt_DHCPv6() { c01Packet(LayerTypeDHCPv6, 10) }
func verif_C01_pkt_DNS() { c01Packet(LayerTypeDNS, 10) }
func verif_C01_pkt_Diameter() { c01Packet(LayerTypeDiameter, 10) }
func verif_C01_pkt_Dot11() { c01Packet(LayerTypeDot11, 10) }
func verif_C01_pkt_Dot11Ctrl() { c01Packet(LayerTypeDot11Ctrl, 10) }
func verif_C01_pkt_Dot11CtrlAck() { c01Packet(LayerTypeDot11CtrlAck, 10) }
func verif_C01_pkt_Dot11CtrlBlockAck() { c01Packet(LayerTypeDot11CtrlBlockAck, 10) }
func verif_C01_pkt_Dot11CtrlBlockAckReq() { c01Packet(LayerTypeDot11CtrlBlockAckReq, 10) }
func verif_C01_pkt_Dot11CtrlCFEnd() { c01Packet(LayerTypeDot11CtrlCFEnd, 10) }
func verif_C01_pkt_Dot11CtrlCFEndAck() { c01Packet(LayerTypeDot11CtrlCFEndAck, 10) }
func verif_C01_pkt_Dot11CtrlCTS() { c01Packet(LayerTypeDot11CtrlCTS, 10) }
func verif_C01_pkt_Dot11CtrlPowersavePoll() { c01Packet(LayerTypeDot11CtrlPowersavePoll, 10) }
func verif_C01_pkt_Dot11CtrlRTS() { c01Packet(LayerTypeDot11CtrlRTS, 10) }
func verif_C01_pkt_Dot11Data() { c01Packet(LayerTypeDot11Data, 10) }
func verif_C01_pkt_Dot11DataCFAck() { c01Packet(LayerTypeDot11DataCFAck, 10) }
func verif_C01_pkt_Dot11DataCFAckNoData() { c01Packet(LayerTypeDot11DataCFAckNoData, 10) }
func verif_C01_pkt_Dot11DataCFAckPoll() { c01Packet(LayerTypeDot11DataCFAckPoll, 10) }
func verif_C01_pkt_Dot11DataCFAckPollNoData() { c01Packet(LayerTypeDot11DataCFAckPollNoData, 10) }
func verif_C01_pkt_Dot11DataCFPoll() { c01Packet(LayerTypeDot11DataCFPoll, 10) }
func verif_C01_pkt_Dot11DataCFPollNoData() { c01Packet(LayerTypeDot11DataCFPollNoData, 10) }
func verif_C01_pkt_Dot11DataNull() { c01Packet(LayerTypeDot11DataNull, 10) }
func verif_C01_pkt_Dot11DataQOSCFAckPollNoData() { c01Packet(LayerTypeDot11DataQOSCFAckPollNoData, 10) }
func verif_C01_pkt_Dot11DataQOSCFPollNoData() { c01Packet(LayerTypeDot11DataQOSCFPollNoData, 10) }
func verif_C01_pkt_Dot11DataQOSData() { c01Packet(LayerTypeDot11DataQOSData, 10) }
func verif_C01_pkt_Dot11DataQOSDataCFAck() { c01Packet(LayerTypeDot11DataQOSDataCFAck, 10) }
func verif_C01_pkt_Dot11DataQOSDataCFAckPoll() { c01Packet(LayerTypeDot11DataQOSDataCFAckPoll, 10) }
func verif_C01_pkt_Dot11DataQOSDataCFPoll() { c01Packet(LayerTypeDot11DataQOSDataCFPoll, 10) }
func verif_C01_pkt_Dot11DataQOSNull() { c01Packet(LayerTypeDot11DataQOSNull, 10) }
func verif_C01_pkt_Dot11InformationElement() { c01Packet(LayerTypeDot11InformationElement, 10) }
func verif_C01_pkt_Dot11MgmtATIM() { c01Packet(LayerTypeDot11MgmtATIM, 10) }
func verif_C01_pkt_Dot11MgmtAction() { c01Packet(LayerTypeDot11MgmtAction, 10) }
func verif_C01_pkt_Dot11MgmtActionNoAck() { c01Packet(LayerTypeDot11MgmtActionNoAck, 10) }
func verif_C01_pkt_Dot11MgmtArubaWLAN() { c01Packet(LayerTypeDot11MgmtArubaWLAN, 10) }
func verif_C01_pkt_Dot11MgmtAssociationReq() { c01Packet(LayerTypeDot11MgmtAssociationReq, 10) }
func verif_C01_pkt_Dot11MgmtAssociationResp() { c01Packet(LayerTypeDot11MgmtAssociationResp, 10) }
func verif_C01_pkt_Dot11MgmtAuthentication() { c01Packet(LayerTypeDot11MgmtAuthentication, 10) }
func verif_C01_pkt_Dot11MgmtBeacon() { c01Packet(LayerTypeDot11MgmtBeacon, 10) }
func verif_C01_pkt_Dot11MgmtDeauthentication() { c01Packet(LayerTypeDot11MgmtDeauthentication, 10) }
func verif_C01_pkt_Dot11MgmtDisassociation() { c01Packet(LayerTypeDot11MgmtDisassociation, 10) }
func verif_C01_pkt_Dot11MgmtMeasurementPilot() { c01Packet(LayerTypeDot11MgmtMeasurementPilot, 10) }
func verif_C01_pkt_Dot11MgmtProbeReq() { c01Packet(LayerTypeDot11MgmtProbeReq, 10) }
func verif_C01_pkt_Dot11MgmtProbeResp() { c01Packet(LayerTypeDot11MgmtProbeResp, 10) }
func verif_C01_pkt_Dot11MgmtReassociationReq() { c01Packet(LayerTypeDot11MgmtReassociationReq, 10) }
func verif_C01_pkt_Dot11MgmtReassociationResp() { c01Packet(LayerTypeDot11MgmtReassociationResp, 10) }
func verif_C01_pkt_Dot11WEP() { c01Packet(LayerTypeDot11WEP, 10) }
func verif_C01_pkt_Dot1Q() { c01Packet(LayerTypeDot1Q, 10) }
func verif_C01_pkt_EAP() { c01Packet(LayerTypeEAP, 10) }
func verif_C01_pkt_EAPOL() { c01Packet(LayerTypeEAPOL, 10) }
func verif_C01_pkt_EAPOLKey() { c01Packet(LayerTypeEAPOLKey, 10) }
func verif_C01_pkt_ENIP() { c01Packet(LayerTypeENIP, 10) }
func verif_C01_pkt_ERSPANII() { c01Packet(LayerTypeERSPANII, 10) }
func verif_C01_pkt_EtherIP() { c01Packet(LayerTypeEtherIP, 10) }
func verif_C01_pkt_Ethernet() { c01Packet(LayerTypeEthernet, 10) }
func verif_C01_pkt_EthernetCTP() { c01Packet(LayerTypeEthernetCTP, 10) }
func verif_C01_pkt_EthernetCTPForwardData() { c01Packet(LayerTypeEthernetCTPForwardData, 10) }
func verif_C01_pkt_EthernetCTPReply() { c01Packet(LayerTypeEthernetCTPReply, 10) }
func verif_C01_pkt_FDDI() { c01Packet(LayerTypeFDDI, 10) }
func verif_C01_pkt_GRE() { c01Packet(LayerTypeGRE, 10) }
func verif_C01_pkt_GTPv1U() { c01Packet(LayerTypeGTPv1U, 10) }
func verif_C01_pkt_GTPv2() { c01Packet(LayerTypeGTPv2, 10) }
func verif_C01_pkt_Geneve() { c01Packet(LayerTypeGeneve, 10) }
func verif_C01_pkt_ICMPv4() { c01Packet(LayerTypeICMPv4, 10) }
func verif_C01_pkt_ICMPv6() { c01Packet(LayerTypeICMPv6, 10) }
func verif_C01_pkt_ICMPv6Echo() { c01Packet(LayerTypeICMPv6Echo, 10) }
func verif_C01_pkt_ICMPv6NeighborAdvertisement() { c01Packet(LayerTypeICMPv6NeighborAdvertisement, 10) }
func verif_C01_pkt_ICMPv6NeighborSolicitation() { c01Packet(LayerTypeICMPv6NeighborSolicitation, 10) }
func verif_C01_pkt_ICMPv6Redirect() { c01Packet(LayerTypeICMPv6Redirect, 10) }
func verif_C01_pkt_ICMPv6RouterAdvertisement() { c01Packet(LayerTypeICMPv6RouterAdvertisement, 10) }
func verif_C01_pkt_ICMPv6RouterSolicitation() { c01Packet(LayerTypeICMPv6RouterSolicitation, 10) }
func verif_C01_pkt_IGMP() { c01Packet(LayerTypeIGMP, 10) }
func verif_C01_pkt_IPSecAH() { c01Packet(LayerTypeIPSecAH, 10) }
func verif_C01_pkt_IPSecESP() { c01Packet(LayerTypeIPSecESP, 10) }
func verif_C01_pkt_IPv4() { c01Packet(LayerTypeIPv4, 10) }
func verif_C01_pkt_IPv6() { c01Packet(LayerTypeIPv6, 10) }
func verif_C01_pkt_IPv6Destination() { c01Packet(LayerTypeIPv6Destination, 10) }
func verif_C01_pkt_IPv6Fragment() { c01Packet(LayerTypeIPv6Fragment, 10) }
func verif_C01_pkt_IPv6HopByHop() { c01Packet(LayerTypeIPv6HopByHop, 10) }
func verif_C01_pkt_IPv6Routing() { c01Packet(LayerTypeIPv6Routing, 10) }
func verif_C01_pkt_LCM() { c01Packet(LayerTypeLCM, 10) }
func verif_C01_pkt_LLC() { c01Packet(LayerTypeLLC, 10) }
func verif_C01_pkt_LinkLayerDiscovery() { c01Packet(LayerTypeLinkLayerDiscovery, 10) }
func verif_C01_pkt_LinkLayerDiscoveryInfo() { c01Packet(LayerTypeLinkLayerDiscoveryInfo, 10) }
func verif_C01_pkt_LinuxSLL() { c01Packet(LayerTypeLinuxSLL, 10) }
func verif_C01_pkt_LinuxSLL2() { c01Packet(LayerTypeLinuxSLL2, 10) }
func verif_C01_pkt_Loopback() { c01Packet(LayerTypeLoopback, 10) }
func verif_C01_pkt_MDP() { c01Packet(LayerTypeMDP, 10) }
func verif_C01_pkt_MLDv1MulticastListenerDone() { c01Packet(LayerTypeMLDv1MulticastListenerDone, 10) }
func verif_C01_pkt_MLDv1MulticastListenerQuery() { c01Packet(LayerTypeMLDv1MulticastListenerQuery, 10) }
func verif_C01_pkt_MLDv1MulticastListenerReport() { c01Packet(LayerTypeMLDv1MulticastListenerReport, 10) }
func verif_C01_pkt_MLDv2MulticastListenerQuery() { c01Packet(LayerTypeMLDv2MulticastListenerQuery, 10) }
func verif_C01_pkt_MLDv2MulticastListenerReport() { c01Packet(LayerTypeMLDv2MulticastListenerReport, 10) }
func verif_C01_pkt_MPLS() { c01Packet(LayerTypeMPLS, 10) }
func verif_C01_pkt_Modbus() { c01Packet(LayerTypeModbus, 10) }
func verif_C01_pkt_ModbusTCP() { c01Packet(LayerTypeModbusTCP, 10) }
func verif_C01_pkt_NTP() { c01Packet(LayerTypeNTP, 10) }
func verif_C01_pkt_NortelDiscovery() { c01Packet(LayerTypeNortelDiscovery, 10) }
func verif_C01_pkt_OSPF() { c01Packet(LayerTypeOSPF, 10) }
func verif_C01_pkt_PFLog() { c01Packet(LayerTypePFLog, 10) }
func verif_C01_pkt_PPP() { c01Packet(LayerTypePPP, 10) }
func verif_C01_pkt_PPPoE() { c01Packet(LayerTypePPPoE, 10) }
func verif_C01_pkt_Pktap() { c01Packet(LayerTypePktap, 10) }
func verif_C01_pkt_PrismHeader() { c01Packet(LayerTypePrismHeader, 10) }
func verif_C01_pkt_RADIUS() { c01Packet(LayerTypeRADIUS, 10) }
func verif_C01_pkt_RMCP() { c01Packet(LayerTypeRMCP, 10) }
func verif_C01_pkt_RUDP() { c01Packet(LayerTypeRUDP, 10) }
func verif_C01_pkt_RadioTap() { c01Packet(LayerTypeRadioTap, 10) }
func verif_C01_pkt_SCTP() { c01Packet(LayerTypeSCTP, 10) }
func verif_C01_pkt_SCTPAbort() { c01Packet(LayerTypeSCTPAbort, 10) }
func verif_C01_pkt_SCTPCookieAck() { c01Packet(LayerTypeSCTPCookieAck, 10) }
func verif_C01_pkt_SCTPCookieEcho() { c01Packet(LayerTypeSCTPCookieEcho, 10) }
func verif_C01_pkt_SCTPData() { c01Packet(LayerTypeSCTPData, 10) }
func verif_C01_pkt_SCTPEmptyLayer() { c01Packet(LayerTypeSCTPEmptyLayer, 10) }
func verif_C01_pkt_SCTPError() { c01Packet(LayerTypeSCTPError, 10) }
func verif_C01_pkt_SCTPHeartbeat() { c01Packet(LayerTypeSCTPHeartbeat, 10) }
func verif_C01_pkt_SCTPHeartbeatAck() { c01Packet(LayerTypeSCTPHeartbeatAck, 10) }
func verif_C01_pkt_SCTPInit() { c01Packet(LayerTypeSCTPInit, 10) }
func verif_C01_pkt_SCTPInitAck() { c01Packet(LayerTypeSCTPInitAck, 10) }
func verif_C01_pkt_SCTPSack() { c01Packet(LayerTypeSCTPSack, 10) }
func verif_C01_pkt_SCTPShutdown() { c01Packet(LayerTypeSCTPShutdown, 10) }
func verif_C01_pkt_SCTPShutdownAck() { c01Packet(LayerTypeSCTPShutdownAck, 10) }
func verif_C01_pkt_SCTPShutdownComplete() { c01Packet(LayerTypeSCTPShutdownComplete, 10) }
func verif_C01_pkt_SCTPUnknownChunkType() { c01Packet(LayerTypeSCTPUnknownChunkType, 10) }
func verif_C01_pkt_SFlow() { c01Packet(LayerTypeSFlow, 10) }
func verif_C01_pkt_SIP() { c01Packet(LayerTypeSIP, 10) }
func verif_C01_pkt_SNAP() { c01Packet(LayerTypeSNAP, 10) }
func verif_C01_pkt_STP() { c01Packet(LayerTypeSTP, 10) }
func verif_C01_pkt_TCP() { c01Packet(LayerTypeTCP, 10) }
func verif_C01_pkt_TLS() { c01Packet(LayerTypeTLS, 10) }
func verif_C01_pkt_UDP() { c01Packet(LayerTypeUDP, 10) }
func verif_C01_pkt_UDPLite() { c01Packet(LayerTypeUDPLite, 10) }
func verif_C01_pkt_USB() { c01Packet(LayerTypeUSB, 10) }
func verif_C01_pkt_USBBulk() { c01Packet(LayerTypeUSBBulk, 10) }
func verif_C01_pkt_USBControl() { c01Packet(LayerTypeUSBControl, 10) }
func verif_C01_pkt_USBInterrupt() { c01Packet(LayerTypeUSBInterrupt, 10) }
func verif_C01_pkt_USBRequestBlockSetup() { c01Packet(LayerTypeUSBRequestBlockSetup, 10) }
func verif_C01_pkt_VRRP() { c01Packet(LayerTypeVRRP, 10) }
func verif_C01_pkt_VXLAN() { c01Packet(LayerTypeVXLAN, 10) }
