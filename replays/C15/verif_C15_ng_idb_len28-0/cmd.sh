#!/bin/sh
export PATH=/opt/veriftools/go1.26.8/bin:$PATH GOTOOLCHAIN=local GOFLAGS=-mod=mod GOPROXY=off GOSUMDB=off
cd /repo && VERIF_REPLAY_PARAMS='len=28' VERIF_REPLAY_UNIT=verif_C15_ng_idb VERIF_REPLAY_INPUTS=/verif/replays/C15/verif_C15_ng_idb_len28-0/inputs.json go test -vet=off -count=1 -timeout 30s -overlay /verif/replays/C15/verif_C15_ng_idb_len28-0/overlay.json -run '^TestVerifReplay$' -v ./pcapgo
