package pcapgo

import (
	"errors"
	"io"

	"github.com/gopacket/gopacket"
)

// C15: capture-file readers on arbitrary input.

var errC15Injected = errors.New("injected I/O error")

// c15Reader delivers data in chunks chosen nondeterministically from a small
// menu for the first two reads, and may fail at a symbolic position.
type c15Reader struct {
	data   []byte
	pos    int
	shorts int
	errAt  int // -1: never
}

var c15Menu = [4]int{1 << 30, 1, 3, 7}

func (r *c15Reader) Read(p []byte) (int, error) {
	if r.errAt >= 0 && r.pos >= r.errAt {
		return 0, errC15Injected
	}
	rem := len(r.data) - r.pos
	if rem == 0 {
		return 0, io.EOF
	}
	n := len(p)
	if n > rem {
		n = rem
	}
	if r.errAt >= 0 && r.pos+n > r.errAt {
		n = r.errAt - r.pos
	}
	if r.shorts > 0 {
		r.shorts--
		if c := c15Menu[verifChoose(4)]; c < n {
			n = c
		}
	}
	copy(p, r.data[r.pos:r.pos+n])
	r.pos += n
	return n, nil
}

// little-endian section header block without options, and a minimal
// interface description block (link type 1, snap length 0xffff)
var c15SHB = []byte{0x0a, 0x0d, 0x0d, 0x0a, 28, 0, 0, 0, 0x4d, 0x3c, 0x2b, 0x1a, 1, 0, 0, 0, 0xff, 0xff, 0xff, 0xff, 0xff, 0xff, 0xff, 0xff, 28, 0, 0, 0}
var c15IDB = []byte{1, 0, 0, 0, 20, 0, 0, 0, 1, 0, 0, 0, 0xff, 0xff, 0, 0, 20, 0, 0, 0}

func c15Source(n int, chunking bool, faults bool) *c15Reader {
	return c15SourcePrefix(nil, n, chunking, faults)
}

func c15SourcePrefix(prefix []byte, n int, chunking bool, faults bool) *c15Reader {
	data := verifBytes("f", n)
	if len(prefix) > 0 {
		data = append(append([]byte{}, prefix...), data...)
		n = len(data)
	}
	if n >= 2 {
		// gzip-wrapped input is outside the claim: cut right after the magic test
		verifAssume(!verifAnd(data[0] == 0x1f, data[1] == 0x8b))
	}
	r := &c15Reader{data: data, errAt: -1}
	if chunking {
		r.shorts = 2
	}
	if faults {
		r.errAt = verifChoose(n + 1)
	}
	return r
}

func c15CheckPacket(d []byte, ci gopacket.CaptureInfo) {
	verifAssert(len(d) == ci.CaptureLength, "data length equals reported capture length")
	verifAssert(ci.CaptureLength <= ci.Length, "capture length does not exceed reported length")
}

func c15Pcap(mode int) {
	n := verifParam("len")
	src := c15Source(n, mode == 1, mode == 2)
	r, err := NewReader(src)
	if err != nil {
		verifAssert(r == nil, "no reader with error")
		verifReached("pcap-hdr-err")
		return
	}
	// declared snap length bounds allocation; keep it small so that any larger
	// allocation is out of proportion
	verifAssume(r.Snaplen() <= 0xffff)
	for i := 0; i < 3; i++ {
		var d []byte
		var ci gopacket.CaptureInfo
		if verifChoose(2) == 0 {
			d, ci, err = r.ReadPacketData()
		} else {
			d, ci, err = r.ZeroCopyReadPacketData()
		}
		if err != nil {
			if mode == 2 && src.pos >= src.errAt && !errors.Is(err, io.EOF) {
				verifReached("pcap-io-error-surfaced")
			}
			verifReached("pcap-read-err")
			return
		}
		c15CheckPacket(d, ci)
		verifAssert(ci.CaptureLength <= int(r.Snaplen()), "capture length within snap length")
	}
	verifReached("pcap-3-packets")
}

func verif_C15_pcap()        { c15Pcap(0) }
func verif_C15_pcap_chunks() { c15Pcap(1) }
func verif_C15_pcap_fault()  { c15Pcap(2) }

func c15Snoop(mode int) {
	n := verifParam("len")
	src := c15Source(n, mode == 1, mode == 2)
	r, err := NewSnoopReader(src)
	if err != nil {
		verifReached("snoop-hdr-err")
		return
	}
	for i := 0; i < 2; i++ {
		var d []byte
		var ci gopacket.CaptureInfo
		if verifChoose(2) == 0 {
			d, ci, err = r.ReadPacketData()
		} else {
			d, ci, err = r.ZeroCopyReadPacketData()
		}
		if err != nil {
			verifReached("snoop-read-err")
			return
		}
		c15CheckPacket(d, ci)
	}
	verifReached("snoop-2-packets")
}

func verif_C15_snoop()        { c15Snoop(0) }
func verif_C15_snoop_chunks() { c15Snoop(1) }
func verif_C15_snoop_fault()  { c15Snoop(2) }

func c15Ng(mode int, opts NgReaderOptions) { c15NgPrefix(nil, mode, opts) }

func c15NgPrefix(prefix []byte, mode int, opts NgReaderOptions) {
	n := verifParam("len")
	src := c15SourcePrefix(prefix, n, mode == 1, mode == 2)
	r, err := NewNgReader(src, opts)
	if err != nil {
		verifReached("ng-hdr-err")
		return
	}
	for i := 0; i < 2; i++ {
		var d []byte
		var ci gopacket.CaptureInfo
		switch verifChoose(3) {
		case 0:
			d, ci, err = r.ReadPacketData()
		case 1:
			d, ci, err = r.ZeroCopyReadPacketData()
		default:
			d, ci, _, err = r.ReadPacketDataWithOptions()
		}
		if err != nil {
			verifReached("ng-read-err")
			return
		}
		c15CheckPacket(d, ci)
	}
	verifReached("ng-2-packets")
}

func verif_C15_ng()        { c15Ng(0, DefaultNgReaderOptions) }
func verif_C15_ng_chunks() { c15Ng(1, DefaultNgReaderOptions) }
func verif_C15_ng_fault()  { c15Ng(2, DefaultNgReaderOptions) }
func verif_C15_ng_mixed() {
	c15Ng(0, NgReaderOptions{WantMixedLinkType: true, SkipUnknownVersion: true})
}

// concrete valid section header, symbolic interface description and beyond
func verif_C15_ng_idb() { c15NgPrefix(c15SHB, 0, DefaultNgReaderOptions) }

// concrete section header and interface, symbolic packet blocks
func verif_C15_ng_epb() {
	c15NgPrefix(append(append([]byte{}, c15SHB...), c15IDB...), 0, DefaultNgReaderOptions)
}
