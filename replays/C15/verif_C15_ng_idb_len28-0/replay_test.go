package pcapgo

import (
	"fmt"
	"os"
	rtdebug "runtime/debug"
	"testing"
)

var verifUnits = map[string]func(){
	"verif_C15_pcap": verif_C15_pcap,
	"verif_C15_pcap_chunks": verif_C15_pcap_chunks,
	"verif_C15_pcap_fault": verif_C15_pcap_fault,
	"verif_C15_snoop": verif_C15_snoop,
	"verif_C15_snoop_chunks": verif_C15_snoop_chunks,
	"verif_C15_snoop_fault": verif_C15_snoop_fault,
	"verif_C15_ng": verif_C15_ng,
	"verif_C15_ng_chunks": verif_C15_ng_chunks,
	"verif_C15_ng_fault": verif_C15_ng_fault,
	"verif_C15_ng_mixed": verif_C15_ng_mixed,
	"verif_C15_ng_idb": verif_C15_ng_idb,
	"verif_C15_ng_epb": verif_C15_ng_epb,
}

func TestVerifReplay(t *testing.T) {
	defer func() {
		if r := recover(); r != nil {
			fmt.Printf("REPLAY-PANIC: %v\n", r)
			rtdebug.PrintStack()
			return
		}
	}()
	verifUnits[os.Getenv("VERIF_REPLAY_UNIT")]()
	fmt.Println("REPLAY-NO-VIOLATION")
}
