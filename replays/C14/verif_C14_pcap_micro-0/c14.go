package pcapgo

import (
	"io"
	"time"

	"github.com/gopacket/gopacket"
	"github.com/gopacket/gopacket/layers"
)

// C14: capture files round-trip; a truncated file yields a true prefix.

type c14Writer struct{ b []byte }

func (w *c14Writer) Write(p []byte) (int, error) {
	w.b = append(w.b, p...)
	return len(p), nil
}

type c14Reader struct {
	data []byte
	pos  int
}

func (r *c14Reader) Read(p []byte) (int, error) {
	if r.pos >= len(r.data) {
		return 0, io.EOF
	}
	n := copy(p, r.data[r.pos:])
	r.pos += n
	return n, nil
}

type c14Pkt struct {
	data []byte
	ci   gopacket.CaptureInfo
}

func c14Packets(k int, nanos bool) []c14Pkt {
	out := make([]c14Pkt, k)
	for i := range out {
		ln := verifChoose(4) // 0..3 bytes
		d := verifBytes("d", 3)[:ln]
		extra := int(verifU16("extra"))
		sec := int64(verifU32("sec"))
		nsec := int64(verifInt("nsec", 0, 999999999))
		out[i] = c14Pkt{data: d, ci: gopacket.CaptureInfo{Timestamp: time.Unix(sec, nsec), CaptureLength: ln, Length: ln + extra}}
	}
	return out
}

func c14Pcap(nanos bool, cut bool) {
	k := 1 + verifChoose(2)
	pk := c14Packets(k, nanos)
	w := &c14Writer{}
	var pw *Writer
	if nanos {
		pw = NewWriterNanos(w)
	} else {
		pw = NewWriter(w)
	}
	snap := verifU32("snaplen")
	verifAssume(verifAnd(snap >= 3, snap <= 0xffff))
	lt := layers.LinkType(verifU32("linktype"))
	verifAssert(pw.WriteFileHeader(snap, lt) == nil, "header written")
	ends := make([]int, k)
	for i := range pk {
		verifAssert(pw.WritePacket(pk[i].ci, pk[i].data) == nil, "packet written")
		ends[i] = len(w.b)
	}
	file := w.b
	whole := k
	if cut {
		t := verifChoose(len(file) + 1)
		file = file[:t]
		whole = 0
		for i := range ends {
			if ends[i] <= t {
				whole = i + 1
			}
		}
		if t < 24 {
			_, err := NewReader(&c14Reader{data: file})
			verifAssert(err != nil, "truncated header is an error")
			verifAssert(err == io.EOF || err == io.ErrUnexpectedEOF, "end-of-file class error for a truncated header")
			verifReached("cut-header")
			return
		}
	}
	r, err := NewReader(&c14Reader{data: file})
	verifAssert(err == nil, "reader accepts the written header")
	verifAssert(r.Snaplen() == snap, "snap length round-trips")
	verifAssert(r.LinkType() == lt, "link type round-trips")
	zero := verifChoose(2) == 1
	for i := 0; i < whole; i++ {
		var d []byte
		var ci gopacket.CaptureInfo
		if zero {
			d, ci, err = r.ZeroCopyReadPacketData()
		} else {
			d, ci, err = r.ReadPacketData()
		}
		verifAssert(err == nil, "whole packet read without error")
		verifAssert(len(d) == len(pk[i].data), "same data length")
		for j := range d {
			verifAssert(d[j] == pk[i].data[j], "same data bytes")
		}
		verifAssert(ci.CaptureLength == pk[i].ci.CaptureLength, "same capture length")
		verifAssert(ci.Length == pk[i].ci.Length, "same length")
		want := pk[i].ci.Timestamp
		verifAssert(ci.Timestamp.Unix() == want.Unix(), "same seconds")
		if nanos {
			verifAssert(ci.Timestamp.Nanosecond() == want.Nanosecond(), "same nanoseconds")
		} else {
			verifAssert(ci.Timestamp.Nanosecond() == want.Nanosecond()/1000*1000, "timestamp truncated to microseconds")
		}
	}
	_, _, err = r.ReadPacketData()
	verifAssert(err != nil, "no packet beyond the complete ones")
	verifAssert(err == io.EOF || err == io.ErrUnexpectedEOF, "then end-of-file or unexpected-end error")
	if !cut {
		verifAssert(err == io.EOF, "clean end of file after the last packet")
	}
	verifReached("pcap-roundtrip")
}

func verif_C14_pcap_micro()     { c14Pcap(false, false) }
func verif_C14_pcap_nano()      { c14Pcap(true, false) }
func verif_C14_pcap_micro_cut() { c14Pcap(false, true) }
func verif_C14_pcap_nano_cut()  { c14Pcap(true, true) }
