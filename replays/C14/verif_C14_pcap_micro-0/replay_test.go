package pcapgo

import (
	"fmt"
	"os"
	rtdebug "runtime/debug"
	"testing"
)

var verifUnits = map[string]func(){
	"verif_C14_pcap_micro": verif_C14_pcap_micro,
	"verif_C14_pcap_nano": verif_C14_pcap_nano,
	"verif_C14_pcap_micro_cut": verif_C14_pcap_micro_cut,
	"verif_C14_pcap_nano_cut": verif_C14_pcap_nano_cut,
}

func TestVerifReplay(t *testing.T) {
	defer func() {
		if r := recover(); r != nil {
			fmt.Printf("REPLAY-PANIC: %v\n", r)
			rtdebug.PrintStack()
			return
		}
	}()
	verifUnits[os.Getenv("VERIF_REPLAY_UNIT")]()
	fmt.Println("REPLAY-NO-VIOLATION")
}
