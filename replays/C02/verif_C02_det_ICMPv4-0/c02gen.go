package layers

func verif_C02_det_Ethernet()    { c02Determinism(LayerTypeEthernet, 22) }
func verif_C02_shared_Ethernet() { c02Shared(LayerTypeEthernet, 22) }
func verif_C02_det_Dot1Q()    { c02Determinism(LayerTypeDot1Q, 12) }
func verif_C02_shared_Dot1Q() { c02Shared(LayerTypeDot1Q, 12) }
func verif_C02_det_IPv4()    { c02Determinism(LayerTypeIPv4, 28) }
func verif_C02_shared_IPv4() { c02Shared(LayerTypeIPv4, 28) }
func verif_C02_det_IPv6()    { c02Determinism(LayerTypeIPv6, 44) }
func verif_C02_shared_IPv6() { c02Shared(LayerTypeIPv6, 44) }
func verif_C02_det_TCP()    { c02Determinism(LayerTypeTCP, 24) }
func verif_C02_shared_TCP() { c02Shared(LayerTypeTCP, 24) }
func verif_C02_det_UDP()    { c02Determinism(LayerTypeUDP, 12) }
func verif_C02_shared_UDP() { c02Shared(LayerTypeUDP, 12) }
func verif_C02_det_ICMPv4()    { c02Determinism(LayerTypeICMPv4, 12) }
func verif_C02_shared_ICMPv4() { c02Shared(LayerTypeICMPv4, 12) }
func verif_C02_det_ICMPv6()    { c02Determinism(LayerTypeICMPv6, 12) }
func verif_C02_shared_ICMPv6() { c02Shared(LayerTypeICMPv6, 12) }
func verif_C02_det_GRE()    { c02Determinism(LayerTypeGRE, 16) }
func verif_C02_shared_GRE() { c02Shared(LayerTypeGRE, 16) }
func verif_C02_det_ARP()    { c02Determinism(LayerTypeARP, 28) }
func verif_C02_shared_ARP() { c02Shared(LayerTypeARP, 28) }
