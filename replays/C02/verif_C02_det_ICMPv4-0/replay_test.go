package layers

import (
	"fmt"
	"os"
	rtdebug "runtime/debug"
	"testing"
)

var verifUnits = map[string]func(){
	"verif_C04_pool_history": verif_C04_pool_history,
	"verif_C04_pool_sizes": verif_C04_pool_sizes,
	"verif_C02_det_Ethernet": verif_C02_det_Ethernet,
	"verif_C02_shared_Ethernet": verif_C02_shared_Ethernet,
	"verif_C02_det_Dot1Q": verif_C02_det_Dot1Q,
	"verif_C02_shared_Dot1Q": verif_C02_shared_Dot1Q,
	"verif_C02_det_IPv4": verif_C02_det_IPv4,
	"verif_C02_shared_IPv4": verif_C02_shared_IPv4,
	"verif_C02_det_IPv6": verif_C02_det_IPv6,
	"verif_C02_shared_IPv6": verif_C02_shared_IPv6,
	"verif_C02_det_TCP": verif_C02_det_TCP,
	"verif_C02_shared_TCP": verif_C02_shared_TCP,
	"verif_C02_det_UDP": verif_C02_det_UDP,
	"verif_C02_shared_UDP": verif_C02_shared_UDP,
	"verif_C02_det_ICMPv4": verif_C02_det_ICMPv4,
	"verif_C02_shared_ICMPv4": verif_C02_shared_ICMPv4,
	"verif_C02_det_ICMPv6": verif_C02_det_ICMPv6,
	"verif_C02_shared_ICMPv6": verif_C02_shared_ICMPv6,
	"verif_C02_det_GRE": verif_C02_det_GRE,
	"verif_C02_shared_GRE": verif_C02_shared_GRE,
	"verif_C02_det_ARP": verif_C02_det_ARP,
	"verif_C02_shared_ARP": verif_C02_shared_ARP,
}

func TestVerifReplay(t *testing.T) {
	defer func() {
		if r := recover(); r != nil {
			fmt.Printf("REPLAY-PANIC: %v\n", r)
			rtdebug.PrintStack()
			return
		}
	}()
	verifUnits[os.Getenv("VERIF_REPLAY_UNIT")]()
	fmt.Println("REPLAY-NO-VIOLATION")
}
