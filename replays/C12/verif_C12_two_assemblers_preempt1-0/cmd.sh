#!/bin/sh
export PATH=/opt/veriftools/go1.26.8/bin:$PATH GOTOOLCHAIN=local GOFLAGS=-mod=mod GOPROXY=off GOSUMDB=off
cd /repo && VERIF_REPLAY_PARAMS='preempt=1' VERIF_REPLAY_UNIT=verif_C12_two_assemblers VERIF_REPLAY_INPUTS=/verif/replays/C12/verif_C12_two_assemblers_preempt1-0/inputs.json go test -vet=off -count=1 -timeout 30s -overlay /verif/replays/C12/verif_C12_two_assemblers_preempt1-0/overlay.json -run '^TestVerifReplay$' -v ./tcpassembly
