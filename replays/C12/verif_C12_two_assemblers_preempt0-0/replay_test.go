package tcpassembly

import (
	"fmt"
	"os"
	rtdebug "runtime/debug"
	"testing"
)

var verifUnits = map[string]func(){
	"verif_C10_seq_lemma": verif_C10_seq_lemma,
	"verif_C10_hist2": verif_C10_hist2,
	"verif_C10_hist3": verif_C10_hist3,
	"verif_C10_hist2_flush": verif_C10_hist2_flush,
	"verif_C10_hist3_flush": verif_C10_hist3_flush,
	"verif_C10_hist3_limit": verif_C10_hist3_limit,
	"verif_C12_two_assemblers": verif_C12_two_assemblers,
	"verif_C11_lifecycle": verif_C11_lifecycle,
}

func TestVerifReplay(t *testing.T) {
	defer func() {
		if r := recover(); r != nil {
			fmt.Printf("REPLAY-PANIC: %v\n", r)
			rtdebug.PrintStack()
			return
		}
	}()
	verifUnits[os.Getenv("VERIF_REPLAY_UNIT")]()
	fmt.Println("REPLAY-NO-VIOLATION")
}
