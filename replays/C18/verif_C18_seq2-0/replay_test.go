package gopacket

import (
	"fmt"
	"os"
	rtdebug "runtime/debug"
	"testing"
)

var verifUnits = map[string]func(){
	"verif_C18_seq2": verif_C18_seq2,
	"verif_C18_seq3": verif_C18_seq3,
	"verif_C18_seq4": verif_C18_seq4,
	"verif_C18_window": verif_C18_window,
	"verif_C18_stack": verif_C18_stack,
}

func TestVerifReplay(t *testing.T) {
	defer func() {
		if r := recover(); r != nil {
			fmt.Printf("REPLAY-PANIC: %v\n", r)
			rtdebug.PrintStack()
			return
		}
	}()
	verifUnits[os.Getenv("VERIF_REPLAY_UNIT")]()
	fmt.Println("REPLAY-NO-VIOLATION")
}
