package ip4defrag

import (
	"fmt"
	"os"
	rtdebug "runtime/debug"
	"testing"
)

var verifUnits = map[string]func(){
	"verif_C13_benign": verif_C13_benign,
	"verif_C13_benign_extras": verif_C13_benign_extras,
	"verif_C13_passthrough": verif_C13_passthrough,
	"verif_C13_hostile2": verif_C13_hostile2,
	"verif_C13_hostile3": verif_C13_hostile3,
	"verif_C13_discard": verif_C13_discard,
}

func TestVerifReplay(t *testing.T) {
	defer func() {
		if r := recover(); r != nil {
			fmt.Printf("REPLAY-PANIC: %v\n", r)
			rtdebug.PrintStack()
			return
		}
	}()
	verifUnits[os.Getenv("VERIF_REPLAY_UNIT")]()
	fmt.Println("REPLAY-NO-VIOLATION")
}
