package gopacket

import (
	"fmt"
	"os"
	rtdebug "runtime/debug"
	"testing"
)

var verifUnits = map[string]func(){
	"verif_C16_pull": verif_C16_pull,
	"verif_C16_chan": verif_C16_chan,
	"verif_C16_guard": verif_C16_guard,
}

func TestVerifReplay(t *testing.T) {
	defer func() {
		if r := recover(); r != nil {
			fmt.Printf("REPLAY-PANIC: %v\n", r)
			rtdebug.PrintStack()
			return
		}
	}()
	verifUnits[os.Getenv("VERIF_REPLAY_UNIT")]()
	fmt.Println("REPLAY-NO-VIOLATION")
}
