package tcpreader

import (
	"fmt"
	"os"
	rtdebug "runtime/debug"
	"testing"
)

var verifUnits = map[string]func(){
	"verif_C20_read": verif_C20_read,
	"verif_C20_close": verif_C20_close,
	"verif_C20_close3": verif_C20_close3,
}

func TestVerifReplay(t *testing.T) {
	defer func() {
		if r := recover(); r != nil {
			fmt.Printf("REPLAY-PANIC: %v\n", r)
			rtdebug.PrintStack()
			return
		}
	}()
	verifUnits[os.Getenv("VERIF_REPLAY_UNIT")]()
	fmt.Println("REPLAY-NO-VIOLATION")
}
