package gopacket

import (
	"fmt"
	"os"
	rtdebug "runtime/debug"
	"testing"
)

var verifUnits = map[string]func(){
	"verif_C01_core2": verif_C01_core2,
	"verif_C01_core2x2": verif_C01_core2x2,
	"verif_C01_core3": verif_C01_core3,
	"verif_C03_core2": verif_C03_core2,
	"verif_C03_core2x2": verif_C03_core2x2,
	"verif_C03_core3": verif_C03_core3,
}

func TestVerifReplay(t *testing.T) {
	defer func() {
		if r := recover(); r != nil {
			fmt.Printf("REPLAY-PANIC: %v\n", r)
			rtdebug.PrintStack()
			return
		}
	}()
	verifUnits[os.Getenv("VERIF_REPLAY_UNIT")]()
	fmt.Println("REPLAY-NO-VIOLATION")
}
