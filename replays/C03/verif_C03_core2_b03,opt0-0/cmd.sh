#!/bin/sh
export PATH=/opt/veriftools/go1.26.8/bin:$PATH GOTOOLCHAIN=local GOFLAGS=-mod=mod GOPROXY=off GOSUMDB=off
cd /repo && VERIF_REPLAY_PARAMS='b0=3,opt=0' VERIF_REPLAY_UNIT=verif_C03_core2 VERIF_REPLAY_INPUTS=/verif/replays/C03/verif_C03_core2_b03,opt0-0/inputs.json go test -vet=off -count=1 -timeout 30s -overlay /verif/replays/C03/verif_C03_core2_b03,opt0-0/overlay.json -run '^TestVerifReplay$' -v .
