package gopacket

import (
	"bytes"
	"errors"
)

// C01 (builder protocol) and C03 (lazy == eager) on nondeterministic decoder
// stubs: each stub adds one layer of a chosen kind over a symbolic split of
// its data and then ends in one of five ways.

var c01Err = errors.New("stub decode error")

type c01Layer struct {
	t    LayerType
	c, p []byte
}

func (l *c01Layer) LayerType() LayerType  { return l.t }
func (l *c01Layer) LayerContents() []byte { return l.c }
func (l *c01Layer) LayerPayload() []byte  { return l.p }

type c01Link struct{ c01Layer }

func (l *c01Link) LinkFlow() Flow { return Flow{} }

type c01Net struct{ c01Layer }

func (l *c01Net) NetworkFlow() Flow { return Flow{} }

type c01Trans struct{ c01Layer }

func (l *c01Trans) TransportFlow() Flow { return Flow{} }

type c01App struct{ c01Layer }

func (l *c01App) Payload() []byte { return l.p }

// behaviour of one stub, chosen once per path and shared by the eager and the
// lazy decode
type c01Beh struct {
	kind  int // 0 plain 1 link 2 network 3 transport 4 application
	typ   LayerType
	split int // symbolic
	trunc bool
	end   int // 0 return nil, 1 return err, 2 panic, 3 NextDecoder(next stub), 4 NextDecoder(nil)
}

type c01Stub struct {
	i    int
	prog []c01Beh
}

func (s c01Stub) Decode(data []byte, p PacketBuilder) error {
	b := s.prog[s.i]
	k := b.split
	if k > len(data) {
		k = len(data)
	}
	base := c01Layer{t: b.typ, c: data[:k], p: data[k:]}
	switch b.kind {
	case 0:
		p.AddLayer(&base)
	case 1:
		l := &c01Link{base}
		p.AddLayer(l)
		p.SetLinkLayer(l)
	case 2:
		l := &c01Net{base}
		p.AddLayer(l)
		p.SetNetworkLayer(l)
	case 3:
		l := &c01Trans{base}
		p.AddLayer(l)
		p.SetTransportLayer(l)
	default:
		l := &c01App{base}
		p.AddLayer(l)
		p.SetApplicationLayer(l)
	}
	if b.trunc {
		p.SetTruncated()
	}
	switch b.end {
	case 0:
		return nil
	case 1:
		return c01Err
	case 2:
		panic("stub decoder panic")
	case 3:
		if s.i+1 < len(s.prog) {
			return p.NextDecoder(c01Stub{s.i + 1, s.prog})
		}
		return nil
	default:
		return p.NextDecoder(nil)
	}
}

func c01Prog(depth int, n int) []c01Beh {
	prog := make([]c01Beh, depth)
	for i := range prog {
		var code int
		if i == 0 {
			code = verifParam("b0")
		} else {
			code = verifChoose(15)
		}
		prog[i] = c01Beh{kind: code % 3 * 2, end: code / 3, typ: LayerType(1000 + verifInt("typ", 0, 1)), split: verifInt("split", 0, 3)}
		if prog[i].kind == 0 && i == 1 {
			prog[i].kind = 1 + 2*verifChoose(2) // link or transport for variety
		}
	}
	prog[0].trunc = verifBool("trunc")
	return prog
}

func c01Same(a, b Layer) bool {
	if a == nil || b == nil {
		return a == nil && b == nil
	}
	return verifAnd(a.LayerType() == b.LayerType(), verifAnd(bytes.Equal(a.LayerContents(), b.LayerContents()), bytes.Equal(a.LayerPayload(), b.LayerPayload())))
}

// error-layer contract on a fully decoded packet
func c01Contract(p Packet, prog []c01Beh, nonEmpty bool) {
	ls := p.Layers()
	el := p.ErrorLayer()
	// did any executed stub fail?
	failed := false
	for i, b := range prog {
		if b.end == 1 || b.end == 2 || b.end == 4 {
			failed = true
		}
		if b.end != 3 {
			break
		}
		// NextDecoder stops silently when the payload is empty
		if i < len(ls) && len(ls[i].LayerPayload()) == 0 {
			break
		}
	}
	nfail := 0
	for _, l := range ls {
		if _, ok := l.(*DecodeFailure); ok {
			nfail++
		}
	}
	if failed {
		verifAssert(el != nil, "error layer set when a decoder failed")
		verifAssert(len(ls) > 0 && ls[len(ls)-1] == Layer(el), "error layer is the last layer")
		verifAssert(nfail == 1, "exactly one decode failure layer")
	} else {
		verifAssert(el == nil, "no error layer when everything decoded")
		verifAssert(nfail == 0, "no decode failure layer when everything decoded")
	}
}

func c01Run(depth int, steps int) {
	n := verifInt("n", 1, 3)
	in := verifBytes("in", 3)[:n]
	prog := c01Prog(depth, n)
	oc := verifParam("opt")
	opts := DecodeOptions{NoCopy: oc == 1, Pool: oc == 2, DecodeStreamsAsDatagrams: oc == 3}
	if oc == 4 {
		opts = DecodeOptions{NoCopy: true, Pool: true, DecodeStreamsAsDatagrams: true}
	}
	eager := NewPacket(in, c01Stub{0, prog}, opts)
	lopts := opts
	lopts.Lazy = true
	lazy := NewPacket(in, c01Stub{0, prog}, lopts)
	// accessor sequence on the lazy packet, mirrored on the eager one
	for step := 0; step < steps; step++ {
		var a, b Layer
		switch verifChoose(9) {
		case 0:
			t := LayerType(1000 + verifInt("t", 0, 1))
			a, b = lazy.Layer(t), eager.Layer(t)
		case 1:
			a, b = lazy.LayerClass(LayerTypeDecodeFailure), eager.LayerClass(LayerTypeDecodeFailure)
		case 2:
			if x := lazy.LinkLayer(); x != nil {
				a = x
			}
			if x := eager.LinkLayer(); x != nil {
				b = x
			}
		case 3:
			if x := lazy.NetworkLayer(); x != nil {
				a = x
			}
			if x := eager.NetworkLayer(); x != nil {
				b = x
			}
		case 4:
			if x := lazy.TransportLayer(); x != nil {
				a = x
			}
			if x := eager.TransportLayer(); x != nil {
				b = x
			}
		case 5:
			if x := lazy.ApplicationLayer(); x != nil {
				a = x
			}
			if x := eager.ApplicationLayer(); x != nil {
				b = x
			}
		case 6:
			if x := lazy.ErrorLayer(); x != nil {
				a = x
			}
			if x := eager.ErrorLayer(); x != nil {
				b = x
			}
		case 7:
			t := LayerType(1001)
			a, b = lazy.LayerClass(t), eager.LayerClass(t)
		default:
			// no call
		}
		verifAssert(c01Same(a, b), "lazy accessor returns what the eager accessor returns")
	}
	ll, el := lazy.Layers(), eager.Layers()
	verifAssert(len(ll) == len(el), "same number of layers")
	for i := range el {
		if i < len(ll) {
			verifAssert(c01Same(ll[i], el[i]), "same layers in the same order")
		}
	}
	verifAssert(lazy.Metadata().Truncated == eager.Metadata().Truncated, "truncation flag agrees once all layers were requested")
	verifAssert(bytes.Equal(lazy.Data(), eager.Data()), "same data")
	c01Contract(eager, prog, true)
	c01Contract(lazy, prog, true)
	verifReached("c01core")
}

func verif_C01_core2()   { c01Run(2, 1) }
func verif_C01_core2x2() { c01Run(2, 2) }
func verif_C01_core3()   { c01Run(3, 1) }
