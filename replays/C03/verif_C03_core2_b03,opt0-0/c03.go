package gopacket

// C03: lazy decoding is observationally equivalent to eager decoding
// (the comparison lives in c01Run, shared with C01's builder-protocol check).

func verif_C03_core2()   { c01Run(2, 1) }
func verif_C03_core2x2() { c01Run(2, 2) }
func verif_C03_core3()   { c01Run(3, 1) }
