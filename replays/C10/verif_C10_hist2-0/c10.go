package tcpassembly

import (
	"time"

	"github.com/gopacket/gopacket"
	"github.com/gopacket/gopacket/layers"
)

// C10: tcpassembly delivers bytes in order, exactly once, gaps announced.

func verif_C10_seq_lemma() {
	s := Sequence(verifU32("s"))
	t := Sequence(verifU32("t"))
	d := int32(uint32(t) - uint32(s)) // true modular distance, signed
	verifAssume(verifAnd(d > -(1<<30), d < 1<<30))
	verifAssert(s.Difference(t) == int(d), "Difference is the signed distance modulo 2^32")
	n := verifInt("n", 0, 1<<20)
	verifAssert(s.Add(n).Difference(s) == -n, "Add then Difference")
	verifAssert(s.Add(n) == Sequence(uint32(s)+uint32(n)), "Add wraps modulo 2^32")
	verifReached("lemma")
}

type c10Chunk struct {
	b          []byte
	skip       int
	start, end bool
}

type c10Stream struct {
	chunks   []c10Chunk
	complete int
	late     bool
}

func (s *c10Stream) Reassembled(rs []Reassembly) {
	if s.complete > 0 {
		s.late = true
	}
	for _, r := range rs {
		s.chunks = append(s.chunks, c10Chunk{b: append([]byte(nil), r.Bytes...), skip: r.Skip, start: r.Start, end: r.End})
	}
}
func (s *c10Stream) ReassemblyComplete() { s.complete++ }

type c10Factory struct {
	streams []*c10Stream
}

func (f *c10Factory) New(n, t gopacket.Flow) Stream {
	s := &c10Stream{}
	f.streams = append(f.streams, s)
	return s
}

var c10Net = gopacket.NewFlow(layers.EndpointIPv4, []byte{1, 2, 3, 4}, []byte{5, 6, 7, 8})

const c10W = 8

// k segments after the SYN; symbolic offsets cover every arrival order,
// duplicate and overlap pattern of consistent data.
func c10History(k int, flushes bool, limit int) {
	f := &c10Factory{}
	pool := NewStreamPool(f)
	a := NewAssembler(pool)
	if limit > 0 {
		a.MaxBufferedPagesPerConnection = limit
	}
	S := verifBytes("S", c10W+3)
	isn := verifU32("isn")
	ts := time.Unix(1000, 0)
	a.AssembleWithTimestamp(c10Net, &layers.TCP{Seq: isn, SYN: true}, ts)
	arrived := make([]bool, c10W+3)
	flushed := false
	for i := 0; i < k; i++ {
		o := verifInt("o", 0, c10W-1)
		l := verifInt("l", 0, 3)
		fin := false
		if i == k-1 {
			fin = verifBool("fin")
		}
		tcp := &layers.TCP{Seq: isn + 1 + uint32(o), FIN: fin}
		tcp.Payload = S[o : o+l]
		for j := 0; j < c10W+3; j++ {
			arrived[j] = verifOr(arrived[j], verifAnd(j >= o, j < o+l))
		}
		a.AssembleWithTimestamp(c10Net, tcp, ts)
		if flushes && verifChoose(2) == 1 {
			a.FlushWithOptions(FlushOptions{T: ts.Add(time.Second), CloseAll: false})
			flushed = true
		}
	}
	if flushes {
		a.FlushAll()
		flushed = true
	}
	verifAssert(len(f.streams) == 1, "one stream for the direction")
	st := f.streams[0]
	verifAssert(!st.late, "no data after completion")
	pos := 0
	for ci, c := range st.chunks {
		if ci == 0 {
			verifAssert(c.start, "first delivery marks the start")
		}
		verifAssert(c.skip != -1, "skip is never unknown once the SYN was seen")
		if c.skip != 0 {
			verifAssert(flushed || limit > 0, "gaps are skipped only on flush or buffer limit")
			verifAssert(c.skip > 0, "skip is a positive byte count")
			pos += c.skip
		}
		verifAssert(pos+len(c.b) <= c10W+3, "delivered bytes lie inside the stream")
		for j := range c.b {
			verifAssert(c.b[j] == S[pos+j], "delivered bytes are the sender's bytes at that position")
		}
		pos += len(c.b)
	}
	// everything that arrived contiguously from the start has been delivered
	contig := 0
	for j := 0; j < c10W+3; j++ {
		contig = verifIte(verifAnd(contig == j, arrived[j]), j+1, contig)
	}
	verifAssert(pos >= contig, "every contiguously arrived byte was delivered")
	verifReached("history")
}

func verif_C10_hist2()       { c10History(2, false, 0) }
func verif_C10_hist3()       { c10History(3, false, 0) }
func verif_C10_hist2_flush() { c10History(2, true, 0) }
func verif_C10_hist3_flush() { c10History(3, true, 0) }
func verif_C10_hist3_limit() { c10History(3, false, 1) }
