package gopacket

// C08: checksum helpers vs RFC 1071.

func verif_C08_fold() {
	c := verifU32("c")
	r := FoldChecksum(c)
	// RFC 1071: the 16-bit one's complement sum s of the two halves (with
	// end-around carry) satisfies s == c (mod 65535), s in 1..0xffff unless c == 0.
	s := ^r
	verifAssert(uint32(s)%65535 == c%65535, "fold congruent mod 65535")
	verifAssert((s == 0) == (c == 0), "fold zero iff c zero")
	verifReached("fold")
}

func refSum(data []byte, n int, c0 uint32) uint32 {
	var acc uint64 = uint64(c0)
	for i := 0; i < n; i += 2 {
		w := uint64(data[i]) << 8
		if i+1 < n {
			w |= uint64(data[i+1])
		}
		acc += w
	}
	return uint32(acc)
}

func verif_C08_sum() {
	const N = 24
	d := verifBytes("d", N)
	n := verifInt("n", 0, N)
	c0 := verifU32("c0")
	got := ComputeChecksum(d[:n], c0)
	want := refSum(d, n, c0)
	verifAssert(got == want, "ComputeChecksum equals reference sum")
	verifReached("sum")
}
