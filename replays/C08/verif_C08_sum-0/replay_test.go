package gopacket

import (
	"fmt"
	"os"
	rtdebug "runtime/debug"
	"testing"
)

var verifUnits = map[string]func(){
	"verif_C08_fold": verif_C08_fold,
	"verif_C08_sum": verif_C08_sum,
}

func TestVerifReplay(t *testing.T) {
	defer func() {
		if r := recover(); r != nil {
			fmt.Printf("REPLAY-PANIC: %v\n", r)
			rtdebug.PrintStack()
			return
		}
	}()
	verifUnits[os.Getenv("VERIF_REPLAY_UNIT")]()
	fmt.Println("REPLAY-NO-VIOLATION")
}
