package layers

import (
	"fmt"
	"os"
	rtdebug "runtime/debug"
	"testing"
)

var verifUnits = map[string]func(){
	"verif_C08_emit_udp4": verif_C08_emit_udp4,
	"verif_C08_emit_udp6": verif_C08_emit_udp6,
	"verif_C08_emit_tcp4": verif_C08_emit_tcp4,
	"verif_C08_emit_tcp6": verif_C08_emit_tcp6,
	"verif_C08_emit_icmp4": verif_C08_emit_icmp4,
	"verif_C08_emit_ip4": verif_C08_emit_ip4,
	"verif_C08_flip_udp4": verif_C08_flip_udp4,
	"verif_C08_flip_udp6": verif_C08_flip_udp6,
	"verif_C08_flip_tcp4": verif_C08_flip_tcp4,
	"verif_C08_flip_tcp6": verif_C08_flip_tcp6,
	"verif_C08_flip_icmp4": verif_C08_flip_icmp4,
	"verif_C08_flip_ip4": verif_C08_flip_ip4,
}

func TestVerifReplay(t *testing.T) {
	defer func() {
		if r := recover(); r != nil {
			fmt.Printf("REPLAY-PANIC: %v\n", r)
			rtdebug.PrintStack()
			return
		}
	}()
	verifUnits[os.Getenv("VERIF_REPLAY_UNIT")]()
	fmt.Println("REPLAY-NO-VIOLATION")
}
