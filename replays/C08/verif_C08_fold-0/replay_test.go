package gopacket

import (
	"fmt"
	"runtime/debug"
	"testing"
)

func TestVerifReplay(t *testing.T) {
	defer func() {
		if r := recover(); r != nil {
			fmt.Printf("REPLAY-PANIC: %v\n", r)
			debug.PrintStack()
			return
		}
	}()
	verif_C08_fold()
	fmt.Println("REPLAY-NO-VIOLATION")
}
