#!/bin/sh
cd /repo && VERIF_REPLAY_INPUTS=/verif/replays/C08/verif_C08_fold-0/inputs.json go test -vet=off -count=1 -timeout 30s -overlay /verif/replays/C08/verif_C08_fold-0/overlay.json -run '^TestVerifReplay$' -v .
