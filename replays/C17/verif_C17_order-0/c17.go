package gopacket

import "bytes"

// C17: endpoints and flows as values.

func c17Endpoint(tag string) (Endpoint, EndpointType, []byte) {
	raw := verifBytes(tag, MaxEndpointSize)
	n := verifInt(tag+".n", 0, MaxEndpointSize)
	t := EndpointType(verifU64(tag + ".t"))
	return NewEndpoint(t, raw[:n]), t, raw[:n]
}

func verif_C17_endpoint_eq() {
	ea, ta, ra := c17Endpoint("a")
	eb, tb, rb := c17Endpoint("b")
	same := verifAnd(ta == tb, bytes.Equal(ra, rb))
	verifAssert((ea == eb) == same, "endpoints equal iff type and bytes equal")
	m := map[Endpoint]int{ea: 1}
	_, hit := m[eb]
	verifAssert(hit == same, "map lookup finds exactly equal endpoints")
	verifAssert(bytes.Equal(ea.Raw(), ra), "Raw returns the address bytes")
	verifAssert(ea.EndpointType() == ta, "EndpointType returns the type")
	verifReached("endpoint_eq")
}

func verif_C17_endpoint_reject() {
	raw := verifBytes("a", 20)
	n := verifInt("a.n", 17, 20)
	rejected := false
	func() {
		defer func() {
			if recover() != nil {
				rejected = true
			}
		}()
		NewEndpoint(EndpointType(1), raw[:n])
	}()
	verifAssert(rejected, "NewEndpoint rejects > 16 bytes")
	rejected = false
	func() {
		defer func() {
			if recover() != nil {
				rejected = true
			}
		}()
		NewFlow(EndpointType(1), raw[:n], raw[:2])
	}()
	verifAssert(rejected, "NewFlow rejects > 16 byte src")
	rejected = false
	func() {
		defer func() {
			if recover() != nil {
				rejected = true
			}
		}()
		NewFlow(EndpointType(1), raw[:2], raw[:n])
	}()
	verifAssert(rejected, "NewFlow rejects > 16 byte dst")
	verifReached("reject")
}

func verif_C17_order() {
	a, _, _ := c17Endpoint("a")
	b, _, _ := c17Endpoint("b")
	c, _, _ := c17Endpoint("c")
	ab, ba, bc, ac := a.LessThan(b), b.LessThan(a), b.LessThan(c), a.LessThan(c)
	verifAssert(!a.LessThan(a), "irreflexive")
	verifAssert(!verifAnd(ab, ba), "asymmetric")
	verifAssert(verifOr(a == b, verifOr(ab, ba)), "total on unequal values")
	verifAssert(verifImplies(a == b, !verifOr(ab, ba)), "equal values are unordered")
	verifAssert(verifImplies(verifAnd(ab, bc), ac), "transitive")
	verifReached("order")
}

func verif_C17_flow_algebra() {
	src := verifBytes("s", MaxEndpointSize)
	dst := verifBytes("d", MaxEndpointSize)
	ns := verifInt("s.n", 0, MaxEndpointSize)
	nd := verifInt("d.n", 0, MaxEndpointSize)
	t := EndpointType(verifU64("t"))
	f := NewFlow(t, src[:ns], dst[:nd])
	s, d := f.Endpoints()
	verifAssert(s == NewEndpoint(t, src[:ns]), "Endpoints().src")
	verifAssert(d == NewEndpoint(t, dst[:nd]), "Endpoints().dst")
	verifAssert(f.Src() == s, "Src")
	verifAssert(f.Dst() == d, "Dst")
	verifAssert(f.EndpointType() == t, "flow type")
	g, err := FlowFromEndpoints(s, d)
	verifAssert(err == nil, "FlowFromEndpoints ok for same types")
	verifAssert(g == f, "FlowFromEndpoints(Endpoints()) == f")
	r := f.Reverse()
	verifAssert(r.Reverse() == f, "Reverse twice")
	verifAssert(r == NewFlow(t, dst[:nd], src[:ns]), "Reverse swaps")
	rs, rd := r.Endpoints()
	verifAssert(verifAnd(rs == d, rd == s), "Reverse endpoints")
	// second flow: equality iff all parts equal
	src2 := verifBytes("s2", MaxEndpointSize)
	dst2 := verifBytes("d2", MaxEndpointSize)
	ns2 := verifInt("s2.n", 0, MaxEndpointSize)
	nd2 := verifInt("d2.n", 0, MaxEndpointSize)
	t2 := EndpointType(verifU64("t2"))
	f2 := NewFlow(t2, src2[:ns2], dst2[:nd2])
	same := verifAnd(t == t2, verifAnd(bytes.Equal(src[:ns], src2[:ns2]), bytes.Equal(dst[:nd], dst2[:nd2])))
	verifAssert((f == f2) == same, "flows equal iff type and both addresses equal")
	verifReached("flow_algebra")
}

func verif_C17_flow_mismatch() {
	a, ta, _ := c17Endpoint("a")
	b, tb, _ := c17Endpoint("b")
	verifAssume(ta != tb)
	_, err := FlowFromEndpoints(a, b)
	verifAssert(err != nil, "mismatched endpoint types rejected")
	verifReached("mismatch")
}

// hash symmetry for all lengths 0..16 (terms normalise; multiplications are
// never bit-blasted when the combiner is commutative)
func verif_C17_hash_sym() {
	src := verifBytes("s", MaxEndpointSize)
	dst := verifBytes("d", MaxEndpointSize)
	ns := verifInt("s.n", 0, MaxEndpointSize)
	nd := verifInt("d.n", 0, MaxEndpointSize)
	t := EndpointType(verifU64("t"))
	f := NewFlow(t, src[:ns], dst[:nd])
	verifAssert(f.FastHash() == f.Reverse().FastHash(), "FastHash symmetric")
	verifReached("hash_sym")
}

// the same with lengths <= 2 so that a non-commutative combiner is refuted by
// the solver rather than by normalisation; also equal values hash equally
func verif_C17_hash_small() {
	src := verifBytes("s", 2)
	dst := verifBytes("d", 2)
	ns := verifInt("s.n", 0, 2)
	nd := verifInt("d.n", 0, 2)
	t := EndpointType(verifU64("t"))
	f := NewFlow(t, src[:ns], dst[:nd])
	verifAssert(f.FastHash() == f.Reverse().FastHash(), "FastHash symmetric (small)")
	e1 := NewEndpoint(t, src[:ns])
	e2 := NewEndpoint(t, dst[:nd])
	if e1 == e2 {
		verifAssert(e1.FastHash() == e2.FastHash(), "equal endpoints hash equally")
	}
	verifReached("hash_small")
}
