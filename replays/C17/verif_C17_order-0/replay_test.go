package gopacket

import (
	"fmt"
	"os"
	rtdebug "runtime/debug"
	"testing"
)

var verifUnits = map[string]func(){
	"verif_C17_endpoint_eq": verif_C17_endpoint_eq,
	"verif_C17_endpoint_reject": verif_C17_endpoint_reject,
	"verif_C17_order": verif_C17_order,
	"verif_C17_flow_algebra": verif_C17_flow_algebra,
	"verif_C17_flow_mismatch": verif_C17_flow_mismatch,
	"verif_C17_hash_sym": verif_C17_hash_sym,
	"verif_C17_hash_small": verif_C17_hash_small,
}

func TestVerifReplay(t *testing.T) {
	defer func() {
		if r := recover(); r != nil {
			fmt.Printf("REPLAY-PANIC: %v\n", r)
			rtdebug.PrintStack()
			return
		}
	}()
	verifUnits[os.Getenv("VERIF_REPLAY_UNIT")]()
	fmt.Println("REPLAY-NO-VIOLATION")
}
