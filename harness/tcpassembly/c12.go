package tcpassembly

import (
	"time"

	"github.com/gopacket/gopacket"
	"github.com/gopacket/gopacket/layers"
)

// C11/C12: lifecycle, and assemblers sharing one stream pool.

type c12Stream struct {
	f        *c12Factory
	complete int
	late     bool
	bytes    []byte
	calls    int
}

func (s *c12Stream) Reassembled(rs []Reassembly) {
	s.calls++
	s.f.enter()
	if s.complete > 0 {
		s.late = true
	}
	for _, r := range rs {
		s.bytes = append(s.bytes, r.Bytes...)
	}
	verifYield()
	s.f.leave()
}
func (s *c12Stream) ReassemblyComplete() {
	s.f.enter()
	s.complete++
	s.f.leave()
}

type c12Factory struct {
	streams []*c12Stream
	in      map[*c12Stream]bool
	overlap bool
	depth   int
	meet    chan bool // non-nil: the two factory calls wait for each other
}

func (f *c12Factory) enter() {}
func (f *c12Factory) leave() {}

func (f *c12Factory) New(n, t gopacket.Flow) Stream {
	s := &c12Stream{f: f}
	f.streams = append(f.streams, s)
	if f.meet != nil {
		// both assemblers have missed the lookup before either inserts: this
		// pins the racing-first-packets schedule down for the native replay too
		select {
		case f.meet <- true:
		case <-f.meet:
		}
	} else {
		verifYield() // the callback runs between dropping the read lock and taking the write lock
	}
	return s
}

var c12Net = gopacket.NewFlow(layers.EndpointIPv4, []byte{1, 2, 3, 4}, []byte{5, 6, 7, 8})
var c12Net2 = gopacket.NewFlow(layers.EndpointIPv4, []byte{9, 9, 9, 9}, []byte{5, 6, 7, 8})

func verif_C12_two_assemblers() {
	verifPreemptBound(verifParam("preempt"))
	f := &c12Factory{}
	if verifChoose(2) == 0 { // explored first, so that a counterexample is found in the natively reproducible mode
		f.meet = make(chan bool)
	}
	pool := NewStreamPool(f)
	a1, a2 := NewAssembler(pool), NewAssembler(pool)
	ts := time.Unix(50, 0)
	d := verifBytes("d", 2)
	net2 := c12Net
	if verifChoose(2) == 1 {
		net2 = c12Net2 // unrelated connection
	}
	done := make(chan bool, 2)
	go func() {
		a1.AssembleWithTimestamp(c12Net, &layers.TCP{Seq: 100, SYN: true}, ts)
		done <- true
	}()
	go func() {
		t := &layers.TCP{Seq: 101}
		t.Payload = d
		a2.AssembleWithTimestamp(net2, t, ts)
		done <- true
	}()
	<-done
	<-done
	verifJoin()
	// streams attached to a connection are the ones kept
	kept := map[Stream]bool{}
	for _, c := range pool.conns {
		kept[c.stream] = true
	}
	a1.FlushAll()
	nk := 0
	for _, s := range f.streams {
		verifAssert(!s.late, "no data after completion")
		if kept[s] {
			nk++
			verifAssert(s.complete == 1, "every kept stream is completed exactly once")
		} else {
			verifAssert(s.complete == 0, "a stream that was not kept gets no callbacks")
			verifAssert(s.calls == 0, "a stream that was not kept receives no deliveries")
			verifAssert(len(s.bytes) == 0, "a stream that was not kept receives no data")
		}
	}
	if net2 == c12Net {
		verifAssert(nk == 1, "both packets of one direction end up on a single connection entry")
	} else {
		verifAssert(nk == 2, "two unrelated connections")
	}
	verifAssert(len(pool.conns) == 0, "no connection remains in the pool after flush-all")
	verifReached("two")
}

// C11: lifecycle over histories on two connections, single assembler
func verif_C11_lifecycle() { c11Lifecycle(verifParam("k")) }

func c11Lifecycle(k int) {
	f := &c12Factory{}
	pool := NewStreamPool(f)
	a := NewAssembler(pool)
	limit := verifChoose(3) // 0 none, else per-connection page limit
	a.MaxBufferedPagesPerConnection = limit
	ts := time.Unix(50, 0)
	S := verifBytes("S", 8)
	nets := [2]gopacket.Flow{c12Net, c12Net2}
	for i := 0; i < k; i++ {
		conn := verifChoose(2)
		t := &layers.TCP{Seq: 100 + uint32(verifInt("o", 0, 5)), SYN: verifBool("syn"), FIN: verifBool("fin"), RST: verifBool("rst")}
		l := verifInt("l", 0, 2)
		t.Payload = S[0:l]
		a.AssembleWithTimestamp(nets[conn], t, ts.Add(time.Duration(i)*time.Second))
		if limit > 0 {
			for _, c := range pool.conns {
				verifAssert(c.pages <= limit+1, "buffered pages stay within the limit plus the packet in flight")
			}
		}
		if verifChoose(3) == 1 {
			a.FlushOlderThan(ts.Add(time.Duration(verifInt("cut", 0, 3)) * time.Second))
		}
	}
	a.FlushAll()
	for _, s := range f.streams {
		verifAssert(!s.late, "no data after completion")
		verifAssert(s.complete == 1, "every stream obtained from the factory is completed exactly once")
	}
	verifAssert(len(pool.conns) == 0, "no connection remains in the pool after flush-all")
	verifAssert(a.pc.used == 0, "no buffer page remains in use after flush-all")
	verifReached("lifecycle")
}
