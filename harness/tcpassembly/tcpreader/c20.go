package tcpreader

import (
	"io"

	"github.com/gopacket/gopacket/tcpassembly"
)

// C20: ReaderStream returns exactly the delivered bytes; never wedges the assembler.

func c20Run(maxBatches int, consumerSteps int, allowClose bool) {
	verifPreemptBound(verifParam("preempt"))
	r := NewReaderStream()
	r.LossErrors = verifChoose(2) == 1
	nb := 1 + verifChoose(maxBatches)
	var all []byte
	skips := 0
	batches := make([][]tcpassembly.Reassembly, nb)
	for i := 0; i < nb; i++ {
		nr := 1 + verifChoose(2)
		for j := 0; j < nr; j++ {
			ln := verifChoose(3)
			b := verifBytes("b", 2)[:ln]
			sk := verifIte(verifBool("skip"), 5, 0)
			skips += verifIte(verifAnd(sk != 0, ln > 0), 1, 0)
			batches[i] = append(batches[i], tcpassembly.Reassembly{Bytes: b, Skip: sk})
			all = append(all, b...)
		}
	}
	asmDone := false
	go func() {
		for i := 0; i < nb; i++ {
			r.Reassembled(batches[i])
		}
		r.ReassemblyComplete()
		asmDone = true
	}()
	// optionally let the assembler run until it waits for the consumer, so
	// that "Close/Read while the assembler is already delivering" is a
	// state the native replay reaches too
	settle := verifChoose(2) == 1
	if settle {
		verifSettle()
	}
	var got []byte
	eof, closed := false, false
	losses := 0
	for step := 0; step < consumerSteps+16 && !eof && !closed; step++ {
		if allowClose && step < consumerSteps && verifChoose(2) == 1 {
			if settle {
				verifSettle()
			}
			verifAssert(r.Close() == nil, "Close returns nil")
			closed = true
			break
		}
		sz := 1
		if step < consumerSteps {
			sz = 1 + verifChoose(2)
		}
		buf := make([]byte, sz)
		n, err := r.Read(buf)
		switch err {
		case nil:
			got = append(got, buf[:n]...)
		case io.EOF:
			verifAssert(n == 0, "EOF carries no data")
			eof = true
		case DataLost:
			verifAssert(r.LossErrors, "loss reported only when asked")
			losses++
		default:
			verifAssert(false, "unexpected error from Read")
		}
	}
	verifAssert(eof || closed, "consumer finished within the step bound")
	verifJoin() // both sides must run to completion: no deadlock
	verifAssert(asmDone, "assembler side completed")
	verifAssert(len(got) <= len(all), "no more bytes than delivered")
	for i := range got {
		verifAssert(got[i] == all[i], "bytes read are the delivered bytes in order")
	}
	if eof {
		verifAssert(len(got) == len(all), "reading to EOF yields every delivered byte")
		if r.LossErrors {
			verifAssert(losses == skips, "one loss report per skipping non-empty reassembly")
		} else {
			verifAssert(losses == 0, "no loss reports unless asked")
		}
	}
	verifReached("c20")
}

func verif_C20_read()  { c20Run(2, 3, false) }
func verif_C20_close() { c20Run(2, 3, true) }
func verif_C20_close3() { c20Run(3, 5, true) }
