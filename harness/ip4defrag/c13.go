package ip4defrag

import (
	"net"
	"time"

	"github.com/gopacket/gopacket/layers"
)

// C13: IPv4 defragmentation.

var c13Src = net.IP{10, 0, 0, 1}
var c13Dst = net.IP{10, 0, 0, 2}

func c13Frag(ihl uint8, id uint16, offUnits int, more bool, payload []byte, opts []layers.IPv4Option) *layers.IPv4 {
	ip := &layers.IPv4{
		Version: 4, IHL: ihl, TTL: 64, Protocol: layers.IPProtocolUDP,
		Id: id, FragOffset: uint16(offUnits), SrcIP: c13Src, DstIP: c13Dst,
		Length: uint16(int(ihl)*4 + len(payload)), Options: opts,
	}
	if more {
		ip.Flags = layers.IPv4MoreFragments
	}
	ip.Payload = payload
	return ip
}

var c13Perm3 = [6][3]int{{0, 1, 2}, {0, 2, 1}, {1, 0, 2}, {1, 2, 0}, {2, 0, 1}, {2, 1, 0}}

// benign: a datagram cut into 3 fragments at 8-byte boundaries, any arrival
// order, optional IP options, one duplicated fragment, one foreign fragment.
func c13Benign(withExtras bool) {
	var ihl uint8 = 5
	var opts []layers.IPv4Option
	if verifChoose(2) == 1 {
		ihl = 6
		opts = []layers.IPv4Option{{OptionType: 1, OptionLength: 1}}
	}
	a := 1 + verifChoose(2) // units in fragment 0
	b := 1 + verifChoose(2) // units in fragment 1
	cut1, cut2 := 8*a, 8*(a+b)
	last := verifInt("last", 1, 8)
	total := cut2 + last
	p := verifBytes("p", 40)
	frags := [3]*layers.IPv4{
		c13Frag(ihl, 7, 0, true, p[0:cut1], opts),
		c13Frag(ihl, 7, a, true, p[cut1:cut2], opts),
		c13Frag(ihl, 7, a+b, false, p[cut2:total], opts),
	}
	order := c13Perm3[verifChoose(6)]
	d := NewIPv4Defragmenter()
	t := time.Time{}
	dup := -1
	foreignAt := -1
	if withExtras {
		dup = verifChoose(3) - 1      // -1 none, else duplicate the 1st/2nd arrival right after it
		foreignAt = verifChoose(3) - 1 // foreign datagram's fragment before arrival #k
	}
	var out *layers.IPv4
	for k := 0; k < 3; k++ {
		if foreignAt == k {
			f := c13Frag(5, 8, 0, true, p[0:8], nil)
			o, err := d.DefragIPv4WithTimestamp(f, t)
			verifAssert(o == nil, "foreign fragment completes nothing")
			verifAssert(err == nil, "foreign fragment accepted")
		}
		o, err := d.DefragIPv4WithTimestamp(frags[order[k]], t)
		verifAssert(err == nil, "benign fragment accepted without error")
		if k < 2 {
			verifAssert(o == nil, "nothing returned before the last missing fragment")
			if dup == k {
				o2, err2 := d.DefragIPv4WithTimestamp(frags[order[k]], t)
				verifAssert(o2 == nil, "duplicate returns nothing")
				verifAssert(err2 == nil, "duplicate gives no error")
			}
		} else {
			out = o
		}
	}
	verifAssert(out != nil, "datagram returned when the last fragment arrives")
	verifAssert(len(out.Payload) == total, "payload length is the original length")
	for i := 0; i < total; i++ {
		verifAssert(out.Payload[i] == p[i], "payload bytes are the original bytes")
	}
	verifAssert(out.Flags == 0, "flags cleared")
	verifAssert(out.FragOffset == 0, "fragment offset cleared")
	verifAssert(out.IHL == ihl, "header length kept")
	verifAssert(int(out.Length) == int(ihl)*4+total, "length consistent with header and payload")
	verifReached("benign")
}

func verif_C13_benign()        { c13Benign(false) }
func verif_C13_benign_extras() { c13Benign(true) }

func verif_C13_passthrough() {
	p := verifBytes("p", 8)
	n := verifInt("n", 0, 8)
	ip := c13Frag(5, verifU16("id"), 0, false, p[:n], nil)
	if verifBool("df") {
		ip.Flags = layers.IPv4DontFragment
		ip.FragOffset = verifU16("off") & 0x1fff
	}
	d := NewIPv4Defragmenter()
	out, err := d.DefragIPv4WithTimestamp(ip, time.Time{})
	verifAssert(err == nil, "unfragmented: no error")
	verifAssert(out == ip, "unfragmented packets pass through unchanged")
	verifReached("passthrough")
}

// hostile: fragments with independent offsets, lengths, flags and contents.
// Whatever is returned must be made only of bytes some fragment placed there.
func c13Hostile(k int) {
	d := NewIPv4Defragmenter()
	var offs, lens [3]int
	var pays [3][]byte
	var accepted [3]bool
	var out *layers.IPv4
	nsent := 0
	for i := 0; i < k && out == nil; i++ {
		offs[i] = verifInt("off", 0, 3)
		lens[i] = verifInt("len", 0, 24)
		pays[i] = verifBytes("pay", 24)[:lens[i]]
		ip := c13Frag(5, 9, offs[i], verifBool("mf"), pays[i], nil)
		o, err := d.DefragIPv4WithTimestamp(ip, time.Time{})
		accepted[i] = err == nil
		nsent = i + 1
		if o != nil {
			if o == ip {
				// not a fragment at all: passed through
				verifReached("hostile-pass")
				return
			}
			out = o
		}
	}
	if out == nil {
		verifReached("hostile-none")
		return
	}
	n := len(out.Payload)
	verifAssert(n <= 48, "output no longer than the bytes received")
	for x := 0; x < 48; x++ {
		if x >= n {
			break
		}
		ok := false
		for i := 0; i < nsent; i++ {
			rel := x - offs[i]*8
			in := verifAnd(rel >= 0, rel < lens[i])
			if in {
				if pays[i][rel] == out.Payload[x] {
					ok = true
				}
			}
		}
		verifAssert(ok, "every returned byte was placed at that offset by some fragment")
	}
	verifAssert(int(out.Length) == int(out.IHL)*4+n, "returned length consistent with header and payload")
	verifReached("hostile-out")
}

func verif_C13_hostile2() { c13Hostile(2) }
func verif_C13_hostile3() { c13Hostile(3) }

func verif_C13_discard() {
	d := NewIPv4Defragmenter()
	p := verifBytes("p", 16)
	t1 := time.Unix(1000, 0)
	t2 := time.Unix(2000, 0)
	d.DefragIPv4WithTimestamp(c13Frag(5, 1, 0, true, p[0:8], nil), t1)
	d.DefragIPv4WithTimestamp(c13Frag(5, 2, 0, true, p[0:8], nil), t2)
	cut := time.Unix(int64(verifInt("cut", 900, 2100)), 0)
	n := d.DiscardOlderThan(cut)
	want := 0
	if t1.Before(cut) {
		want++
	}
	if t2.Before(cut) {
		want++
	}
	verifAssert(n == want, "discards exactly the flows last seen before the cut-off")
	// a forgotten flow starts from scratch: its second half alone completes nothing
	o, _ := d.DefragIPv4WithTimestamp(c13Frag(5, 1, 1, false, p[8:16], nil), t2)
	if t1.Before(cut) {
		verifAssert(o == nil, "discarded partial datagram is forgotten")
	} else {
		verifAssert(o != nil, "kept partial datagram completes")
	}
	verifReached("discard")
}
