package layers

import (
	"net"

	"github.com/gopacket/gopacket"
)

// C08 (emission and verification): every checksum written by serialization
// equals an independent reference; verification accepts it and rejects any
// single flipped covered bit.

// independent reference: one's complement of the one's complement sum of
// 16-bit big-endian words, odd tail padded with zero, 64-bit accumulator
func c08Ref(b []byte) uint16 {
	var acc uint64
	for i := 0; i+1 < len(b); i += 2 {
		acc += uint64(b[i])<<8 | uint64(b[i+1])
	}
	if len(b)%2 == 1 {
		acc += uint64(b[len(b)-1]) << 8
	}
	for acc>>16 != 0 {
		acc = acc&0xffff + acc>>16
	}
	return ^uint16(acc)
}

func c08Pseudo4(src, dst net.IP, proto byte, l4len int) []byte {
	return []byte{src[0], src[1], src[2], src[3], dst[0], dst[1], dst[2], dst[3], 0, proto, byte(l4len >> 8), byte(l4len)}
}

func c08Pseudo6(src, dst net.IP, proto byte, l4len int) []byte {
	p := append(append([]byte{}, src...), dst...)
	return append(p, byte(l4len>>24), byte(l4len>>16), byte(l4len>>8), byte(l4len), 0, 0, 0, proto)
}

type c08NetSetter interface {
	SetNetworkLayerForChecksum(gopacket.NetworkLayer) error
}

type c08Case struct {
	out      []byte // serialized packet starting at the network layer
	l4off    int    // offset of the transport header in out
	csumOff  int    // offset of the checksum field in out
	pseudo   []byte
	first    gopacket.LayerType
	udp      bool
	ownLayer gopacket.LayerType
}

func c08Build(kind int, plen int) c08Case {
	pay := verifBytes("pay", 5)[:plen]
	src4, dst4 := net.IP{10, 200, 3, 254}, net.IP{172, 16, 255, 1}
	src6, dst6 := net.IP{0x20, 1, 0xd, 0xb8, 0, 0, 0, 0, 0xff, 0xfe, 0, 0, 0, 0, 0, 1}, net.IP{0xfe, 0x80, 0, 0, 0, 0, 0, 0, 0x12, 0x34, 0x56, 0x78, 0x9a, 0xbc, 0xde, 0xf0}
	if verifParam("sym") >= 1 {
		// thorough: addresses symbolic too
		src4, dst4 = net.IP(verifBytes("src", 4)), net.IP(verifBytes("dst", 4))
		src6, dst6 = net.IP(verifBytes("src6", 16)), net.IP(verifBytes("dst6", 16))
	}
	opts := gopacket.SerializeOptions{FixLengths: true, ComputeChecksums: true}
	buf := gopacket.NewSerializeBuffer()
	ip4 := &IPv4{Version: 4, IHL: 5, TTL: verifU8("ttl"), Id: verifU16("id"), SrcIP: src4, DstIP: dst4}
	ip6 := &IPv6{Version: 6, HopLimit: verifU8("hl"), SrcIP: src6, DstIP: dst6}
	var c c08Case
	var err error
	switch kind {
	case 0: // UDP over IPv4
		ip4.Protocol = IPProtocolUDP
		u := &UDP{SrcPort: UDPPort(verifU16("sp")), DstPort: UDPPort(verifU16("dp"))}
		u.SetNetworkLayerForChecksum(ip4)
		err = gopacket.SerializeLayers(buf, opts, ip4, u, gopacket.Payload(pay))
		c = c08Case{l4off: 20, csumOff: 26, pseudo: c08Pseudo4(src4, dst4, 17, 8+plen), first: LayerTypeIPv4, udp: true, ownLayer: LayerTypeUDP}
	case 1: // UDP over IPv6
		ip6.NextHeader = IPProtocolUDP
		u := &UDP{SrcPort: UDPPort(verifU16("sp")), DstPort: UDPPort(verifU16("dp"))}
		u.SetNetworkLayerForChecksum(ip6)
		err = gopacket.SerializeLayers(buf, opts, ip6, u, gopacket.Payload(pay))
		c = c08Case{l4off: 40, csumOff: 46, pseudo: c08Pseudo6(src6, dst6, 17, 8+plen), first: LayerTypeIPv6, udp: true, ownLayer: LayerTypeUDP}
	case 2: // TCP over IPv4
		ip4.Protocol = IPProtocolTCP
		t := &TCP{SrcPort: TCPPort(verifU16("sp")), DstPort: TCPPort(verifU16("dp")), Seq: verifU32("seq"), Ack: verifU32("ack"), Window: verifU16("win"), SYN: verifBool("syn"), ACK: verifBool("ackf")}
		t.SetNetworkLayerForChecksum(ip4)
		err = gopacket.SerializeLayers(buf, opts, ip4, t, gopacket.Payload(pay))
		c = c08Case{l4off: 20, csumOff: 36, pseudo: c08Pseudo4(src4, dst4, 6, 20+plen), first: LayerTypeIPv4, ownLayer: LayerTypeTCP}
	case 3: // TCP over IPv6
		ip6.NextHeader = IPProtocolTCP
		t := &TCP{SrcPort: TCPPort(verifU16("sp")), DstPort: TCPPort(verifU16("dp")), Seq: verifU32("seq"), Ack: verifU32("ack"), Window: verifU16("win"), FIN: verifBool("fin")}
		t.SetNetworkLayerForChecksum(ip6)
		err = gopacket.SerializeLayers(buf, opts, ip6, t, gopacket.Payload(pay))
		c = c08Case{l4off: 40, csumOff: 56, pseudo: c08Pseudo6(src6, dst6, 6, 20+plen), first: LayerTypeIPv6, ownLayer: LayerTypeTCP}
	case 4: // ICMPv4
		ip4.Protocol = IPProtocolICMPv4
		i := &ICMPv4{TypeCode: ICMPv4TypeCode(verifU16("tc")), Id: verifU16("iid"), Seq: verifU16("iseq")}
		err = gopacket.SerializeLayers(buf, opts, ip4, i, gopacket.Payload(pay))
		c = c08Case{l4off: 20, csumOff: 22, first: LayerTypeIPv4, ownLayer: LayerTypeICMPv4}
	default: // IPv4 header checksum
		ip4.Protocol = IPProtocol(253)
		err = gopacket.SerializeLayers(buf, opts, ip4, gopacket.Payload(pay))
		c = c08Case{l4off: 0, csumOff: 10, first: LayerTypeIPv4, ownLayer: LayerTypeIPv4}
	}
	verifAssert(err == nil, "serialization succeeds")
	c.out = append([]byte(nil), buf.Bytes()...)
	return c
}

func c08Reference(c c08Case) uint16 {
	end := len(c.out)
	if c.ownLayer == LayerTypeIPv4 {
		end = 20
	}
	seg := append([]byte(nil), c.out[c.l4off:end]...)
	seg[c.csumOff-c.l4off] = 0
	seg[c.csumOff-c.l4off+1] = 0
	ref := c08Ref(append(append([]byte(nil), c.pseudo...), seg...))
	if c.udp && ref == 0 {
		ref = 0xffff
	}
	return ref
}

func c08Emit(kind int) {
	plen := verifChoose(6)
	c := c08Build(kind, plen)
	ref := c08Reference(c)
	got := uint16(c.out[c.csumOff])<<8 | uint16(c.out[c.csumOff+1])
	verifAssert(got == ref, "written checksum equals the independent reference")
	// the library accepts what it wrote
	p := gopacket.NewPacket(c.out, c.first, gopacket.Default)
	l := p.Layer(c.ownLayer)
	verifAssert(l != nil, "written packet decodes")
	if s, ok := l.(c08NetSetter); ok {
		s.SetNetworkLayerForChecksum(p.NetworkLayer())
	}
	err, res := l.(gopacket.LayerWithChecksum).VerifyChecksum()
	verifAssert(err == nil, "verification runs")
	verifAssert(res.Valid, "verification accepts every written checksum")
	verifReached("emit")
}

func c08Flip(kind int) {
	plen := 1 + verifChoose(4)
	c := c08Build(kind, plen)
	ref := c08Reference(c)
	// flip one bit of the payload or of the checksum field itself
	bad := append([]byte(nil), c.out...)
	bit := byte(1) << uint(verifInt("bit", 0, 7))
	inPayload := verifBool("inPayload")
	pos := c.csumOff + verifInt("csumByte", 0, 1)
	if inPayload {
		pos = len(bad) - 1 - verifInt("back", 0, plen-1)
		if c.ownLayer == LayerTypeIPv4 {
			pos = 8 // TTL byte of the header (payload is not covered)
		}
	}
	bad[pos] ^= bit
	p := gopacket.NewPacket(bad, c.first, gopacket.Default)
	l := p.Layer(c.ownLayer)
	verifAssume(l != nil)
	if s, ok := l.(c08NetSetter); ok {
		s.SetNetworkLayerForChecksum(p.NetworkLayer())
	}
	lc, ok := l.(gopacket.LayerWithChecksum)
	verifAssert(ok, "layer supports checksum verification")
	err, res := lc.VerifyChecksum()
	verifAssert(err == nil, "verification runs")
	stored := uint16(bad[c.csumOff])<<8 | uint16(bad[c.csumOff+1])
	if c.udp && stored == 0 {
		// the protocol defines a stored zero as 'no checksum'
		verifReached("flip-udp-zero")
		return
	}
	verifAssert(!res.Valid, "a single flipped covered bit is reported as a mismatch")
	if !inPayload {
		verifAssert(uint16(res.Correct) == ref, "the expected checksum reported is the reference value")
	}
	verifReached("flip")
}

func verif_C08_emit_udp4()  { c08Emit(0) }
func verif_C08_emit_udp6()  { c08Emit(1) }
func verif_C08_emit_tcp4()  { c08Emit(2) }
func verif_C08_emit_tcp6()  { c08Emit(3) }
func verif_C08_emit_icmp4() { c08Emit(4) }
func verif_C08_emit_ip4()   { c08Emit(5) }
func verif_C08_flip_udp4()  { c08Flip(0) }
func verif_C08_flip_udp6()  { c08Flip(1) }
func verif_C08_flip_tcp4()  { c08Flip(2) }
func verif_C08_flip_tcp6()  { c08Flip(3) }
func verif_C08_flip_icmp4() { c08Flip(4) }
func verif_C08_flip_ip4()   { c08Flip(5) }
