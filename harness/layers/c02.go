package layers

import (
	"bytes"

	"github.com/gopacket/gopacket"
)

// C02: decoding is deterministic and side-effect free; eager packets are shareable.
// C04: data ownership.

func c02Read(p gopacket.Packet) int {
	n := 0
	for _, l := range p.Layers() {
		n += len(l.LayerContents()) + len(l.LayerPayload())
	}
	if l := p.LinkLayer(); l != nil {
		_ = l.LinkFlow()
	}
	if l := p.NetworkLayer(); l != nil {
		_ = l.NetworkFlow()
	}
	if l := p.TransportLayer(); l != nil {
		_ = l.TransportFlow()
	}
	_, mm := p.VerifyChecksums()
	n += len(mm)
	if p.ErrorLayer() != nil {
		n++
	}
	return n
}

func c02Same(a, b gopacket.Packet) {
	la, lb := a.Layers(), b.Layers()
	verifAssert(len(la) == len(lb), "same number of layers")
	for i := range la {
		if i < len(lb) {
			verifAssert(la[i].LayerType() == lb[i].LayerType(), "same layer types")
			verifAssert(bytes.Equal(la[i].LayerContents(), lb[i].LayerContents()), "same contents")
			verifAssert(bytes.Equal(la[i].LayerPayload(), lb[i].LayerPayload()), "same payloads")
			verifAssert(verifDeepEqual(la[i], lb[i]), "same field values")
		}
	}
	verifAssert(a.Metadata().Truncated == b.Metadata().Truncated, "same truncation flag")
	verifAssert((a.ErrorLayer() == nil) == (b.ErrorLayer() == nil), "same error state")
	verifAssert(bytes.Equal(a.Data(), b.Data()), "same data")
}

// decode, decode something unrelated, decode again: identical packets; the
// caller's buffer is never written (engine: any store into it; native: bytes)
func c02Determinism(first gopacket.LayerType, n int) {
	in := verifBytes("in", n)
	ln := verifInt("n", 0, n)
	save := append([]byte(nil), in...)
	verifInput(in)
	verifBarrier(true)
	opts := gopacket.DecodeOptions{NoCopy: verifChoose(2) == 1}
	p1 := gopacket.NewPacket(in[:ln], first, opts)
	other := verifBytes("other", 8)
	verifBarrier(false)
	_ = gopacket.NewPacket(other, first, gopacket.Default).Layers()
	verifBarrier(true)
	p2 := gopacket.NewPacket(in[:ln], first, opts)
	c02Same(p1, p2)
	verifAssert(bytes.Equal(in, save), "the caller's input buffer is never written to")
	verifAssert(verifBaseWrites() == 0, "decoding writes no package-level state")
	verifReached("determinism")
}

// a fully decoded packet may be read by several goroutines at once
func c02Shared(first gopacket.LayerType, n int) {
	verifPreemptBound(0)
	in := verifBytes("in", n)
	ln := verifInt("n", 0, n)
	opts := gopacket.DecodeOptions{NoCopy: verifChoose(2) == 1}
	p := gopacket.NewPacket(in[:ln], first, opts)
	verifFreeze(p)
	verifFreeze(in)
	done := make(chan int, 2)
	for g := 0; g < 2; g++ {
		go func() { done <- c02Read(p) }()
	}
	r1 := <-done
	r2 := <-done
	verifAssert(r1 == r2, "every reader gets the same answers")
	verifReached("shared")
}

// C04: copy isolates; NoCopy and Pool change only where bytes live
func c04Ownership(first gopacket.LayerType, n int) {
	in := verifBytes("in", n)
	ln := verifInt("n", 0, n)
	def := gopacket.NewPacket(in[:ln], first, gopacket.Default)
	nocopy := gopacket.NewPacket(in[:ln], first, gopacket.NoCopy)
	pooled := gopacket.NewPacket(in[:ln], first, gopacket.DecodeOptions{Pool: true})
	both := gopacket.NewPacket(in[:ln], first, gopacket.DecodeOptions{Pool: true, NoCopy: true})
	c02Same(def, nocopy)
	c02Same(def, pooled)
	c02Same(def, both)
	verifAssert(!verifReachable(def, in), "a default packet does not reference the caller's buffer")
	if ln > 0 {
		verifAssert(verifSameBacking(nocopy.Data(), in), "NoCopy packets alias the caller's buffer")
		verifAssert(!verifSameBacking(pooled.Data(), in), "pooled packets own their bytes")
	}
	// mutate the caller's buffer: the default and pooled packets do not change
	before := append([]byte(nil), def.Data()...)
	for i := range in {
		in[i] ^= 0xff
	}
	verifAssert(bytes.Equal(def.Data(), before), "default packet unchanged when the caller's buffer is modified")
	verifAssert(bytes.Equal(pooled.Data(), before), "pooled packet unchanged when the caller's buffer is modified")
	for _, l := range def.Layers() {
		c, p := l.LayerContents(), l.LayerPayload()
		_ = c
		_ = p
	}
	verifReached("ownership")
}

type c04Disposer interface{ Dispose() }

// no two live pooled packets share memory, for any order of decode and dispose
func verif_C04_pool_history() {
	verifPoolND(true)
	var live []gopacket.Packet
	for step := 0; step < 3; step++ {
		if len(live) > 0 && verifChoose(2) == 1 {
			i := verifChoose(len(live))
			live[i].(c04Disposer).Dispose()
			live = append(live[:i:i], live[i+1:]...)
			continue
		}
		in := verifBytes("in", 2)
		p := gopacket.NewPacket(in, gopacket.LayerTypePayload, gopacket.DecodeOptions{Pool: true})
		for _, q := range live {
			verifAssert(!verifSameBacking(p.Data(), q.Data()), "no two undisposed pooled packets share backing memory")
		}
		live = append(live, p)
		verifAssert(bytes.Equal(p.Data(), in), "pooled packet holds the input bytes")
	}
	verifReached("pool-history")
}

func verif_C04_pool_sizes() {
	n := verifParam("len")
	in := verifBytes("in", 4)
	big := make([]byte, n)
	copy(big, in)
	p := gopacket.NewPacket(big, gopacket.LayerTypePayload, gopacket.DecodeOptions{Pool: true})
	d := p.Data()
	verifAssert(len(d) == n, "packets around the pool block size keep their length")
	for i := 0; i < 4 && i < n; i++ {
		verifAssert(d[i] == in[i], "and their bytes")
	}
	verifAssert(p.ErrorLayer() == nil, "payload decodes")
	verifReached("pool-sizes")
}

// C01 (rendering): String()/Dump() of every layer of a decoded packet
func c01Render(first gopacket.LayerType, n int) {
	in := verifBytes("in", n)
	ln := verifInt("n", 0, n)
	p := gopacket.NewPacket(in[:ln], first, gopacket.Default)
	for _, l := range p.Layers() {
		if _, isFail := l.(*gopacket.DecodeFailure); isFail {
			continue // its text is the error string; nothing layer-specific to render
		}
		verifRender(l)
	}
	verifReached("render")
}

// the same for a TCP header whose first option is a Multipath TCP option
func verif_C01_render_TCP_mptcp() {
	in := verifBytes("in", 32)
	verifAssume(in[12]>>4 == 8) // 32-byte header: 12 option bytes
	verifAssume(in[20] == 30)   // option kind: Multipath TCP
	p := gopacket.NewPacket(in, LayerTypeTCP, gopacket.Default)
	for _, l := range p.Layers() {
		if _, isFail := l.(*gopacket.DecodeFailure); isFail {
			continue
		}
		verifRender(l)
	}
	verifReached("render")
}

// RadioTap with the data-pad flag: the decoder removes two padding octets
// after the 802.11 header of the payload.  The radiotap header is concrete
// (version 0, length 9, present = flags only, flags = data pad), the 802.11
// frame that follows is symbolic except for its frame control octets.
func verif_C02_det_radiotap_datapad() {
	n := 9 + 32
	in := verifBytes("in", n)
	copy(in, []byte{0, 0, 9, 0, 2, 0, 0, 0, 0x20, 0x88, 0}) // 0x88 0x00: QoS data frame, three addresses: 26-octet header
	save := append([]byte(nil), in...)
	verifInput(in)
	verifBarrier(true)
	opts := gopacket.DecodeOptions{NoCopy: true}
	p1 := gopacket.NewPacket(in, LayerTypeRadioTap, opts)
	p2 := gopacket.NewPacket(in, LayerTypeRadioTap, opts)
	c02Same(p1, p2)
	verifAssert(bytes.Equal(in, save), "the caller's input buffer is never written to")
	verifReached("determinism")
}
