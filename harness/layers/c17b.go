package layers

import (
	"github.com/gopacket/gopacket"
)

// C17 (layer part): the flow reported by a decoded link, network or transport
// layer carries exactly that layer's source and destination addresses.

func verif_C17_flow_ethernet() {
	in := verifBytes("in", 14)
	var l Ethernet
	if l.DecodeFromBytes(in, gopacket.NilDecodeFeedback) != nil {
		return
	}
	f := l.LinkFlow()
	verifAssert(f == gopacket.NewFlow(EndpointMAC, in[6:12], in[0:6]), "Ethernet flow = (src MAC, dst MAC)")
	verifAssert(f.Reverse() == gopacket.NewFlow(EndpointMAC, in[0:6], in[6:12]), "reverse direction")
	verifAssert(f.FastHash() == f.Reverse().FastHash(), "both directions hash equally")
	verifReached("eth")
}

func verif_C17_flow_ipv4() {
	in := verifBytes("in", 20)
	var l IPv4
	if l.DecodeFromBytes(in, gopacket.NilDecodeFeedback) != nil {
		return
	}
	f := l.NetworkFlow()
	verifAssert(f == gopacket.NewFlow(EndpointIPv4, in[12:16], in[16:20]), "IPv4 flow = (src, dst)")
	verifReached("ip4")
}

func verif_C17_flow_ipv6() {
	in := verifBytes("in", 40)
	var l IPv6
	if l.DecodeFromBytes(in, gopacket.NilDecodeFeedback) != nil {
		return
	}
	f := l.NetworkFlow()
	verifAssert(f == gopacket.NewFlow(EndpointIPv6, in[8:24], in[24:40]), "IPv6 flow = (src, dst)")
	verifReached("ip6")
}

func verif_C17_flow_tcp() {
	in := verifBytes("in", 20)
	var l TCP
	if l.DecodeFromBytes(in, gopacket.NilDecodeFeedback) != nil {
		return
	}
	f := l.TransportFlow()
	verifAssert(f == gopacket.NewFlow(EndpointTCPPort, in[0:2], in[2:4]), "TCP flow = (src port, dst port)")
	verifReached("tcp")
}

func verif_C17_flow_udp() {
	in := verifBytes("in", 8)
	var l UDP
	if l.DecodeFromBytes(in, gopacket.NilDecodeFeedback) != nil {
		return
	}
	f := l.TransportFlow()
	verifAssert(f == gopacket.NewFlow(EndpointUDPPort, in[0:2], in[2:4]), "UDP flow = (src port, dst port)")
	verifReached("udp")
}

func verif_C17_flow_sctp() {
	in := verifBytes("in", 12)
	var l SCTP
	if l.DecodeFromBytes(in, gopacket.NilDecodeFeedback) != nil {
		return
	}
	f := l.TransportFlow()
	verifAssert(f == gopacket.NewFlow(EndpointSCTPPort, in[0:2], in[2:4]), "SCTP flow = (src port, dst port)")
	verifReached("sctp")
}
