package gopacket

import "bytes"

// C18: the serialize buffer holds exactly what was written, in position order.

func c18NewBuffer() SerializeBuffer {
	if verifChoose(2) == 0 {
		return NewSerializeBuffer()
	}
	hp := verifInt("hintPrepend", 0, 2)
	ha := verifInt("hintAppend", 0, 2)
	return NewSerializeBufferExpectedSize(hp, ha)
}

func c18Steps(k int) { c18StepsSized(k, false) }

// enumSizes: the requested sizes are enumerated (0..3) instead of symbolic, so
// that all offsets are concrete; contents and constructor hints stay symbolic.
func c18StepsSized(k int, enumSizes bool) {
	w := c18NewBuffer()
	var ref []byte
	verifAssert(len(w.Bytes()) == 0, "new buffer is empty")
	for step := 0; step < k; step++ {
		op := verifChoose(3)
		switch op {
		case 0, 1:
			var num int
			if enumSizes {
				num = verifChoose(4)
			} else {
				num = verifInt("num", 0, 3)
			}
			var b []byte
			var err error
			if op == 0 {
				b, err = w.PrependBytes(num)
			} else {
				b, err = w.AppendBytes(num)
			}
			verifAssert(err == nil, "no error")
			verifAssert(len(b) == num, "returned slice has the requested length")
			fresh := verifBytes("w", 3)
			for i := 0; i < num; i++ {
				b[i] = fresh[i]
			}
			nr := make([]byte, 0, len(ref)+num)
			if op == 0 {
				nr = append(nr, fresh[:num]...)
				nr = append(nr, ref...)
			} else {
				nr = append(nr, ref...)
				nr = append(nr, fresh[:num]...)
			}
			ref = nr
		case 2:
			w.PushLayer(LayerType(7))
			verifAssert(w.Clear() == nil, "clear ok")
			verifAssert(len(w.Layers()) == 0, "clear empties the layer list")
			ref = ref[:0]
		}
		got := w.Bytes()
		verifAssert(len(got) == len(ref), "length equals bytes written")
		verifAssert(bytes.Equal(got, ref), "contents equal bytes written, prepends first, appends last")
	}
	verifReached("seq")
}

func verif_C18_seq2() { c18Steps(2) }
func verif_C18_seq3() { c18Steps(3) }
func verif_C18_seq4() { c18StepsSized(4, true) }

// the returned slice is a window onto the contents: a write made through it
// after the call is visible through Bytes() at the right position.
func verif_C18_window() {
	w := c18NewBuffer()
	n0 := verifInt("n0", 0, 3)
	b0, _ := w.AppendBytes(n0)
	init := verifBytes("init", 3)
	for i := 0; i < n0; i++ {
		b0[i] = init[i]
	}
	num := verifInt("num", 1, 3)
	j := verifInt("j", 0, 2)
	verifAssume(j < num)
	v := verifU8("v")
	if verifChoose(2) == 0 {
		b, _ := w.PrependBytes(num)
		b[j] = v
		verifAssert(w.Bytes()[j] == v, "prepend window at front")
		verifAssert(len(w.Bytes()) == n0+num, "length after prepend")
		for i := 0; i < n0; i++ {
			verifAssert(w.Bytes()[num+i] == init[i], "old bytes follow the prepended window")
		}
	} else {
		b, _ := w.AppendBytes(num)
		b[j] = v
		verifAssert(w.Bytes()[n0+j] == v, "append window at back")
		verifAssert(len(w.Bytes()) == n0+num, "length after append")
		for i := 0; i < n0; i++ {
			verifAssert(w.Bytes()[i] == init[i], "old bytes precede the appended window")
		}
	}
	verifReached("window")
}

type c18Layer struct {
	t    LayerType
	n    int
	mark byte
	fail bool
}

func (l *c18Layer) LayerType() LayerType { return l.t }
func (l *c18Layer) SerializeTo(b SerializeBuffer, opts SerializeOptions) error {
	if l.fail {
		return errC18
	}
	bs, err := b.PrependBytes(l.n)
	if err != nil {
		return err
	}
	for i := range bs {
		bs[i] = l.mark
	}
	return nil
}

var errC18 = &c18Err{}

type c18Err struct{}

func (*c18Err) Error() string { return "c18" }

func verif_C18_stack() {
	w := c18NewBuffer()
	// dirty the buffer first: SerializeLayers must clear it
	pre, _ := w.AppendBytes(verifInt("dirty", 0, 2))
	for i := range pre {
		pre[i] = 0xEE
	}
	w.PushLayer(LayerType(99))
	ls := make([]*c18Layer, 3)
	for i := range ls {
		ls[i] = &c18Layer{t: LayerType(10 + i), n: verifInt("n", 0, 2), mark: byte(0xA0 + i)}
	}
	failAt := verifChoose(4) // 3 = nobody fails
	if failAt < 3 {
		ls[failAt].fail = true
	}
	err := SerializeLayers(w, SerializeOptions{}, ls[0], ls[1], ls[2])
	if failAt < 3 {
		verifAssert(err == error(errC18), "error of the failing layer is returned")
		verifAssert(len(w.Layers()) == 2-failAt, "layers pushed innermost-first until the failure")
		verifReached("stack-fail")
		return
	}
	verifAssert(err == nil, "no error")
	lt := w.Layers()
	verifAssert(len(lt) == 3, "three layers recorded")
	verifAssert(lt[0] == LayerType(12), "innermost first")
	verifAssert(lt[1] == LayerType(11), "middle")
	verifAssert(lt[2] == LayerType(10), "outermost last")
	out := w.Bytes()
	verifAssert(len(out) == ls[0].n+ls[1].n+ls[2].n, "total length")
	pos := 0
	for i := 0; i < 3; i++ {
		for k := 0; k < ls[i].n; k++ {
			verifAssert(out[pos] == byte(0xA0+i), "outermost layer's bytes first")
			pos++
		}
	}
	verifReached("stack")
}
