package gopacket

import (
	"context"
	"errors"
	"io"
	"time"
)

// C16: packet source delivers each packet once, in order, intact; shuts down cleanly.

type c16Timeout struct{}

func (c16Timeout) Error() string   { return "i/o timeout" }
func (c16Timeout) Timeout() bool   { return true }
func (c16Timeout) Temporary() bool { return true }

var errC16Temp = errors.New("temporary failure")

type c16Ev struct {
	kind int // 0 packet, 1 timeout, 2 other transient error, 3 EOF
	data []byte
	ci   CaptureInfo
}

type c16Src struct {
	evs  []c16Ev
	i    int
	buf  [4]byte // reused by the zero-copy variant
	zero bool
	idle bool // after the history: time out forever (an idle live capture) instead of EOF
}

func (s *c16Src) next() (data []byte, ci CaptureInfo, err error) {
	if s.i >= len(s.evs) {
		if s.idle {
			return nil, ci, c16Timeout{}
		}
		return nil, ci, io.EOF
	}
	ev := s.evs[s.i]
	s.i++
	switch ev.kind {
	case 0:
		if s.zero {
			n := copy(s.buf[:], ev.data)
			return s.buf[:n], ev.ci, nil
		}
		return append([]byte(nil), ev.data...), ev.ci, nil
	case 1:
		return nil, ci, c16Timeout{}
	case 2:
		return nil, ci, errC16Temp
	}
	return nil, ci, io.EOF
}
func (s *c16Src) ReadPacketData() ([]byte, CaptureInfo, error)         { return s.next() }
func (s *c16Src) ZeroCopyReadPacketData() ([]byte, CaptureInfo, error) { return s.next() }

func c16History(k int) []c16Ev {
	evs := make([]c16Ev, k)
	for i := range evs {
		kind := verifChoose(4)
		evs[i].kind = kind
		if kind == 0 {
			ln := verifInt("ln", 0, 2)
			d := verifBytes("d", 2)[:ln]
			extra := verifInt("extra", 0, 1)
			evs[i].data = d
			evs[i].ci = CaptureInfo{Timestamp: time.Unix(int64(100+i), 0), CaptureLength: ln, Length: ln + extra, InterfaceIndex: i + 1}
		}
	}
	return evs
}

func c16Check(p Packet, ev c16Ev) {
	verifAssert(p != nil, "packet delivered")
	d := p.Data()
	verifAssert(len(d) == len(ev.data), "same data length")
	for j := range d {
		verifAssert(d[j] == ev.data[j], "same data bytes")
	}
	m := p.Metadata()
	verifAssert(m.CaptureLength == ev.ci.CaptureLength, "capture length attached")
	verifAssert(m.Length == ev.ci.Length, "length attached")
	verifAssert(m.InterfaceIndex == ev.ci.InterfaceIndex, "capture metadata attached")
	verifAssert(m.Truncated == (ev.ci.CaptureLength < ev.ci.Length), "truncated iff fewer bytes captured than on the wire")
}

func verif_C16_pull() {
	evs := c16History(3)
	src := &c16Src{evs: evs, zero: verifChoose(2) == 1}
	var ps *PacketSource
	if src.zero {
		ps = NewZeroCopyPacketSource(src, DecodePayload)
	} else {
		ps = NewPacketSource(src, DecodePayload)
	}
	var got []Packet
	var which []int
	for i := 0; i < len(evs); i++ {
		p, err := ps.NextPacket()
		switch evs[i].kind {
		case 0:
			verifAssert(err == nil, "packet read without error")
			c16Check(p, evs[i])
			got = append(got, p)
			which = append(which, i)
		case 1:
			verifAssert(p == nil, "no packet on timeout")
			_, isT := err.(c16Timeout)
			verifAssert(isT, "timeout error is returned, not swallowed")
		case 2:
			verifAssert(err == errC16Temp, "transient error is returned, not swallowed")
		default:
			verifAssert(err == io.EOF, "end of input is returned")
		}
	}
	// a delivered packet is never altered by later reads of the data source
	for j, p := range got {
		c16Check(p, evs[which[j]])
	}
	verifReached("pull")
}

type c16Ctx struct {
	done chan struct{}
	err  error
}

func (c *c16Ctx) Deadline() (time.Time, bool)       { return time.Time{}, false }
func (c *c16Ctx) Done() <-chan struct{}             { return c.done }
func (c *c16Ctx) Err() error                        { return c.err }
func (c *c16Ctx) Value(key interface{}) interface{} { return nil }
func (c *c16Ctx) cancel() {
	if c.err == nil {
		c.err = context.Canceled
		close(c.done)
	}
}

func verif_C16_chan() {
	verifPreemptBound(verifParam("preempt"))
	evs := c16History(3)
	// transient events must neither lose nor duplicate packets: expect all
	// packets before the first EOF event
	var want []int
	for i, e := range evs {
		if e.kind == 3 {
			break
		}
		if e.kind == 0 {
			want = append(want, i)
		}
	}
	src := &c16Src{evs: evs}
	ps := NewPacketSource(src, DecodePayload)
	ctx := &c16Ctx{done: make(chan struct{})}
	ch := ps.PacketsCtx(ctx)
	verifAssert(ps.PacketsCtx(ctx) == ch, "Packets returns the same channel every time")
	cancelAfter := verifChoose(len(want)+2) - 1 // -1: never cancel
	n := 0
	for {
		if cancelAfter == n {
			ctx.cancel()
		}
		p, ok := <-ch
		if !ok {
			break
		}
		verifAssert(n < len(want), "no more packets than the data source produced")
		if n < len(want) {
			c16Check(p, evs[want[n]])
		}
		n++
	}
	if cancelAfter < 0 {
		verifAssert(n == len(want), "every packet delivered exactly once, in order, then the channel is closed")
	}
	verifJoin() // the background reader terminates
	verifReached("chan")
}

func verif_C16_guard() {
	src := &c16Src{evs: c16History(2), zero: true}
	ps := NewZeroCopyPacketSource(src, DecodePayload, WithNoCopy(true))
	refused := false
	func() {
		defer func() {
			if recover() != nil {
				refused = true
			}
		}()
		ps.Packets()
	}()
	verifAssert(refused, "zero-copy data source with NoCopy decoding is refused on the channel interface")
	verifReached("guard")
}

// an idle live source (times out forever): cancelling the context must stop
// the background reader as soon as its current read returns
func verif_C16_cancel_idle() {
	verifPreemptBound(verifParam("preempt"))
	evs := c16History(2)
	for _, e := range evs {
		verifAssume(e.kind != 3)
	}
	src := &c16Src{evs: evs, idle: true}
	ps := NewPacketSource(src, DecodePayload)
	ctx := &c16Ctx{done: make(chan struct{})}
	ch := ps.PacketsCtx(ctx)
	npk := 0
	for _, e := range evs {
		if e.kind == 0 {
			npk++
		}
	}
	for n := 0; n < npk; n++ {
		_, ok := <-ch
		verifAssert(ok, "packets of the history are delivered before cancellation")
	}
	ctx.cancel()
	for range ch {
		verifAssert(false, "no packet after the history")
	}
	verifJoin() // the background reader terminates
	verifReached("cancel-idle")
}
