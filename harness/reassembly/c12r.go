package reassembly

import (
	"time"

	"github.com/gopacket/gopacket"
	"github.com/gopacket/gopacket/layers"
)

// C12 for package reassembly: the two directions of one connection are
// first seen by two assemblers at the same time.

type c12rFactory struct {
	streams []*c09Stream
	meet    chan bool
}

func (f *c12rFactory) New(n, t gopacket.Flow, tcp *layers.TCP, ac AssemblerContext) Stream {
	s := &c09Stream{}
	f.streams = append(f.streams, s)
	if f.meet != nil {
		select {
		case f.meet <- true:
		case <-f.meet:
		}
	} else {
		verifYield()
	}
	return s
}

var c12rNetAB = gopacket.NewFlow(layers.EndpointIPv4, []byte{1, 2, 3, 4}, []byte{5, 6, 7, 8})
var c12rNetBA = gopacket.NewFlow(layers.EndpointIPv4, []byte{5, 6, 7, 8}, []byte{1, 2, 3, 4})

func verif_C12_reassembly_directions() {
	verifPreemptBound(verifParam("preempt"))
	f := &c12rFactory{}
	if verifChoose(2) == 0 {
		f.meet = make(chan bool)
	}
	pool := NewStreamPool(f)
	a1, a2 := NewAssembler(pool), NewAssembler(pool)
	ts := time.Unix(50, 0)
	ctx := &c09Ctx{ci: gopacket.CaptureInfo{Timestamp: ts}}
	done := make(chan bool, 2)
	syn := &layers.TCP{SrcPort: 1000, DstPort: 80, Seq: 100, SYN: true}
	syn.SetInternalPortsForTesting()
	synack := &layers.TCP{SrcPort: 80, DstPort: 1000, Seq: 500, Ack: 101, SYN: true, ACK: true}
	synack.SetInternalPortsForTesting()
	go func() {
		a1.AssembleWithContext(c12rNetAB, syn, ctx)
		done <- true
	}()
	go func() {
		a2.AssembleWithContext(c12rNetBA, synack, ctx)
		done <- true
	}()
	<-done
	<-done
	verifJoin()
	verifAssert(len(pool.conns) == 1, "both directions are attached to a single connection entry")
	a1.FlushAll()
	kept := 0
	for _, s := range f.streams {
		verifAssert(!s.late, "no data after completion")
		verifAssert(s.complete <= 1, "no stream is completed twice")
		if s.complete == 1 {
			kept++
		}
	}
	verifAssert(kept == 1, "exactly one stream is kept for the connection and completed once")
	verifReached("directions")
}
