package reassembly

import (
	"time"

	"github.com/gopacket/gopacket"
	"github.com/gopacket/gopacket/layers"
)

// C11 for package reassembly: lifecycle and page accounting over histories.

func verif_C11_reassembly_lifecycle() {
	k := verifParam("k")
	f := &c09Factory{}
	pool := NewStreamPool(f)
	a := NewAssembler(pool)
	ts := time.Unix(50, 0)
	S := verifBytes("S", 8)
	for i := 0; i < k; i++ {
		rev := verifChoose(2) == 1 // direction
		t := &layers.TCP{Seq: 100 + uint32(verifInt("o", 0, 5)), SYN: verifBool("syn"), FIN: verifBool("fin"), RST: verifBool("rst"), ACK: true}
		if rev {
			t.SrcPort, t.DstPort = 80, 1000
		} else {
			t.SrcPort, t.DstPort = 1000, 80
		}
		t.SetInternalPortsForTesting()
		l := verifInt("l", 0, 2)
		t.Payload = S[0:l]
		ctx := &c09Ctx{ci: gopacket.CaptureInfo{Timestamp: ts.Add(time.Duration(i) * time.Second)}}
		net := c12rNetAB
		if rev {
			net = c12rNetBA
		}
		a.AssembleWithContext(net, t, ctx)
		if verifChoose(3) == 1 {
			a.FlushCloseOlderThan(ts.Add(time.Duration(verifInt("cut", 0, 3)) * time.Second))
		}
	}
	a.FlushAll()
	for _, s := range f.streams {
		verifAssert(!s.late, "no data after completion")
		verifAssert(s.complete == 1, "every stream obtained from the factory is completed exactly once")
	}
	verifAssert(a.pc.used == 0, "no buffer page remains in use after flush-all")
	verifReached("lifecycle")
}
