package ip6defrag

import (
	"net"

	"github.com/gopacket/gopacket/layers"
)

var c13Perm3 = [6][3]int{{0, 1, 2}, {0, 2, 1}, {1, 0, 2}, {1, 2, 0}, {2, 0, 1}, {2, 1, 0}}

// C13 (IPv6 part): the payload of a datagram is rebuilt from its fragments in
// any arrival order.
func verif_C13_v6() {
	a := 1 + verifChoose(2)
	b := 1 + verifChoose(2)
	cut1, cut2 := 8*a, 8*(a+b)
	last := verifInt("last", 1, 8)
	total := cut2 + last
	p := verifBytes("p", 40)
	ip := &layers.IPv6{Version: 6, HopLimit: 9, SrcIP: net.IP(make([]byte, 16)), DstIP: net.IP(make([]byte, 16)), NextHeader: layers.IPProtocolIPv6Fragment}
	id := verifU32("id")
	mk := func(off int, more bool, pay []byte) *layers.IPv6Fragment {
		return &layers.IPv6Fragment{BaseLayer: layers.BaseLayer{Payload: pay}, NextHeader: layers.IPProtocolUDP, FragmentOffset: uint16(off), MoreFragments: more, Identification: id}
	}
	frags := [3]*layers.IPv6Fragment{mk(0, true, p[0:cut1]), mk(a, true, p[cut1:cut2]), mk(a+b, false, p[cut2:total])}
	order := c13Perm3[verifChoose(6)]
	d := NewIPv6Defragmenter()
	var out *layers.IPv6
	for k := 0; k < 3; k++ {
		o := d.DefragIPv6(ip, frags[order[k]])
		if k < 2 {
			verifAssert(o == nil, "nothing before the last missing fragment")
		} else {
			out = o
		}
	}
	verifAssert(out != nil, "datagram returned when complete")
	verifAssert(len(out.Payload) == total, "payload length")
	for i := 0; i < total; i++ {
		verifAssert(out.Payload[i] == p[i], "payload bytes are the original bytes")
	}
	verifAssert(out.NextHeader == layers.IPProtocolUDP, "next header of the fragmented payload")
	verifReached("v6")
}
