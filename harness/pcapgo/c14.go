package pcapgo

import (
	"io"
	"time"

	"github.com/gopacket/gopacket"
	"github.com/gopacket/gopacket/layers"
)

// C14: capture files round-trip; a truncated file yields a true prefix.

type c14Writer struct{ b []byte }

func (w *c14Writer) Write(p []byte) (int, error) {
	w.b = append(w.b, p...)
	return len(p), nil
}

type c14Reader struct {
	data []byte
	pos  int
}

func (r *c14Reader) Read(p []byte) (int, error) {
	if r.pos >= len(r.data) {
		return 0, io.EOF
	}
	n := copy(p, r.data[r.pos:])
	r.pos += n
	return n, nil
}

type c14Pkt struct {
	data []byte
	ci   gopacket.CaptureInfo
}

func c14Packets(k int, nanos bool) []c14Pkt {
	out := make([]c14Pkt, k)
	for i := range out {
		ln := verifChoose(4) // 0..3 bytes
		d := verifBytes("d", 3)[:ln]
		extra := int(verifU16("extra"))
		sec := int64(verifU32("sec"))
		nsec := int64(verifInt("nsec", 0, 999999999))
		out[i] = c14Pkt{data: d, ci: gopacket.CaptureInfo{Timestamp: time.Unix(sec, nsec), CaptureLength: ln, Length: ln + extra}}
	}
	return out
}

func c14Pcap(nanos bool, cut bool) {
	k := 1 + verifChoose(2)
	pk := c14Packets(k, nanos)
	w := &c14Writer{}
	var pw *Writer
	if nanos {
		pw = NewWriterNanos(w)
	} else {
		pw = NewWriter(w)
	}
	snap := verifU32("snaplen")
	verifAssume(verifAnd(snap >= 3, snap <= 0xffff))
	lt := layers.LinkType(verifU32("linktype"))
	verifAssert(pw.WriteFileHeader(snap, lt) == nil, "header written")
	ends := make([]int, k)
	for i := range pk {
		verifAssert(pw.WritePacket(pk[i].ci, pk[i].data) == nil, "packet written")
		ends[i] = len(w.b)
	}
	file := w.b
	whole := k
	if cut {
		t := verifChoose(len(file) + 1)
		file = file[:t]
		whole = 0
		for i := range ends {
			if ends[i] <= t {
				whole = i + 1
			}
		}
		if t < 24 {
			_, err := NewReader(&c14Reader{data: file})
			verifAssert(err != nil, "truncated header is an error")
			verifAssert(err == io.EOF || err == io.ErrUnexpectedEOF, "end-of-file class error for a truncated header")
			verifReached("cut-header")
			return
		}
	}
	r, err := NewReader(&c14Reader{data: file})
	verifAssert(err == nil, "reader accepts the written header")
	verifAssert(r.Snaplen() == snap, "snap length round-trips")
	verifAssert(r.LinkType() == lt, "link type round-trips")
	zero := verifChoose(2) == 1
	for i := 0; i < whole; i++ {
		var d []byte
		var ci gopacket.CaptureInfo
		if zero {
			d, ci, err = r.ZeroCopyReadPacketData()
		} else {
			d, ci, err = r.ReadPacketData()
		}
		verifAssert(err == nil, "whole packet read without error")
		verifAssert(len(d) == len(pk[i].data), "same data length")
		for j := range d {
			verifAssert(d[j] == pk[i].data[j], "same data bytes")
		}
		verifAssert(ci.CaptureLength == pk[i].ci.CaptureLength, "same capture length")
		verifAssert(ci.Length == pk[i].ci.Length, "same length")
		want := pk[i].ci.Timestamp
		verifAssert(ci.Timestamp.Unix() == want.Unix(), "same seconds")
		if nanos {
			verifAssert(ci.Timestamp.Nanosecond() == want.Nanosecond(), "same nanoseconds")
		} else {
			verifAssert(ci.Timestamp.Nanosecond() == want.Nanosecond()/1000*1000, "timestamp truncated to microseconds")
		}
	}
	_, _, err = r.ReadPacketData()
	verifAssert(err != nil, "no packet beyond the complete ones")
	verifAssert(err == io.EOF || err == io.ErrUnexpectedEOF, "then end-of-file or unexpected-end error")
	if !cut {
		verifAssert(err == io.EOF, "clean end of file after the last packet")
	}
	verifReached("pcap-roundtrip")
}

func verif_C14_pcap_micro()     { c14Pcap(false, false) }
func verif_C14_pcap_nano()      { c14Pcap(true, false) }
func verif_C14_pcap_micro_cut() { c14Pcap(false, true) }
func verif_C14_pcap_nano_cut()  { c14Pcap(true, true) }

// ---- pcapng ----

var c14FixedLens = false
var c14NextLen = 0

func c14Str(tag string) string {
	var ln int
	if c14FixedLens {
		// truncation harnesses: one string of each length 1,2,3,0 (contents symbolic)
		c14NextLen++
		ln = c14NextLen % 4
	} else {
		ln = verifChoose(4) // lengths 0..3: every length mod 4, and the empty string
	}
	return string(verifBytes(tag, 3)[:ln])
}

func c14Ng(cut bool, withOpts bool) { c14NgTS(cut, withOpts, false) }

// c14PacketOptsOnly: section/interface strings get one fixed length each
// (1,2,3,0), only the per-packet option strings range over every length
var c14PacketOptsOnly = false

func c14NgTS(cut bool, withOpts bool, symTS bool) {
	c14FixedLens, c14NextLen = cut || symTS || c14PacketOptsOnly, 0
	w := &c14Writer{}
	intf := NgInterface{
		Name:                c14Str("ifname"),
		Description:         c14Str("ifdesc"),
		LinkType:            layers.LinkType(verifU16("linktype")),
		SnapLength:          uint32(verifU16("snaplen")) | 0x100,
		TimestampResolution: 9,
	}
	wopts := NgWriterOptions{SectionInfo: NgSectionInfo{Application: c14Str("app"), Comment: c14Str("comment")}}
	ngw, err := NewNgWriterInterface(w, intf, wopts)
	verifAssert(err == nil, "writer created")
	k := 1 + verifChoose(2)
	type pkt struct {
		data []byte
		ci   gopacket.CaptureInfo
		opts NgPacketOptions
	}
	pk := make([]pkt, k)
	ends := make([]int, k)
	verifAssert(ngw.Flush() == nil, "flush")
	hdrEnd := len(w.b)
	if c14PacketOptsOnly {
		c14FixedLens = false
	}
	for i := range pk {
		ln := verifChoose(4)
		d := verifBytes("d", 3)[:ln]
		// timestamps are concrete here (the /10^9 arithmetic of the reader is
		// decided separately in verif_C14_ng_ts with a symbolic timestamp)
		sec, nsec := int64(1700000000+i), int64(123456789*(i+1))
		if symTS {
			sec = int64(verifU32("sec") & 0x7fffffff)
			nsec = int64(verifInt("nsec", 0, 999999999))
		}
		pk[i].data = d
		pk[i].ci = gopacket.CaptureInfo{Timestamp: time.Unix(sec, nsec), CaptureLength: ln, Length: ln + int(verifU8("extra")), InterfaceIndex: 0}
		if withOpts {
			q := verifU32("queue")
			dc := verifU64("drop")
			pk[i].opts = NgPacketOptions{Comments: []string{c14Str("pcomment")}, Queue: &q, DropCount: &dc}
		}
		verifAssert(ngw.WritePacketWithOptions(pk[i].ci, pk[i].data, pk[i].opts) == nil, "packet written")
		verifAssert(ngw.Flush() == nil, "flush")
		ends[i] = len(w.b)
	}
	file := w.b
	whole := k
	if cut {
		t := hdrEnd + verifChoose(len(file)-hdrEnd+1)
		file = file[:t]
		whole = 0
		for i := range ends {
			if ends[i] <= t {
				whole = i + 1
			}
		}
	}
	r, err := NewNgReader(&c14Reader{data: file}, DefaultNgReaderOptions)
	verifAssert(err == nil, "reader accepts the written section and interface")
	verifAssert(r.LinkType() == intf.LinkType, "link type round-trips")
	verifAssert(r.NInterfaces() == 1, "one interface")
	ri, _ := r.Interface(0)
	verifAssert(ri.Name == intf.Name, "interface name round-trips")
	verifAssert(ri.Description == intf.Description, "interface description round-trips")
	verifAssert(ri.SnapLength == intf.SnapLength, "snap length round-trips")
	verifAssert(r.SectionInfo().Application == wopts.SectionInfo.Application, "section application string round-trips")
	verifAssert(r.SectionInfo().Comment == wopts.SectionInfo.Comment, "section comment round-trips")
	for i := 0; i < whole; i++ {
		d, ci, o, err := r.ReadPacketDataWithOptions()
		verifAssert(err == nil, "whole packet read without error")
		verifAssert(len(d) == len(pk[i].data), "same data length")
		for j := range d {
			verifAssert(d[j] == pk[i].data[j], "same data bytes")
		}
		verifAssert(ci.CaptureLength == pk[i].ci.CaptureLength, "same capture length")
		verifAssert(ci.Length == pk[i].ci.Length, "same length")
		verifAssert(ci.InterfaceIndex == 0, "same interface")
		verifAssert(ci.Timestamp.Unix() == pk[i].ci.Timestamp.Unix(), "same seconds")
		verifAssert(ci.Timestamp.Nanosecond() == pk[i].ci.Timestamp.Nanosecond(), "same nanoseconds")
		if withOpts {
			verifAssert(len(o.Comments) == 1 && o.Comments[0] == pk[i].opts.Comments[0], "packet comment round-trips")
			verifAssert(o.Queue != nil && *o.Queue == *pk[i].opts.Queue, "queue option round-trips")
			verifAssert(o.DropCount != nil && *o.DropCount == *pk[i].opts.DropCount, "drop count round-trips")
		}
	}
	_, _, err = r.ReadPacketData()
	verifAssert(err != nil, "no packet beyond the complete ones")
	verifAssert(err == io.EOF || err == io.ErrUnexpectedEOF, "then end-of-file or unexpected-end error")
	if !cut {
		verifAssert(err == io.EOF, "clean end of file after the last packet")
	}
	verifReached("ng-roundtrip")
}

func verif_C14_ng()          { c14Ng(false, false) }
func verif_C14_ng_ts()       { c14NgTS(false, false, true) }
func verif_C14_ng_opts()     { c14Ng(false, true) }
func verif_C14_ng_popts()    { c14PacketOptsOnly = true; c14Ng(false, true) }
func verif_C14_ng_cut()      { c14Ng(true, false) }
func verif_C14_ng_opts_cut() { c14Ng(true, true) }
