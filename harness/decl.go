package gopacket

// Declarations of the engine intrinsics (bodies are provided by symgo when
// encoding, and by decl_native.go for native replay).

func verifBytes(name string, n int) []byte
func verifU8(name string) uint8
func verifU16(name string) uint16
func verifU32(name string) uint32
func verifU64(name string) uint64
func verifInt(name string, lo, hi int) int
func verifBool(name string) bool
func verifAssume(c bool)
func verifAssert(c bool, label string)
func verifReached(label string)
func verifBarrier(on bool)
func verifInput(b []byte)
func verifJoin()
func verifPoolND(on bool)
func verifSameBacking(a, b []byte) bool
func verifReachable(root interface{}, b []byte) bool
func verifChoose(n int) int
func verifBaseWrites() int
func verifIte(c bool, a, b int) int
func verifYield()
func verifAnd(a, b bool) bool
func verifOr(a, b bool) bool
func verifImplies(a, b bool) bool
func verifParam(name string) int
func verifPreemptBound(n int)
func verifDeepEqual(a, b interface{}) bool
func verifFreeze(root interface{})
func verifDeepEqualExcept(a, b interface{}, skip string) bool
func verifSettle()
func verifRender(x interface{})
